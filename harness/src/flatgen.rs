//! Random flat bodies beyond the exhaustive bound, recorded with hook events
//! for trace validation (impl -> spec).

use crate::alpha;
use crate::flat::{self, Item};
use crate::rng::Rng;
use serde_json::json;

const NAMES: [&str; 4] = ["a", "b", "c", "d"];

struct Profile {
    /// (kind, weight); kinds needing a name draw one from `names`
    kinds: Vec<(&'static str, usize)>,
    names: usize,
    max_len: usize,
    max_depth: usize,
    loops: bool,
}

fn profile(prop: &str) -> Profile {
    match prop {
        "C04" => Profile {
            kinds: vec![("O", 6), ("IO", 6), ("EO", 8), ("EIO", 5), ("C", 18), ("G", 10), ("IG", 14),
                        ("EG", 6), ("EIG", 5), ("L", 22)],
            names: 4,
            max_len: 40,
            max_depth: 5,
            loops: false,
        },
        "C05" => Profile {
            kinds: vec![("O", 8), ("IO", 5), ("EO", 4), ("C", 14), ("G", 4), ("IG", 12), ("L", 12),
                        ("V", 18), ("U", 20), ("S", 3)],
            names: 3,
            max_len: 40,
            max_depth: 4,
            loops: true,
        },
        _ => panic!("no profile for {prop}"),
    }
}

fn needs_name(k: &str) -> bool {
    matches!(k, "G" | "IG" | "EG" | "EIG" | "L" | "V" | "U")
}

pub fn random_body(prop: &str, rng: &mut Rng) -> Vec<Item> {
    let p = profile(prop);
    let len = rng.range(3, p.max_len);
    let mut items: Vec<Item> = Vec::new();
    let mut opens: Vec<&'static str> = Vec::new();
    let mut last_if = false;
    let weights: Vec<usize> = p.kinds.iter().map(|x| x.1).collect();
    // label names are drawn with a per-body bias so that matches are likely
    while items.len() + opens.len() < len {
        let (k, _) = p.kinds[rng.weighted(&weights)];
        let is_else = matches!(k, "EO" | "EIO" | "EG" | "EIG");
        if is_else && !last_if {
            continue;
        }
        match k {
            "O" | "IO" | "EO" | "EIO" => {
                if opens.len() >= p.max_depth {
                    continue;
                }
                opens.push(k);
                last_if = false;
                items.push(Item::new(k, ""));
            }
            "C" => {
                let Some(o) = opens.pop() else { continue };
                if p.loops && rng.chance(25) {
                    items.push(Item::new("LP", ""));
                }
                last_if = matches!(o, "IO" | "EIO");
                items.push(Item::new("C", ""));
            }
            k => {
                let name = if needs_name(k) { NAMES[rng.below(p.names)] } else { "" };
                last_if = matches!(k, "IG" | "EIG");
                items.push(Item::new(k, name));
            }
        }
    }
    while opens.pop().is_some() {
        items.push(Item::new("C", ""));
    }
    items
}

/// A C05 body whose labels are all legal: labels get unique names and conditional gotos are inserted
/// only at places from which the label is a forward/outward target, so that E482 (skipped
/// declarations) is actually decided by the rule on most random bodies.
pub fn label_valid_body(rng: &mut Rng) -> Vec<Item> {
    let mut items: Vec<Item> = random_body("C05", rng).into_iter().filter(|x| !matches!(x.kind.as_str(), "G" | "IG" | "EG" | "EIG")).collect();
    // an if-part may have lost its goto: drop else-parts that no longer follow an if-part
    let mut cleaned: Vec<Item> = Vec::new();
    let mut opens: Vec<String> = Vec::new();
    let mut last_if = false;
    let mut skip_depth: Option<usize> = None;
    for it in items.drain(..) {
        let k = it.kind.as_str();
        if let Some(d) = skip_depth {
            if matches!(k, "O" | "IO" | "EO" | "EIO") { opens.push("skip".to_string()); }
            if k == "C" { opens.pop(); if opens.len() == d { skip_depth = None; } }
            continue;
        }
        match k {
            "EO" | "EIO" if !last_if => { skip_depth = Some(opens.len()); opens.push("skip".to_string()); continue; }
            "O" | "IO" | "EO" | "EIO" => { opens.push(k.to_string()); last_if = false; }
            "C" => { let o = opens.pop().unwrap_or_default(); last_if = o == "IO" || o == "EIO"; }
            _ => { last_if = false; }
        }
        cleaned.push(it);
    }
    let mut items = cleaned;
    // declarations get fresh names (no E422, so that E482 is decided); uses pick any declared name
    let mut declared: Vec<String> = Vec::new();
    for it in items.iter_mut() {
        if it.kind == "V" {
            if rng.chance(92) || declared.is_empty() {
                it.name = format!("v{}", declared.len());
                declared.push(it.name.clone());
            } else {
                it.name = declared[rng.below(declared.len())].clone();
            }
        } else if it.kind == "U" && !declared.is_empty() && rng.chance(90) {
            // mostly recent declarations, so that uses after labels resolve to nearby declarations
            let k = declared.len();
            let back = rng.below(k.min(4));
            it.name = declared[k - 1 - back].clone();
        }
    }
    let mut n = 0;
    for it in items.iter_mut() {
        if it.kind == "L" {
            it.name = format!("l{n}");
            n += 1;
        }
    }
    // insert gotos, last label first so that earlier positions stay valid
    for li in (0..n).rev() {
        let lname = format!("l{li}");
        let j = items.iter().position(|x| x.kind == "L" && x.name == lname).unwrap();
        // block of the label: walk back to its opener
        let mut depth = 0i32;
        let mut start = 0usize;
        for i in (0..j).rev() {
            match items[i].kind.as_str() {
                "C" => depth += 1,
                "O" | "IO" | "EO" | "EIO" => {
                    if depth == 0 { start = i + 1; break; }
                    depth -= 1;
                }
                _ => {}
            }
        }
        let name = items[j].name.clone();
        let how_many = rng.below(4);
        let mut spots: Vec<usize> = (0..how_many).map(|_| rng.range(start, j)).collect();
        spots.sort();
        spots.dedup();
        for &sp in spots.iter().rev() {
            // not between `loop;` and its closing brace
            if sp > 0 && items[sp - 1].kind == "LP" { continue; }
            items.insert(sp, Item::new("IG", &name));
        }
    }
    items
}

fn event_filter(prop: &str, ev: &str) -> bool {
    match prop {
        "C04" => matches!(ev, "lpush" | "lpop" | "ldecl" | "luse"),
        "C05" => matches!(ev, "vpush" | "vpop" | "vdecl" | "cdecl" | "vuse" | "vgoto" | "vprune"),
        "C06" => matches!(ev, "visit" | "lint"),
        _ => false,
    }
}

/// One recorded run: input line, hook events, outcome line.
pub fn record_one(prop: &str, seed: u64, i: usize) -> Vec<String> {
    let mut rng = Rng::new(seed, i as u64);
    let (items, consts, params) = match prop {
        "C05" => {
            let items = if rng.chance(70) { label_valid_body(&mut rng) } else { random_body(prop, &mut rng) };
            let consts: Vec<String> = if rng.chance(40) { vec![NAMES[rng.below(3)].to_string()] } else { vec![] };
            let mut params: Vec<String> = Vec::new();
            if rng.chance(40) {
                params.push(NAMES[rng.below(3)].to_string());
                if rng.chance(25) {
                    params.push(NAMES[rng.below(3)].to_string());
                }
            }
            (items, consts, params)
        }
        "C06" => (crate::flatgen::random_tree_body(&mut rng), vec![], vec![]),
        _ => (random_body(prop, &mut rng), vec![], vec![]),
    };
    let decoy: Vec<String> = if prop == "C04" { NAMES.iter().map(|x| x.to_string()).collect() } else { Vec::new() };
    let r = flat::render_with_decoy(&items, &consts, &params, &decoy);
    // what the real parser saw
    let decls = alpha::parse(&r.source, "case.pn");
    let proj = flat::project(&r.source, &decls);
    let mut lines = Vec::new();
    let Some(proj) = proj else {
        lines.push(json!({"ev": "toolerror", "case": i, "what": "projection failed", "source": r.source}).to_string());
        return lines;
    };
    let consecutive = proj.lines.iter().enumerate().all(|(p, l)| *l == r.off + p + 1);
    if !consecutive {
        lines.push(json!({"ev": "toolerror", "case": i, "what": "lines not consecutive", "source": r.source}).to_string());
        return lines;
    }
    let b: Vec<serde_json::Value> = proj.items.iter().map(|x| json!({"k": x.kind, "n": x.name})).collect();
    // primitive tokens of the whole body, the prelude `var x` at position 0 included (C06)
    let mut t: Vec<serde_json::Value> = vec![json!({"k": "V", "p": 0})];
    for (k, _n, p) in flat::expand(&proj.items) {
        t.push(json!({"k": k, "p": p}));
    }
    lines.push(
        json!({"ev": "input", "case": i, "b": b, "t": t, "off": r.off, "decoy": decoy.len(),
               "consts": proj.consts.iter().map(|x| json!({"n": x.0, "line": x.1})).collect::<Vec<_>>(),
               "params": proj.params.iter().map(|x| json!({"n": x.0, "line": x.1})).collect::<Vec<_>>()})
        .to_string(),
    );
    let o = alpha::run_single(&r.source, "case.pn", alpha::Upto::Resolve, true);
    for e in &o.events {
        // cheap filter on the event name without parsing the whole line
        let name = e.split('"').nth(3).unwrap_or("");
        if event_filter(prop, name) {
            lines.push(e.clone());
        }
    }
    if o.panic.is_none() {
        lines.push(
            json!({"ev": "outcome", "ok": o.ok,
                   "diags": o.diags.iter().map(|d| json!({"code": d.code, "line": d.line})).collect::<Vec<_>>(),
                   "lints": o.lints.iter().map(|d| json!({"code": d.code, "line": d.line})).collect::<Vec<_>>()})
            .to_string(),
        );
    } else {
        lines.push(json!({"ev": "crash", "what": o.panic}).to_string());
    }
    lines
}

// ---------------------------------------------------------------------------
// C06: statement trees with naked branches
// ---------------------------------------------------------------------------
fn tree_stmt(rng: &mut Rng, depth: usize, budget: &mut usize, out: &mut Vec<Item>, in_else: bool) {
    if *budget == 0 {
        out.push(Item::new("S", ""));
        return;
    }
    *budget -= 1;
    let w: Vec<usize> = if depth >= 4 { vec![10, 10, 10, 6, 0, 0] } else { vec![8, 8, 10, 5, 8, 12] };
    let _ = in_else;
    match rng.weighted(&w) {
        0 => out.push(Item::new("S", "")),
        1 => out.push(Item::new("G", "z")),
        2 => out.push(Item::new("LP", "")),
        3 => out.push(Item::new("L", &format!("q{}", out.len()))),
        4 => {
            out.push(Item::new("O", ""));
            let n = rng.below(4);
            for _ in 0..n {
                tree_stmt(rng, depth + 1, budget, out, false);
            }
            out.push(Item::new("C", ""));
        }
        _ => {
            out.push(Item::new("I", ""));
            tree_stmt(rng, depth + 1, budget, out, false);
            if rng.chance(50) {
                out.push(Item::new("E", ""));
                tree_stmt(rng, depth + 1, budget, out, true);
            }
        }
    }
}

/// Bodies over {block, if, if-else, else-if, goto, loop, assignment, label} with
/// arbitrary (also illegal) placements; `z:` is appended so that gotos resolve.
pub fn random_tree_body(rng: &mut Rng) -> Vec<Item> {
    let mut out = Vec::new();
    let mut budget = rng.range(2, 24);
    let n = rng.range(1, 6);
    for _ in 0..n {
        tree_stmt(rng, 0, &mut budget, &mut out, false);
    }
    out.push(Item::new("L", "z"));
    normalise(out)
}

/// Rewrite `I G` / `I O` / `E G` / `E O` / `E I G` / `E I O` into the compact
/// forms the projector produces, so that generated and projected bodies agree.
pub fn normalise(items: Vec<Item>) -> Vec<Item> {
    // closing braces of blocks opened in compact form stay "C"
    let mut out: Vec<Item> = Vec::new();
    let mut i = 0;
    while i < items.len() {
        let k = items[i].kind.as_str();
        let next = items.get(i + 1).map(|x| x.kind.as_str());
        let next2 = items.get(i + 2).map(|x| x.kind.as_str());
        match (k, next, next2) {
            ("I", Some("G"), _) => { out.push(Item::new("IG", &items[i + 1].name)); i += 2; }
            ("I", Some("O"), _) => { out.push(Item::new("IO", "")); i += 2; }
            ("E", Some("G"), _) => { out.push(Item::new("EG", &items[i + 1].name)); i += 2; }
            ("E", Some("O"), _) => { out.push(Item::new("EO", "")); i += 2; }
            ("E", Some("I"), Some("G")) => { out.push(Item::new("EIG", &items[i + 2].name)); i += 3; }
            ("E", Some("I"), Some("O")) => { out.push(Item::new("EIO", "")); i += 3; }
            _ => { out.push(items[i].clone()); i += 1; }
        }
    }
    out
}

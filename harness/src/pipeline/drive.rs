//! The driver protocol of `compile_to_ir_using_alpha` (src/main.rs), call by call, through the
//! public API of the library, logging one event after every call.  The caller supplies the sink
//! (the worker flushes every event to its stdout so that a crash leaves a truncated trace).

use penne::alpha::common::{Declaration, DeclarationFlag};
use penne::alpha::error::Poison;
use penne::alpha::{Compiler, expander, lexer, parser, resolver, scoper};
use serde_json::{Value, json};
use std::hash::Hasher;

pub struct ModuleIn {
    pub name: String,
    pub src: String,
}

pub struct CaseIn {
    pub id: String,
    pub kind: String,
    pub wasm: bool,
    pub mods: Vec<ModuleIn>,
    /// fields passed through to the `input` event (expect / fault / toks ...)
    pub extra: Value,
}

impl CaseIn {
    pub fn from_json(v: &Value) -> CaseIn {
        let mods = v["mods"]
            .as_array()
            .map(|a| {
                a.iter()
                    .map(|m| ModuleIn {
                        name: m["name"].as_str().unwrap_or("case.pn").to_string(),
                        src: m["src"].as_str().unwrap_or("").to_string(),
                    })
                    .collect()
            })
            .unwrap_or_default();
        let mut extra = serde_json::Map::new();
        for k in ["expect", "fault", "toks", "ctx", "origin", "variant"] {
            if let Some(x) = v.get(k) {
                extra.insert(k.to_string(), x.clone());
            }
        }
        CaseIn {
            id: v["id"].as_str().map(|s| s.to_string()).unwrap_or_else(|| v["id"].to_string()),
            kind: v["kind"].as_str().unwrap_or("").to_string(),
            wasm: v["wasm"].as_bool().unwrap_or(false),
            mods,
            extra: Value::Object(extra),
        }
    }
}

pub fn text_hash(s: &str) -> String {
    // SipHash with fixed keys: the same text gives the same value in every process
    #[allow(deprecated)]
    let mut h = std::hash::SipHasher::new_with_keys(0x70656e6e65, 0x7665726966);
    h.write(s.as_bytes());
    format!("{:016x}-{}", h.finish(), s.len())
}

/// character offsets of the line starts, independent of the lexer under test (lines end in \n)
pub fn line_starts(src: &str) -> Vec<usize> {
    let mut out = vec![0];
    for (i, c) in src.chars().enumerate() {
        if c == '\n' {
            out.push(i + 1);
        }
    }
    out
}

/// Error::build_report + write in the four colour / charset configurations of stdout.rs, against
/// the same source cache main.rs builds (an empty source is replaced by one blank).
pub fn render_all(e: &penne::alpha::Error, sources: &[(String, String)]) -> Vec<Value> {
    let mut out = Vec::new();
    let known: std::collections::HashSet<char> =
        sources.iter().flat_map(|(n, s)| n.chars().chain(s.chars())).filter(|c| !c.is_ascii()).collect();
    for (color, ascii) in [(false, false), (false, true), (true, false), (true, true)] {
        let r = std::panic::catch_unwind(std::panic::AssertUnwindSafe(|| {
            let cfg = ariadne::Config::default()
                .with_index_type(ariadne::IndexType::Char)
                .with_color(color)
                .with_char_set(if ascii { ariadne::CharSet::Ascii } else { ariadne::CharSet::Unicode });
            let cfg = penne::alpha::error::Config::from(cfg).with_color(color);
            let report = e.build_report(cfg);
            let mut buf: Vec<u8> = Vec::new();
            let cache = ariadne::sources(sources.to_vec());
            let res = report.write(cache, &mut buf);
            (res.is_ok(), buf)
        }));
        let v = match r {
            Ok((ok, buf)) => {
                let text = String::from_utf8_lossy(&buf).to_string();
                let foreign: String = text.chars().filter(|c| !c.is_ascii() && !known.contains(c)).take(8).collect();
                json!({"color": color, "ascii": ascii, "status": if ok { "ok" } else { "err" },
                       "esc": text.contains('\u{1b}'), "foreign": foreign, "len": text.len(),
                       "has_code": text.contains(&format!("{}]", e.code()))})
            }
            Err(_) => json!({"color": color, "ascii": ascii, "status": "panic", "esc": false, "foreign": "", "len": 0, "has_code": false}),
        };
        out.push(v);
    }
    out
}

thread_local! {
    static SOURCES: std::cell::RefCell<Vec<(String, String)>> = const { std::cell::RefCell::new(Vec::new()) };
    static RENDER: std::cell::Cell<bool> = const { std::cell::Cell::new(true) };
    /// at most this many diagnostics per case are rendered (token soup yields hundreds)
    static RENDER_BUDGET: std::cell::Cell<usize> = const { std::cell::Cell::new(0) };
}

pub fn set_render(on: bool) {
    RENDER.with(|r| r.set(on));
}

pub fn diag_json(e: &penne::alpha::Error) -> Value {
    let l = e.verif_location();
    // `dh`: a fixed (process-independent) hash of the whole diagnostic -- every name, message parameter and
    // secondary location, not only the code and the primary location (determinism is about all of it)
    let mut dh: u64 = 0xcbf29ce484222325;
    for b in format!("{e:?}").bytes() {
        dh = (dh ^ b as u64).wrapping_mul(0x100000001b3);
    }
    let mut v = json!({"code": e.code(), "line": l.line_number, "col": l.line_offset,
           "start": l.span.start, "end": l.span.end, "file": l.source_filename, "dh": format!("{dh:016x}")});
    let budget = RENDER_BUDGET.with(|b| {
        let n = b.get();
        b.set(n.saturating_sub(1));
        n
    });
    if RENDER.with(|r| r.get()) && budget > 0 {
        let sources = SOURCES.with(|s| s.borrow().clone());
        let r = render_all(e, &sources);
        // compact form when all four renderings are fine (status ok, code shown, no ESC without colour,
        // no foreign non-ASCII character with the ascii charset)
        let clean = r.iter().all(|x| {
            x["status"] == "ok"
                && x["has_code"] == true
                && (x["color"] == true || x["esc"] == false)
                && (x["ascii"] == false || x["foreign"] == "")
        });
        if clean {
            v["r4"] = json!(true);
        } else {
            v["render"] = Value::Array(r);
        }
    }
    v
}

fn poison_json(p: &Poison) -> (String, u16) {
    match p {
        Poison::Error(e) => ("error".to_string(), e.code()),
        Poison::Poisoned => ("poisoned".to_string(), 0),
    }
}

/// The abstract top-level view of a module: kind, name, flags, poison state.
pub fn project(decls: &[Declaration]) -> Vec<Value> {
    decls
        .iter()
        .map(|d| match d {
            Declaration::Function { name, flags, body, .. } => {
                let (p, c) = match body {
                    Ok(_) => ("ok".to_string(), 0),
                    Err(p) => poison_json(p),
                };
                json!({"k": "fn", "name": name.name, "pub": flags.contains(DeclarationFlag::Public),
                       "ext": flags.contains(DeclarationFlag::External), "p": "ok", "c": 0, "bp": p, "bc": c})
            }
            Declaration::FunctionHead { name, flags, .. } => {
                json!({"k": "head", "name": name.name, "pub": flags.contains(DeclarationFlag::Public),
                       "ext": flags.contains(DeclarationFlag::External), "p": "ok", "c": 0})
            }
            Declaration::Constant { name, flags, .. } => {
                json!({"k": "const", "name": name.name, "pub": flags.contains(DeclarationFlag::Public),
                       "ext": false, "p": "ok", "c": 0})
            }
            Declaration::Structure { name, flags, .. } => {
                json!({"k": "struct", "name": name.name, "pub": flags.contains(DeclarationFlag::Public),
                       "ext": flags.contains(DeclarationFlag::External), "p": "ok", "c": 0})
            }
            Declaration::Import { filename, .. } => {
                json!({"k": "import", "name": filename, "pub": false, "ext": false, "p": "ok", "c": 0})
            }
            Declaration::Poison(p) => {
                let (p, c) = poison_json(p);
                json!({"k": "poison", "name": "", "pub": false, "ext": false, "p": p, "c": c})
            }
        })
        .collect()
}

pub struct Sink<'a> {
    pub emit: &'a mut dyn FnMut(Value),
    pub ir_dir: Option<&'a std::path::Path>,
}

fn write_ir(sink: &Sink, id: &str, tag: &str, ir: &str) -> Option<String> {
    let dir = sink.ir_dir?;
    let path = dir.join(format!("{id}.{tag}.ll"));
    std::fs::write(&path, ir).ok()?;
    Some(path.to_string_lossy().to_string())
}

/// Runs one case.  Every return path has emitted either an `outcome` event (terminal state of the
/// protocol) or an `internal` event (an anyhow error of the generator, which the CLI shows as
/// "Error: ..." without any diagnostic).  A panic unwinds through this function.
pub fn run_case(case: &CaseIn, sink: &mut Sink) {
    let n = case.mods.len();
    let mut input = json!({
        "ev": "input", "id": case.id, "kind": case.kind, "wasm": case.wasm, "n": n,
        "mods": case.mods.iter().map(|m| {
            let ls = line_starts(&m.src);
            json!({"name": m.name, "nchars": m.src.chars().count(), "nbytes": m.src.len(), "lines": ls})
        }).collect::<Vec<_>>(),
    });
    if let Value::Object(extra) = &case.extra {
        for (k, v) in extra {
            input[k] = v.clone();
        }
    }
    (sink.emit)(input);
    RENDER_BUDGET.with(|b| b.set(48));
    SOURCES.with(|s| {
        *s.borrow_mut() = case
            .mods
            .iter()
            .map(|m| (m.name.clone(), if m.src.is_empty() { " ".to_string() } else { m.src.clone() }))
            .collect()
    });

    let mut modules: Vec<(std::path::PathBuf, Vec<Declaration>)> = Vec::new();
    for (k, m) in case.mods.iter().enumerate() {
        let tokens = lexer::lex(&m.src, &m.name);
        let errs: Vec<Value> = tokens
            .iter()
            .filter_map(|t| match &t.result {
                Ok(_) => None,
                Err(e) => {
                    // the code the catalogue gives this lexical error
                    let err = penne::alpha::Error::Lexical {
                        error: *e,
                        location: t.location.clone(),
                        expectation: String::new(),
                    };
                    Some(json!({"code": err.code(), "line": t.location.line_number,
                                "start": t.location.span.start, "end": t.location.span.end}))
                }
            })
            .collect();
        (sink.emit)(json!({"ev": "lex", "m": k + 1, "ntok": tokens.len(), "errs": errs}));
        let declarations = parser::parse(tokens);
        (sink.emit)(json!({"ev": "parse", "m": k + 1, "decls": project(&declarations)}));
        modules.push((std::path::PathBuf::from(&m.name), declarations));
    }

    expander::expand(&mut modules);
    (sink.emit)(json!({"ev": "expand",
        "decls": modules.iter().map(|(_, d)| Value::Array(project(d))).collect::<Vec<_>>()}));

    for (k, (_, declarations)) in modules.iter().enumerate() {
        match resolver::check_surface_level_errors(declarations) {
            Ok(()) => (sink.emit)(json!({"ev": "surface", "m": k + 1, "codes": []})),
            Err(errors) => {
                (sink.emit)(json!({"ev": "surface", "m": k + 1, "codes": errors.codes()}));
                (sink.emit)(json!({"ev": "outcome", "ok": false, "codes": errors.codes(),
                    "diags": errors.errors.iter().map(diag_json).collect::<Vec<_>>(), "lints": []}));
                return;
            }
        }
    }

    let mut compiler = Compiler::default();
    if case.wasm {
        if let Err(e) = compiler.for_wasm() {
            (sink.emit)(json!({"ev": "internal", "at": "for_wasm", "msg": format!("{e:#}")}));
            return;
        }
    }
    let mut all_lints: Vec<Value> = Vec::new();
    for (k, (filepath, declarations)) in modules.into_iter().enumerate() {
        let filename = filepath.to_string_lossy().to_string();
        let declarations = scoper::analyze(declarations);
        (sink.emit)(json!({"ev": "scope", "m": k + 1}));
        if let Err(e) = compiler.add_module(&filename) {
            (sink.emit)(json!({"ev": "internal", "at": "add_module", "m": k + 1, "msg": format!("{e:#}")}));
            return;
        }
        let resolved = match compiler.analyze_and_resolve(declarations) {
            Ok(Ok(resolved)) => {
                (sink.emit)(json!({"ev": "resolve", "m": k + 1, "ok": true, "codes": []}));
                resolved
            }
            Ok(Err(errors)) => {
                (sink.emit)(json!({"ev": "resolve", "m": k + 1, "ok": false, "codes": errors.codes()}));
                (sink.emit)(json!({"ev": "outcome", "ok": false, "codes": errors.codes(),
                    "diags": errors.errors.iter().map(diag_json).collect::<Vec<_>>(), "lints": all_lints}));
                return;
            }
            Err(e) => {
                (sink.emit)(json!({"ev": "internal", "at": "analyze_and_resolve", "m": k + 1, "msg": format!("{e:#}")}));
                return;
            }
        };
        let lints = compiler.take_lints();
        let lint_json: Vec<Value> = lints.iter().map(diag_json).collect();
        (sink.emit)(json!({"ev": "lint", "m": k + 1,
                           "codes": lints.iter().map(|l| l.code()).collect::<Vec<_>>()}));
        all_lints.extend(lint_json);
        if let Err(e) = compiler.compile(&resolved) {
            (sink.emit)(json!({"ev": "internal", "at": "compile", "m": k + 1, "msg": format!("{e:#}")}));
            return;
        }
        match compiler.generate_ir() {
            Ok(ir) => {
                let f = write_ir(sink, &case.id, &format!("m{}", k + 1), &ir);
                (sink.emit)(json!({"ev": "generate", "m": k + 1, "irh": text_hash(&ir), "irf": f}));
            }
            Err(e) => {
                (sink.emit)(json!({"ev": "internal", "at": "generate_ir", "m": k + 1, "msg": format!("{e:#}")}));
                return;
            }
        }
    }
    if let Err(e) = compiler.link_modules() {
        (sink.emit)(json!({"ev": "internal", "at": "link_modules", "msg": format!("{e:#}")}));
        return;
    }
    match compiler.generate_ir() {
        Ok(ir) => {
            let f = write_ir(sink, &case.id, "link", &ir);
            (sink.emit)(json!({"ev": "link", "irh": text_hash(&ir), "irf": f}));
        }
        Err(e) => {
            (sink.emit)(json!({"ev": "internal", "at": "generate_ir(linked)", "msg": format!("{e:#}")}));
            return;
        }
    }
    (sink.emit)(json!({"ev": "outcome", "ok": true, "codes": [], "diags": [], "lints": all_lints}));
}

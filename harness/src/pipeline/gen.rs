//! Seeded input generators for C02/C03/C13: corpus files and their import closures, mutated corpus
//! files, token soup, deep nesting, near-valid programs with one injected fault whose location is
//! known, and generated 2-3-module sets.  Everything is valid UTF-8, at most 64 KiB, nesting <= 256.

use pvh::rng::Rng;
use serde_json::{Value, json};
use std::path::{Path, PathBuf};

pub const MAX_BYTES: usize = 64 * 1024;

pub struct Corpus {
    pub files: Vec<(String, String)>, // (path relative to the repository, text)
    pub root: PathBuf,
}

fn walk(dir: &Path, out: &mut Vec<PathBuf>) {
    let Ok(rd) = std::fs::read_dir(dir) else { return };
    let mut entries: Vec<PathBuf> = rd.filter_map(|e| e.ok().map(|e| e.path())).collect();
    entries.sort();
    for p in entries {
        if p.is_dir() {
            walk(&p, out);
        } else if p.extension().map(|e| e == "pn").unwrap_or(false) {
            out.push(p);
        }
    }
}

impl Corpus {
    pub fn load(root: &Path) -> Corpus {
        let mut paths = Vec::new();
        for d in ["tests/samples", "examples", "core", "vendor"] {
            walk(&root.join(d), &mut paths);
        }
        let mut files = Vec::new();
        for p in paths {
            if let Ok(text) = std::fs::read_to_string(&p) {
                if text.len() <= MAX_BYTES {
                    let rel = p.strip_prefix(root).unwrap().to_string_lossy().to_string();
                    files.push((rel, text));
                }
            }
        }
        Corpus { files, root: root.to_path_buf() }
    }

    fn get(&self, rel: &str) -> Option<&str> {
        self.files.iter().find(|(r, _)| r == rel).map(|(_, t)| t.as_str())
    }

    /// the module set the CLI would be given for this file: the file first, then every module it
    /// (transitively) imports, named so that `expander::get_key_offset` resolves the import
    pub fn closure(&self, rel: &str) -> Vec<(String, String)> {
        let mut out: Vec<(String, String)> = Vec::new();
        let mut todo = vec![rel.to_string()];
        while let Some(name) = todo.pop() {
            if out.iter().any(|(n, _)| *n == name) {
                continue;
            }
            let text = if let Some(rest) = name.strip_prefix("core:") {
                self.get(&format!("core/{rest}"))
            } else if let Some(rest) = name.strip_prefix("vendor:") {
                self.get(&format!("vendor/{rest}"))
            } else {
                self.get(&name)
            };
            let Some(text) = text else { continue };
            out.push((name.clone(), text.to_string()));
            for imp in imports_of(text) {
                let target = if imp.starts_with("core:") || imp.starts_with("vendor:") {
                    imp
                } else if name.starts_with("core:") || name.starts_with("vendor:") {
                    // sibling inside a library: same scheme, directory of the importer
                    let (scheme, rest) = name.split_once(':').unwrap();
                    let dir = Path::new(rest).parent().map(|p| p.to_path_buf()).unwrap_or_default();
                    format!("{scheme}:{}", dir.join(&imp).to_string_lossy())
                } else {
                    let dir = Path::new(&name).parent().map(|p| p.to_path_buf()).unwrap_or_default();
                    dir.join(&imp).to_string_lossy().to_string()
                };
                todo.push(target);
            }
        }
        out
    }
}

pub fn imports_of(text: &str) -> Vec<String> {
    let mut out = Vec::new();
    for line in text.lines() {
        let l = line.trim_start();
        if let Some(rest) = l.strip_prefix("import") {
            let rest = rest.trim_start();
            if let Some(rest) = rest.strip_prefix('"') {
                if let Some(end) = rest.find('"') {
                    out.push(rest[..end].to_string());
                }
            }
        }
    }
    out
}

/// One representative spelling per token kind (lexer.rs Token), plus invalid lexemes and a few
/// texts that matter for offsets (multi-byte characters, CR).
pub const ALPHABET: &[&str] = &[
    "(", ")", "{", "}", "[", "]", "<", ">", "|", "&", "^", "!", "_", "+", "-", "*", "/", "%", ":", ";", ".", ",", "=",
    "==", "!=", ">=", "<=", "<<", ">>", "->", "|:", "..",
    "fn", "var", "const", "if", "goto", "loop", "else", "cast", "as", "import", "pub", "extern", "struct",
    "word8", "word16", "word32", "word64", "word128",
    "x", "main", "print!", "17", "0x1F", "0b101", "42u8", "'a'", "true", "false", "\"s\"",
    "void", "i8", "i16", "i32", "i64", "i128", "u8", "u16", "u32", "u64", "u128", "usize", "char8", "bool",
    "return", "end", "next:", "y", "z", "S", "\"a.pn\"", "0", "1", "340282366920938463463374607431768211455",
];
pub const BAD_LEXEMES: &[(&str, u16)] = &[
    ("@", 110), ("#", 110), ("\u{e9}", 110), ("\u{1f35d}", 110), ("$", 110),
    ("1z", 141), ("0q", 141), ("9999999999999999999999999999999999999999", 140),
    ("0xFFFFFFFFFFFFFFFFFFFFFFFFFFFFFFFFF", 140),
    ("\"abc", 160), ("\"ab\\", 161), ("\"\\q\"", 162), ("'ab'", 163), ("''", 163),
];

#[derive(Clone, Debug)]
pub struct Tok {
    pub start: usize, // byte offsets
    pub end: usize,
}

/// a crude tokenizer that does not use the lexer under test: identifiers/numbers, string and
/// character literals (to the closing quote or end of line), comments, single other characters
pub fn tokenize(text: &str) -> Vec<Tok> {
    let b: Vec<(usize, char)> = text.char_indices().collect();
    let mut out = Vec::new();
    let mut i = 0;
    while i < b.len() {
        let (pos, c) = b[i];
        if c.is_whitespace() {
            i += 1;
            continue;
        }
        let mut j = i + 1;
        if c.is_ascii_alphanumeric() || c == '_' {
            while j < b.len() && (b[j].1.is_ascii_alphanumeric() || b[j].1 == '_') {
                j += 1;
            }
            if j < b.len() && b[j].1 == '!' && !(j + 1 < b.len() && b[j + 1].1 == '=') {
                j += 1;
            }
        } else if c == '"' || c == '\'' {
            while j < b.len() && b[j].1 != '\n' {
                if b[j].1 == '\\' {
                    j += 2;
                    continue;
                }
                if b[j].1 == c {
                    j += 1;
                    break;
                }
                j += 1;
            }
            j = j.min(b.len());
        } else if c == '/' && j < b.len() && b[j].1 == '/' {
            while j < b.len() && b[j].1 != '\n' {
                j += 1;
            }
        } else if j < b.len() {
            let two: String = [c, b[j].1].iter().collect();
            if ["==", "!=", ">=", "<=", "<<", ">>", "->", "|:", ".."].contains(&two.as_str()) {
                j += 1;
            }
        }
        let end = if j < b.len() { b[j].0 } else { text.len() };
        out.push(Tok { start: pos, end });
        i = j;
    }
    out
}

fn char_offset(text: &str, byte: usize) -> usize {
    text[..byte].chars().count()
}

fn line_of(text: &str, byte: usize) -> usize {
    1 + text[..byte].matches('\n').count()
}

pub struct Gen<'a> {
    pub corpus: &'a Corpus,
    pub seed: u64,
}

fn single(id: String, kind: &str, name: &str, src: String) -> Value {
    json!({"id": id, "kind": kind, "wasm": false, "mods": [{"name": name, "src": src}]})
}

fn clip(mut s: String) -> String {
    if s.len() > MAX_BYTES {
        let mut n = MAX_BYTES;
        while !s.is_char_boundary(n) {
            n -= 1;
        }
        s.truncate(n);
    }
    s
}

impl<'a> Gen<'a> {
    fn pick_file(&self, r: &mut Rng) -> &'a (String, String) {
        &self.corpus.files[r.below(self.corpus.files.len())]
    }

    /// every corpus file alone, and with its import closure when it imports something
    pub fn corpus_cases(&self) -> Vec<Value> {
        let mut out = Vec::new();
        for (i, (rel, text)) in self.corpus.files.iter().enumerate() {
            let is_wasm = rel.contains("wasm4");
            let mut c = single(format!("corpus{i}"), "corpus", rel, text.clone());
            c["origin"] = json!(rel);
            c["wasm"] = json!(is_wasm);
            out.push(c);
            if !imports_of(text).is_empty() {
                let set = self.corpus.closure(rel);
                if set.len() > 1 {
                    let mods: Vec<Value> = set.iter().map(|(n, s)| json!({"name": n, "src": s})).collect();
                    out.push(json!({"id": format!("corpusset{i}"), "kind": "corpus-set", "wasm": is_wasm,
                                    "origin": rel, "mods": mods}));
                    // the same set in reverse command-line order
                    let mut rev = mods.clone();
                    rev.reverse();
                    out.push(json!({"id": format!("corpussetr{i}"), "kind": "corpus-set", "wasm": is_wasm,
                                    "origin": rel, "mods": rev}));
                }
            }
            // the valid samples once more for the wasm target (never executed)
            if rel.starts_with("tests/samples/valid/") && i % 4 == 0 {
                let mut c = single(format!("corpuswasm{i}"), "corpus-wasm", rel, text.clone());
                c["wasm"] = json!(true);
                c["origin"] = json!(rel);
                out.push(c);
            }
        }
        out
    }

    pub fn mutant(&self, i: usize) -> Value {
        let mut r = Rng::new(self.seed, 0x1000_0000 + i as u64);
        let (rel, text) = self.pick_file(&mut r);
        let toks = tokenize(text);
        if toks.len() < 2 {
            return single(format!("mut{i}"), "mut:none", rel, text.clone());
        }
        let t = r.below(toks.len());
        let tk = &toks[t];
        let (kind, src) = match r.below(7) {
            0 => ("mut:del", format!("{}{}", &text[..tk.start], &text[tk.end..])),
            1 => ("mut:dup", format!("{}{} {}", &text[..tk.end], "", &text[tk.start..])),
            2 => {
                let u = r.below(toks.len());
                let (a, b) = if t <= u { (t, u) } else { (u, t) };
                let (ta, tb) = (&toks[a], &toks[b]);
                if a == b {
                    ("mut:swap", text.clone())
                } else {
                    ("mut:swap", format!("{}{}{}{}{}", &text[..ta.start], &text[tb.start..tb.end],
                        &text[ta.end..tb.start], &text[ta.start..ta.end], &text[tb.end..]))
                }
            }
            3 => {
                let w = *r.pick(ALPHABET);
                ("mut:repl", format!("{}{}{}", &text[..tk.start], w, &text[tk.end..]))
            }
            4 => {
                let w = *r.pick(ALPHABET);
                ("mut:ins", format!("{} {} {}", &text[..tk.start], w, &text[tk.start..]))
            }
            5 => {
                // splice: a prefix of this file and a suffix of another one, cut at token boundaries
                let (_, other) = self.pick_file(&mut r);
                let ot = tokenize(other);
                if ot.is_empty() {
                    ("mut:splice", text[..tk.start].to_string())
                } else {
                    let u = r.below(ot.len());
                    ("mut:splice", format!("{}{}", &text[..tk.start], &other[ot[u].start..]))
                }
            }
            _ => {
                // truncate in the middle of the file (errors at end of file), sometimes without newline
                ("mut:trunc", text[..tk.end].to_string())
            }
        };
        let mut src = clip(src);
        if r.chance(5) {
            src = src.replace('\n', "\r\n");
        }
        let mut c = single(format!("mut{i}"), kind, rel, clip(src));
        c["origin"] = json!(rel);
        c
    }

    pub fn soup(&self, i: usize) -> Value {
        let mut r = Rng::new(self.seed, 0x2000_0000 + i as u64);
        let len = match r.below(20) {
            0 => r.range(2000, 12000),
            1..=4 => r.range(100, 600),
            _ => r.range(1, 60),
        };
        let mut s = String::new();
        let in_body = r.chance(50);
        if in_body {
            s.push_str("fn main()\n{\n");
        }
        for _ in 0..len {
            if s.len() > MAX_BYTES - 64 {
                break;
            }
            if r.chance(3) {
                s.push_str(r.pick(BAD_LEXEMES).0);
            } else {
                s.push_str(*r.pick(ALPHABET));
            }
            match r.below(12) {
                0 => s.push('\n'),
                1 => s.push_str("\r\n"),
                2 => s.push('\t'),
                3 => {}
                _ => s.push(' '),
            }
        }
        if in_body && r.chance(70) {
            s.push_str("\n}\n");
        }
        single(format!("soup{i}"), "soup", "soup.pn", clip(s))
    }

    pub fn nest(&self, i: usize) -> Value {
        let mut r = Rng::new(self.seed, 0x3000_0000 + i as u64);
        let depths = [1usize, 2, 3, 8, 16, 31, 32, 64, 126, 127, 128, 129, 200, 255, 256];
        let d = depths[i % depths.len()];
        let shape = (i / depths.len()) % 16;
        let balanced = r.chance(75);
        let close = |n: usize, s: &str| if balanced { s.repeat(n) } else { s.repeat(n / 2) };
        let body = match shape {
            0 => format!("fn main()\n{{\n{}{}\n}}\n", "{ ".repeat(d), close(d, "} ")),
            1 => format!("fn main() -> i32\n{{\n\tvar x: i32 = {}1{};\n\treturn: x\n}}\n", "(".repeat(d), close(d, ")")),
            2 => format!("fn main() -> i32\n{{\n\tvar x: i32 = {}1;\n\treturn: x\n}}\n", "- ".repeat(d)),
            3 => format!("fn main() -> bool\n{{\n\tvar x: bool = {}true;\n\treturn: x\n}}\n", "!".repeat(d)),
            4 => format!("fn main()\n{{\n\tvar x: i32 = 1;\n\tvar y = {}x;\n}}\n", "&".repeat(d)),
            5 => format!("fn f(x: {}i32)\n{{\n}}\n", "&".repeat(d)),
            6 => format!("fn f(x: {}i32)\n{{\n}}\n", "[]".repeat(d)),
            7 => format!("fn f(x: {}i32)\n{{\n}}\n", "[2]".repeat(d.min(40))),
            8 => format!("fn main()\n{{\n\tvar x = {}1{};\n}}\n", "[".repeat(d), close(d, "]")),
            9 => {
                let mut s = String::from("fn main() -> i32\n{\n\tvar x: i32 = 0;\n");
                for k in 0..d {
                    s.push_str(&format!("{}if x == {k}\n{}{{\n", "\t".repeat(1), "\t".repeat(1)));
                }
                s.push_str("\tx = 1;\n");
                s.push_str(&close(d, "\t}\n"));
                s.push_str("\treturn: x\n}\n");
                s
            }
            10 => {
                let mut s = String::from("fn main() -> i32\n{\n\tvar x: i32 = 0;\n\tif x == 0\n\t{\n\t\tx = 1;\n\t}\n");
                for k in 0..d {
                    s.push_str(&format!("\telse if x == {k}\n\t{{\n\t\tx = 2;\n\t}}\n"));
                }
                s.push_str("\treturn: x\n}\n");
                s
            }
            11 => format!("fn main()\n{{\n\tvar a: [4]i32 = [1,2,3,4];\n\tvar x = a{};\n}}\n", "[0]".repeat(d)),
            12 => format!("struct S {{ s: &S, v: i32 }}\nfn f(p: &S) -> i32\n{{\n\treturn: p{}.v\n}}\n", ".s".repeat(d)),
            13 => format!("fn main() -> i32\n{{\n\tvar x: i32 = 1{};\n\treturn: x\n}}\n", " + 1".repeat(d)),
            14 => format!("fn main() -> i32\n{{\n\tvar x: i32 = {}1{};\n\treturn: x\n}}\n", "(1 + ".repeat(d), close(d, ")")),
            _ => format!("fn main() -> i32\n{{\n\tvar x = {}1{};\n\treturn: 0\n}}\n", "cast (".repeat(d.min(64)), close(d.min(64), ") as i64")),
        };
        let mut c = single(format!("nest{i}"), "nest", "nest.pn", clip(body));
        c["origin"] = json!(format!("shape{shape}/depth{d}/{}", if balanced { "balanced" } else { "open" }));
        c
    }

    /// a valid corpus file with one injected fault whose code and place the documentation fixes
    pub fn fault(&self, i: usize) -> Value {
        let mut r = Rng::new(self.seed, 0x4000_0000 + i as u64);
        let valid: Vec<&(String, String)> = self
            .corpus
            .files
            .iter()
            .filter(|(rel, t)| (rel.starts_with("tests/samples/valid/") || rel.starts_with("examples/")) && imports_of(t).is_empty() && !rel.contains("/ffi/") && !rel.contains("/wasm4/") && !rel.contains("/libc/"))
            .collect();
        let mut pick = valid[r.below(valid.len())];
        for _ in 0..10 {
            if tokenize(&pick.1).iter().any(|t| !pick.1[t.start..].starts_with("//")) {
                break;
            }
            pick = valid[r.below(valid.len())];
        }
        let (rel, text) = pick;
        let toks = tokenize(text);
        let is_ident = |t: &Tok| {
            let s = &text[t.start..t.end];
            s.chars().next().map(|c| c.is_ascii_alphabetic()).unwrap_or(false) && !s.ends_with('!')
        };
        let code_toks: Vec<usize> = (0..toks.len()).filter(|&k| !text[toks[k].start..].starts_with("//")).collect();
        if code_toks.is_empty() {
            return single(format!("fault{i}"), "fault:none", rel, text.clone());
        }
        let t = code_toks[r.below(code_toks.len())];
        let tk = &toks[t];
        let multibyte_prefix = if r.chance(30) { "// caf\u{e9} \u{1f35d} \u{4e2d}\n" } else { "" };
        let (kind, code, repl): (&str, u16, String) = match r.below(6) {
            0 => ("fault:char", 110, (*r.pick(&["@", "#", "$", "\u{e9}", "\u{1f35d}", "`", "~", "?"])).to_string()),
            1 => ("fault:suffix", 141, "12q8".to_string()),
            2 => ("fault:intlen", 140, "99999999999999999999999999999999999999999".to_string()),
            3 => ("fault:quote", 160, "\"open".to_string()),
            4 => ("fault:escape", 162, "\"a\\qb\"".to_string()),
            _ => ("fault:charlit", 163, "'xy'".to_string()),
        };
        let _ = is_ident;
        // replace token t by the faulty lexeme, followed by a line break when the lexeme swallows the line
        let needs_newline = code == 160;
        let new_text = format!(
            "{multibyte_prefix}{} {}{}{}",
            &text[..tk.start],
            repl,
            if needs_newline { "\n" } else { " " },
            &text[tk.end..]
        );
        let mut new_text = clip(new_text);
        let byte_start = multibyte_prefix.len() + tk.start + 1;
        let crlf = r.chance(10);
        let (start, end, line);
        if crlf {
            let before = new_text[..byte_start].replace('\n', "\r\n");
            let cs = before.chars().count();
            line = 1 + before.matches('\n').count();
            new_text = new_text.replace('\n', "\r\n");
            start = cs;
            end = cs + repl.chars().count();
        } else {
            start = char_offset(&new_text, byte_start);
            end = start + repl.chars().count();
            line = line_of(&new_text, byte_start);
        }
        let mut c = single(format!("fault{i}"), kind, rel, new_text);
        c["origin"] = json!(rel);
        c["fault"] = json!({"m": 1, "code": code, "start": start, "end": end, "line": line, "crlf": crlf});
        c["expect"] = json!({"t": "lex", "code": code, "line": line});
        c
    }

    /// generated module sets: public functions / constants / structures, imports among the modules
    /// (also cyclic, self, three pairs), optionally one fault in an imported module
    pub fn multi(&self, i: usize) -> Value {
        let mut r = Rng::new(self.seed, 0x5000_0000 + i as u64);
        let n = r.range(2, 3);
        let names = ["a.pn", "b.pn", "c.pn"];
        let nested = r.chance(25);
        let modname = |k: usize| if nested && k > 0 { format!("lib/{}", names[k]) } else { names[k].to_string() };
        let mut mods: Vec<String> = vec![String::new(); n];
        let mut pairs: Vec<(usize, usize)> = Vec::new();
        for a in 0..n {
            for b in 0..n {
                let p = if a == b { 4 } else if a < b { 70 } else { 15 };
                if r.chance(p) {
                    pairs.push((a, b));
                }
            }
        }
        let fault_mod = if r.chance(35) { Some(r.below(n)) } else { None };
        let fault_kind = r.below(5);
        for k in 0..n {
            let m = ["a", "b", "c"][k];
            let mut s = String::new();
            for (a, b) in &pairs {
                if *a == k {
                    let target = if nested && *a > 0 { names[*b].to_string() } else { modname(*b) };
                    s.push_str(&format!("import \"{target}\";\n"));
                }
            }
            if r.chance(8) {
                s.push_str("import \"missing.pn\";\n");
            }
            s.push('\n');
            let public = |r: &mut Rng| if r.chance(75) { "pub " } else { "" };
            s.push_str(&format!("{}const {}_K: i32 = {};\n", public(&mut r), m.to_uppercase(), 10 + k));
            s.push_str(&format!("{}struct {}Pos\n{{\n\tx: i32,\n\ty: i32,\n}}\n", public(&mut r), m.to_uppercase()));
            s.push_str(&format!("{}fn {m}_add(x: i32, y: i32) -> i32\n{{\n\treturn: x + y + {}_K\n}}\n", public(&mut r), m.to_uppercase()));
            s.push_str(&format!("fn {m}_private(x: i32) -> i32\n{{\n\treturn: x * 2\n}}\n"));
            if r.chance(50) {
                // the same private name in every module
                s.push_str("fn helper(x: i32) -> i32\n{\n\treturn: x + 1\n}\n");
            }
            if r.chance(30) {
                s.push_str(&format!("{}fn {m}_show(x: i32)\n{{\n\tprint!(\"{m} \", x, \"\\n\");\n}}\n", public(&mut r)));
            }
            if r.chance(10) {
                s.push_str(&format!("{}fn {m}_guard(p: []i32) -> i32\n{{\n\tvar r = p[0];\n\treturn: r\n}}\n", public(&mut r)));
            }
            // uses of what was imported (may or may not be public there: that is C12's business)
            let mut uses = String::new();
            for (a, b) in &pairs {
                if *a == k && a != b {
                    let o = ["a", "b", "c"][*b];
                    match r.below(3) {
                        0 => uses.push_str(&format!("\tr = {o}_add(r, {}_K);\n", o.to_uppercase())),
                        1 => uses.push_str(&format!("\tvar p{o} = {}Pos {{ x: r, y: 2 }};\n\tr = p{o}.x;\n", o.to_uppercase())),
                        _ => uses.push_str(&format!("\tr = {o}_add(1, 2);\n")),
                    }
                }
            }
            let is_main = k == 0 && r.chance(80);
            let fname = if is_main { "main".to_string() } else { format!("{m}_entry") };
            s.push_str(&format!("{}fn {fname}() -> i32\n{{\n\tvar r: i32 = {m}_private(1);\n{uses}\treturn: r\n}}\n",
                if is_main { "" } else { "pub " }));
            if fault_mod == Some(k) {
                match fault_kind {
                    0 => s.push_str("fn broken(x: i32) -> i32\n{\n\treturn: x @ 1\n}\n"),
                    1 => s.push_str("fn broken(x: i32 -> i32\n{\n\treturn: x\n}\n"),
                    2 => s.push_str("pub fn broken(x: i32) -> i32\n{\n\treturn: y\n}\n"),
                    3 => s.push_str("pub fn broken(x: i32) -> bool\n{\n\treturn: x\n}\n"),
                    _ => s.push_str("pub const BROKEN: i32 = true;\n"),
                }
            }
            mods[k] = s;
        }
        let mut order: Vec<usize> = (0..n).collect();
        if r.chance(30) {
            order.reverse();
        }
        let wasm = r.chance(10);
        json!({"id": format!("multi{i}"), "kind": "multi", "wasm": wasm,
               "origin": format!("pairs={pairs:?} fault={fault_mod:?}/{fault_kind}"),
               "mods": order.iter().map(|&k| json!({"name": modname(k), "src": mods[k]})).collect::<Vec<_>>()})
    }


    /// LINE-level mutations of corpus files: swap two adjacent lines, delete / duplicate a line, move a
    /// line up or down by 1..3 (statements such as `loop;`, `}` and labels sit on lines of their own, so
    /// this moves whole statements into places token mutations do not reach)
    pub fn line_mutant(&self, i: usize) -> Value {
        let mut r = Rng::new(self.seed, 0x6000_0000 + i as u64);
        let (rel, text) = self.pick_file(&mut r);
        let mut lines: Vec<&str> = text.split_inclusive('\n').collect();
        if lines.len() < 3 {
            let mut c = single(format!("lmut{i}"), "lmut:none", rel, text.clone());
            c["origin"] = json!(rel);
            return c;
        }
        let k = r.below(lines.len());
        let kind = match r.below(5) {
            0 => {
                let j = if k + 1 < lines.len() { k + 1 } else { k - 1 };
                lines.swap(k, j);
                "lmut:swap"
            }
            1 => {
                lines.remove(k);
                "lmut:del"
            }
            2 => {
                let l = lines[k];
                lines.insert(k, l);
                "lmut:dup"
            }
            3 => {
                let d = r.range(1, 3);
                let l = lines.remove(k);
                let to = k.saturating_sub(d);
                lines.insert(to, l);
                "lmut:up"
            }
            _ => {
                let d = r.range(1, 3);
                let l = lines.remove(k);
                let to = (k + d).min(lines.len());
                lines.insert(to, l);
                "lmut:down"
            }
        };
        let src: String = lines.concat();
        let mut c = single(format!("lmut{i}"), kind, rel, clip(src));
        c["origin"] = json!(rel);
        c
    }

    /// Valid programs around structures and words: members of different widths, nested structures,
    /// arrays of structures; every literal lists its members in a RANDOM order, with constant and
    /// non-constant values; used as local variables, constants, arguments and return values; alone,
    /// imported from another module, and for the wasm target.
    pub fn structs(&self, i: usize) -> Value {
        let mut r = Rng::new(self.seed, 0x7000_0000 + i as u64);
        // (type, constant literal, name of a local variable of that type)
        let prims: [(&str, &str, &str); 9] = [
            ("i8", "-3", "v_i8"), ("u8", "200", "v_u8"), ("i16", "-300", "v_i16"), ("u16", "60000", "v_u16"),
            ("i32", "70000", "v_i32"), ("u32", "4000000000", "v_u32"), ("i64", "-5000000000", "v_i64"),
            ("u64", "9000000000", "v_u64"), ("bool", "true", "v_bool"),
        ];
        let public = |lib: bool| if lib { "pub " } else { "" };
        let two_modules = r.chance(35);
        let wasm = r.chance(15);
        // ---- declarations
        // a word: members must fill the declared size exactly
        let words: [(&str, &[usize]); 6] = [
            ("word16", &[1, 0]), ("word32", &[3, 1, 0]), ("word32", &[2, 3]), ("word64", &[4, 3, 1, 0]),
            ("word64", &[5, 4]), ("word128", &[6, 4, 2, 1, 0]),
        ];
        let (wkw, wmembers) = words[r.below(words.len())];
        // a struct with 2..5 members of different types
        let mut idx: Vec<usize> = (0..prims.len()).collect();
        for a in (1..idx.len()).rev() {
            let b = r.below(a + 1);
            idx.swap(a, b);
        }
        let n_members = r.range(2, 5);
        let smembers: Vec<usize> = idx[..n_members].to_vec();
        let mut decls = String::new();
        decls.push_str(&format!("{}{wkw} Wd\n{{\n", public(two_modules)));
        for (k, m) in wmembers.iter().enumerate() {
            decls.push_str(&format!("\tw{k}: {},\n", prims[*m].0));
        }
        decls.push_str("}\n\n");
        decls.push_str(&format!("{}struct Packet\n{{\n", public(two_modules)));
        for (k, m) in smembers.iter().enumerate() {
            decls.push_str(&format!("\tm{k}: {},\n", prims[*m].0));
        }
        decls.push_str("}\n\n");
        decls.push_str(&format!(
            "{}struct Outer\n{{\n\ttag: u8,\n\tinner: Packet,\n\tword: Wd,\n\tbig: i64,\n\tpair: [2]Packet,\n}}\n\n",
            public(two_modules)
        ));
        // ---- literals with members in random order
        fn shuffled(r: &mut Rng, n: usize) -> Vec<usize> {
            let mut v: Vec<usize> = (0..n).collect();
            for a in (1..n).rev() {
                let b = r.below(a + 1);
                v.swap(a, b);
            }
            v
        }
        let lit = |r: &mut Rng, name: &str, prefix: &str, members: &[usize], constant: bool| -> String {
            let order = shuffled(r, members.len());
            let fields: Vec<String> = order
                .iter()
                .map(|&k| {
                    let (_, c, v) = prims[members[k]];
                    let use_const = constant || r.chance(50);
                    format!("{prefix}{k}: {}", if use_const { c } else { v })
                })
                .collect();
            format!("{name} {{ {} }}", fields.join(", "))
        };
        let outer = |r: &mut Rng, constant: bool| -> String {
            let mut fields = vec![
                format!("tag: {}", if constant || r.chance(50) { "7" } else { "v_u8" }),
                format!("inner: {}", lit(r, "Packet", "m", &smembers, constant)),
                format!("word: {}", lit(r, "Wd", "w", wmembers, constant)),
                format!("big: {}", if constant || r.chance(50) { "-1" } else { "v_i64" }),
                format!("pair: [{}, {}]", lit(r, "Packet", "m", &smembers, constant), lit(r, "Packet", "m", &smembers, constant)),
            ];
            let order = shuffled(r, fields.len());
            let picked: Vec<String> = order.iter().map(|&k| std::mem::take(&mut fields[k])).collect();
            format!("Outer {{\n\t\t{},\n\t}}", picked.join(",\n\t\t"))
        };
        let locals: String = prims.iter().map(|(t, c, v)| format!("\tvar {v}: {t} = {c};\n")).collect();
        let mut lib = String::new();
        lib.push_str(&decls);
        lib.push_str(&format!("{}const DEFAULT_PACKET: Packet = {};\n", public(two_modules), lit(&mut r, "Packet", "m", &smembers, true)));
        lib.push_str(&format!("{}const DEFAULT_WORD: Wd = {};\n\n", public(two_modules), lit(&mut r, "Wd", "w", wmembers, true)));
        lib.push_str(&format!("{}fn first_of(p: Packet) -> {}\n{{\n\treturn: p.m0\n}}\n\n", public(two_modules), prims[smembers[0]].0));
        lib.push_str(&format!("{}fn word_of(w: Wd) -> {}\n{{\n\treturn: w.w0\n}}\n\n", public(two_modules), prims[wmembers[0]].0));
        lib.push_str(&format!(
            "{}fn make_word() -> Wd\n{{\n{locals}\tvar w = {};\n\treturn: w\n}}\n\n",
            public(two_modules),
            lit(&mut r, "Wd", "w", wmembers, false)
        ));
        lib.push_str(&format!(
            "{}fn tag_of(o: Outer) -> u8\n{{\n\treturn: o.tag\n}}\n\n",
            public(two_modules)
        ));
        let mut user = String::new();
        let entry = if r.chance(80) { "main" } else { "entry" };
        // linkage (C03: each defined function is defined in the IR, `main` and `pub` functions external): the entry
        // point and four leaf functions of the user module carry every combination of `pub` and `extern`
        let combos = ["", "pub ", "extern ", "pub extern "];
        let rot = r.below(4);
        // Names: in every second program one or two leaf functions carry the name of a C library function that the
        // code generator declares on its own for the builtins used below (`print!` -> write, `format!` -> snprintf,
        // `abort!`) or that a linked C library defines; a Penne function of that name is still the function the
        // source defines.  (A generator of its own, so that the other draws of a seed stay what they were.)
        let mut rn = Rng::new(self.seed, 0x7100_0000 + i as u64);
        let mut leaf: Vec<String> = (0..4).map(|k| format!("leaf{k}")).collect();
        if rn.chance(50) {
            let libc = ["write", "abort", "snprintf", "memcpy", "exit", "puts"];
            let first = rn.below(libc.len());
            leaf[rn.below(4)] = libc[first].to_string();
            if rn.chance(40) {
                let second = (first + 1 + rn.below(libc.len() - 1)) % libc.len();
                let slot = (0..4).find(|&k| leaf[k].starts_with("leaf")).unwrap();
                leaf[slot] = libc[second].to_string();
            }
        }
        for k in 0..4 {
            user.push_str(&format!("{}fn {}(x: i32) -> i32\n{{\n\treturn: x + {k}\n}}\n\n", combos[(k + rot) % 4], leaf[k]));
        }
        // constants live in a namespace of their own: two of them carry the names of two of the leaf functions
        // (the functions must still be defined under their own names)
        let shared = r.below(4);
        user.push_str(&format!("const {}: i32 = 10;\nconst {}: i32 = 20;\n\n", leaf[shared], leaf[(shared + 1) % 4]));
        let entry_flags = if entry == "main" { combos[r.below(4)] } else { combos[1 + 2 * r.below(2)] };
        user.push_str(&format!("{entry_flags}fn {entry}() -> i32\n{{\n{locals}"));
        user.push_str(&format!("\tvar p = {};\n", lit(&mut r, "Packet", "m", &smembers, false)));
        user.push_str(&format!("\tvar q = {};\n", lit(&mut r, "Packet", "m", &smembers, true)));
        let k1 = r.chance(50);
        user.push_str(&format!("\tvar w = {};\n", lit(&mut r, "Wd", "w", wmembers, k1)));
        user.push_str(&format!("\tvar o = {};\n", outer(&mut r, false)));
        user.push_str(&format!("\tvar c = {};\n", outer(&mut r, true)));
        let k2 = r.chance(50);
        user.push_str(&format!("\tvar a = first_of({});\n", lit(&mut r, "Packet", "m", &smembers, k2)));
        user.push_str("\tvar b = first_of(DEFAULT_PACKET);\n");
        user.push_str("\tvar b2 = first_of(q);\n");
        let k3 = r.chance(50);
        user.push_str(&format!("\tvar d = word_of({});\n", lit(&mut r, "Wd", "w", wmembers, k3)));
        user.push_str("\tvar e = word_of(DEFAULT_WORD);\n");
        user.push_str("\tvar f = make_word();\n");
        user.push_str(&format!(
            "\tvar arr: [3]Packet = [{}, {}, {}];\n",
            lit(&mut r, "Packet", "m", &smembers, true),
            lit(&mut r, "Packet", "m", &smembers, false),
            lit(&mut r, "Packet", "m", &smembers, false)
        ));
        user.push_str(&format!("\tp.m0 = arr[1].m0;\n\to.inner.m0 = p.m0;\n\to.pair[1].m0 = {};\n", prims[smembers[0]].1));
        user.push_str(&format!("\to.word = {};\n", lit(&mut r, "Wd", "w", wmembers, false)));
        user.push_str("\tw = f;\n\to.word = w;\n");
        user.push_str("\tvar t = tag_of(o) as i32 + tag_of(c) as i32;\n");
        user.push_str(&format!("\tt = {}(t) + {}(1) + {}(2) - {}(3) - 3 + {} - 10;\n", leaf[0], leaf[1], leaf[2], leaf[3], leaf[shared]));
        user.push_str("\tw = DEFAULT_WORD;\n");
        // a formatted text kept in a variable and printed later (an array view coerced into an array view)
        user.push_str("\tvar text = format!(\"t=\", t, \";\");\n\tprint!(text, \"\\n\");\n");
        user.push_str("\treturn: t\n}\n");
        let mods = if two_modules {
            vec![
                json!({"name": "user.pn", "src": format!("import \"lib.pn\";\n\n{user}")}),
                json!({"name": "lib.pn", "src": lib}),
            ]
        } else {
            vec![json!({"name": "structs.pn", "src": format!("{lib}{user}")})]
        };
        json!({"id": format!("struct{i}"), "kind": "struct", "wasm": wasm,
               "origin": format!("{wkw}/{n_members} members/{}{}", if two_modules { "imported" } else { "single" },
                                 // the word and the structure have the same member types in the same order (the input class of
                                 // the open finding C02-imported-struct-and-word-same-layout-abort)
                                 // (the layout as LLVM sees it: i8 and u8 are both i8 there; prims[0..8] are the signed / unsigned pairs of a width)
                                 if wmembers.len() == smembers.len()
                                     && wmembers.iter().zip(smembers.iter()).all(|(a, b)| a == b || (*a < 8 && *b < 8 && a / 2 == b / 2)) { "/same-layout" } else { "" }),
               "mods": mods})
    }

    /// Layout variants of every sample of tests/samples/invalid (one sample per diagnostic of the catalogue): the same
    /// text without its final line break (diagnostics at the very END of the input), behind a line of more than 300
    /// columns that holds multi-byte characters, as ONE line behind multi-byte text on the same line (every diagnostic
    /// on the first line ...), with every token on a line of its own (no line is expected, only the rules of Diagnostics.tla; every diagnostic
    /// on the first line, at a column beyond 300 for the longer samples), as the second and as the third module of a set,
    /// and twice in one file (the second copy with every name renamed: two instances of every diagnostic).
    /// `variant` names the base case and the transformation; the expected places are derived from the diagnostics of
    /// the base case by the check (checks/c13.py) and decided by TLC (Trace_Diagnostics!Covers).
    pub fn location_variants(&self) -> Vec<Value> {
        const KEYWORDS: &[&str] = &[
            "fn", "var", "const", "if", "goto", "loop", "else", "cast", "as", "import", "pub", "extern", "struct", "word8", "word16",
            "word32", "word64", "word128", "true", "false", "void", "i8", "i16", "i32", "i64", "i128", "u8", "u16", "u32", "u64",
            "u128", "usize", "char8", "bool", "return", "_",
        ];
        let filler = |k: usize| {
            format!("pub fn filler{k}(x: i32) -> i32\n{{\n\tprint!(\"filler \", x, \"\\n\");\n\treturn: x + {k}\n}}\nfn shared(x: i32) -> i32\n{{\n\treturn: x\n}}\n")
        };
        let mut out = Vec::new();
        for (i, (rel, text)) in self.corpus.files.iter().enumerate() {
            if !rel.starts_with("tests/samples/invalid/") || text.contains('\r') {
                continue;
            }
            let base = format!("corpus{i}");
            let name = Path::new(rel).file_name().map(|f| f.to_string_lossy().to_string()).unwrap_or_else(|| "s.pn".to_string());
            let has_imports = !imports_of(text).is_empty();
            let mut add = |tag: &str, mods: Vec<(String, String)>, variant: Value| {
                let mods: Vec<Value> = mods.into_iter().map(|(n, s)| json!({"name": n, "src": clip(s)})).collect();
                let mut v = variant;
                v["of"] = json!(base);
                v["t"] = json!(tag);
                out.push(json!({"id": format!("locv{i}-{tag}"), "kind": format!("locv:{tag}"), "wasm": false, "origin": rel,
                                "mods": mods, "variant": v}));
            };
            // 1. no line break at the end
            let trimmed = text.trim_end().to_string();
            if trimmed.len() < text.len() {
                add("nonl", vec![(rel.clone(), trimmed)], json!({"dline": 0, "dchar": 0, "mod": 1}));
            }
            // 2. behind a long line with multi-byte characters
            let pad = format!("// {} caf\u{e9} \u{1f35d} \u{4e2d}\n", "x".repeat(300));
            add("pad", vec![(rel.clone(), format!("{pad}{text}"))], json!({"dline": 1, "dchar": pad.chars().count(), "mod": 1}));
            let toks = tokenize(text);
            let code: Vec<&Tok> = toks.iter().filter(|t| !text[t.start..].starts_with("//")).collect();
            // 3. one line, behind multi-byte text on the same line
            if !code.is_empty() {
                let joined: Vec<&str> = code.iter().map(|t| &text[t.start..t.end]).collect();
                let one = format!("fn mb_() {{ var s = \"\u{e9}\u{1f35d}\u{4e2d}\"; }} {}\n", joined.join(" "));
                add("oneline", vec![(rel.clone(), one)], json!({"line": 1, "mod": 1}));
                // 3'. every token on a line of its own: whatever a diagnostic covers that is longer than one token now
                // starts and ends on different lines (twelfth round, C13k: a location built from its LAST token)
                add("toklines", vec![(rel.clone(), format!("{}\n", joined.join("\n")))], json!({"mod": 1}));
            }
            if !has_imports {
                // 4. as the second / third module of a set (the earlier modules use a builtin: per-module generator state)
                add("mod2", vec![("filler1.pn".to_string(), filler(1)), (name.clone(), text.clone())], json!({"dline": 0, "dchar": 0, "mod": 2}));
                add("mod3", vec![("filler1.pn".to_string(), filler(1)), ("sub/filler2.pn".to_string(), filler(2)), (name.clone(), text.clone())],
                    json!({"dline": 0, "dchar": 0, "mod": 3}));
                // 5. twice in one file, the second copy with every name renamed
                let mut first = text.clone();
                if !first.ends_with('\n') {
                    first.push('\n');
                }
                let mut second = String::new();
                let mut pos = 0;
                for t in &toks {
                    second.push_str(&text[pos..t.start]);
                    let w = &text[t.start..t.end];
                    second.push_str(w);
                    let ident = w.chars().next().map(|c| c.is_ascii_alphabetic() || c == '_').unwrap_or(false)
                        && w.chars().all(|c| c.is_ascii_alphanumeric() || c == '_')
                        && !KEYWORDS.contains(&w);
                    if ident {
                        second.push_str("_2");
                    }
                    pos = t.end;
                }
                second.push_str(&text[pos..]);
                let dline = first.matches('\n').count();
                let dchar = first.chars().count();
                add("twice", vec![(rel.clone(), format!("{first}{second}"))], json!({"dline": dline, "dchar": dchar, "mod": 1, "twice": true}));
            }
        }
        out
    }

    /// The same module named twice on the command line, and inputs whose diagnostics name one of SEVERAL candidates kept
    /// in hash tables (which variable / label / constant is named must not depend on the process).
    pub fn repeated_and_ambiguous(&self) -> Vec<Value> {
        let mut out = Vec::new();
        let lib = "pub fn lib_f(x: i32) -> i32\n{\n\treturn: x + 1\n}\nfn shared(x: i32) -> i32\n{\n\treturn: x\n}\n".to_string();
        let user = "import \"lib.pn\";\nfn main() -> i32\n{\n\tprint!(\"v \", lib_f(1), \"\\n\");\n\treturn: lib_f(2)\n}\n".to_string();
        let private = "fn only_private(x: i32) -> i32\n{\n\treturn: x\n}\n".to_string();
        let sets: Vec<(&str, Vec<(&str, &String)>)> = vec![
            ("lib-lib", vec![("lib.pn", &lib), ("lib.pn", &lib)]),
            ("user-lib-lib", vec![("user.pn", &user), ("lib.pn", &lib), ("lib.pn", &lib)]),
            ("user-lib-user", vec![("user.pn", &user), ("lib.pn", &lib), ("user.pn", &user)]),
            ("private-private", vec![("p.pn", &private), ("p.pn", &private)]),
            ("private-x3", vec![("p.pn", &private), ("p.pn", &private), ("p.pn", &private)]),
        ];
        for (tag, mods) in sets {
            let mods: Vec<Value> = mods.into_iter().map(|(n, s)| json!({"name": n, "src": s})).collect();
            out.push(json!({"id": format!("dup-{tag}"), "kind": "dup", "wasm": false, "origin": tag, "mods": mods}));
        }
        // several variables skipped by several gotos to several labels: E482 names a variable and a label
        let mut s = String::from("fn main() -> i32\n{\n\tvar r: i32 = 0;\n\tif r == 1\n\t\tgoto first;\n\tif r == 2\n\t\tgoto second;\n\tif r == 3\n\t\tgoto first;\n");
        for v in ["alpha", "beta", "gamma", "delta", "epsilon"] {
            s.push_str(&format!("\tvar {v}: i32 = 1;\n"));
        }
        s.push_str("\tfirst:\n\tr = alpha + beta;\n\tsecond:\n\tr = r + gamma + delta + epsilon + alpha;\n\treturn: r\n}\n");
        out.push(single("amb-skipped-variables".to_string(), "amb", "amb.pn", s));
        // a cycle of five structures: the diagnostic names structures of the cycle
        let names = ["Aa", "Bb", "Cc", "Dd", "Ee"];
        for rot in 0..3usize {
            let mut s = String::new();
            for k in 0..5usize {
                let me = names[(k + rot) % 5];
                let next = names[(k + rot + 1) % 5];
                s.push_str(&format!("struct {me}\n{{\n\tinner: {next},\n\tn: i32,\n}}\n"));
            }
            s.push_str("fn main() -> i32\n{\n\treturn: 0\n}\n");
            out.push(single(format!("amb-struct-cycle-{rot}"), "amb", "amb.pn", s));
        }
        // many undefined names, duplicate declarations of several kinds, many unused / unresolved labels
        let mut s = String::from("const K: i32 = 1;\nconst K: i32 = 2;\nstruct P\n{\n\tx: i32,\n}\nstruct P\n{\n\ty: i32,\n}\nfn f()\n{\n}\nfn f()\n{\n}\n");
        s.push_str("fn main() -> i32\n{\n\tvar a: i32 = u1 + u2 + u3 + u4;\n\tvar a: i32 = 2;\n\tgoto l1;\n\tgoto l2;\n\tgoto l3;\n\treturn: a\n}\n");
        out.push(single("amb-many-names".to_string(), "amb", "amb.pn", s));
        out
    }

    /// special inputs for locations: CRLF, multi-byte characters before the error, error at end of file
    pub fn location_specials(&self) -> Vec<Value> {
        let mut out = Vec::new();
        let base = "fn main() -> i32\n{\n\tvar x: i32 = 1;\n\tvar y: i32 = x + 2;\n\treturn: y\n}\n";
        let mut add = |name: &str, src: String, fault: Option<Value>| {
            let mut c = single(format!("loc-{name}"), "loc", "loc.pn", src);
            if let Some(f) = fault {
                c["fault"] = f;
            }
            out.push(c);
        };
        // undefined variable on line 4, after lines holding multi-byte characters
        let s = "// caf\u{e9} \u{1f35d}\nfn main() -> i32\n{\n\tvar y: i32 = q + 2; // \u{4e2d}\n\treturn: y\n}\n".to_string();
        let start = s.chars().position(|c| c == 'q').unwrap();
        add("mb-undefined", s, Some(json!({"m": 1, "code": 402, "start": start, "end": start + 1, "line": 4, "crlf": false})));
        let s = "fn main() -> i32\n{\n\tvar s = \"\u{e9}\u{e9}\u{e9}\"; var y: i32 = q;\n\treturn: y\n}\n".to_string();
        let start = s.chars().position(|c| c == 'q').unwrap();
        add("mb-sameline", s, Some(json!({"m": 1, "code": 402, "start": start, "end": start + 1, "line": 3, "crlf": false})));
        // CRLF: the same program with \r\n line ends, error on line 4
        let s = "fn main() -> i32\r\n{\r\n\tvar x: i32 = 1;\r\n\tvar y: i32 = q + 2;\r\n\treturn: y\r\n}\r\n".to_string();
        let start = s.chars().position(|c| c == 'q').unwrap();
        add("crlf-undefined", s, Some(json!({"m": 1, "code": 402, "start": start, "end": start + 1, "line": 4, "crlf": true})));
        let s = "fn main() -> i32\r\n{\r\n\tvar x: i32 = 1;\r\n\r\n\r\n\r\n@\r\n\treturn: x\r\n}\r\n".to_string();
        let start = s.chars().position(|c| c == '@').unwrap();
        add("crlf-char", s, Some(json!({"m": 1, "code": 110, "start": start, "end": start + 1, "line": 7, "crlf": true})));
        // structure cycles through a chain of n constants, the structure at every position of the file: the
        // diagnostic names one constant of the cycle and points at it -- always the same one
        for n in 2..=4usize {
            for pos in 0..=n {
                let mut decls: Vec<String> = Vec::new();
                for k in 1..=n {
                    decls.push(if k == 1 { "const K1: usize = |:Packet|;\n".to_string() } else { format!("const K{k}: usize = K{} + 8;\n", k - 1) });
                }
                decls.insert(pos, format!("struct Packet\n{{\n\tpayload: [K{n}]u8,\n\ttag: u8,\n}}\n"));
                let src = format!("{}\nfn main() -> i32\n{{\n\treturn: 0\n}}\n", decls.join("\n"));
                add(&format!("cycle-{n}-{pos}"), src, None);
            }
        }
        // bitcasts (`cast X`, docs/syntax.md) take their type from the context; without one the whole cast expression is
        // reported (E580): the location is the keyword merged with the operand
        let s = "fn main() -> i32\n{\n\tvar a: i32 = 17;\n\tvar b: u32 = 17;\n\tvar result: i32 = 0;\n\tif cast &a == cast &b\n\t{\n\t\tresult = 1;\n\t}\n\treturn: result\n}\n".to_string();
        let start = s.chars().collect::<Vec<_>>().windows(4).position(|w| w == ['c', 'a', 's', 't']).unwrap();
        add("cast-ambiguous", s, Some(json!({"m": 1, "code": 580, "start": start, "end": start + 7, "line": 6, "crlf": false})));
        let s = "fn main() -> i32\n{\n\tvar a: i32 = 17;\n\tvar n: u64 = (cast &a) as u64;\n\treturn: n as i32\n}\n".to_string();
        add("cast-ambiguous-parenthesized", s, None);
        let s = "fn main()\n{\n\tvar x: i32 = 17;\n\tvar p: &i32 = &x;\n\tvar r: &u32 = cast &p as &i32;\n}\n".to_string();
        let start = s.chars().collect::<Vec<_>>().windows(4).position(|w| w == ['c', 'a', 's', 't']).unwrap();
        add("cast-with-hint", s, Some(json!({"m": 1, "code": 504, "start": start, "end": start + 15, "line": 5, "crlf": false})));
        // end of file
        add("eof-open-brace", "fn main()\n{".to_string(), None);
        add("eof-no-newline", "fn main() -> i32\n{\n\treturn: 1 +".to_string(), None);
        add("eof-after-newlines", "fn main()\n{\n\n\n".to_string(), None);
        add("eof-open-string", "fn main()\n{\n\tvar x = \"abc".to_string(), None);
        add("eof-fn", "fn".to_string(), None);
        add("empty", String::new(), None);
        add("only-newline", "\n".to_string(), None);
        add("only-comment", "// nothing\n".to_string(), None);
        add("only-cr", "\r".to_string(), None);
        add("bom", "\u{feff}fn main()\n{\n}\n".to_string(), None);
        add("valid-crlf", base.replace('\n', "\r\n"), None);
        add("tabs-mb", "fn main() -> i32\n{\n\t\tvar \u{e9}: i32 = 1;\n\treturn: 1\n}\n".to_string(), None);
        out
    }
}

#[allow(clippy::too_many_arguments)]
pub fn generate(root: &Path, seed: u64, n_mut: usize, n_soup: usize, n_nest: usize, n_fault: usize, n_multi: usize, n_line: usize, n_struct: usize, extra: usize) -> Vec<Value> {
    let corpus = Corpus::load(root);
    let g = Gen { corpus: &corpus, seed };
    let mut out = g.corpus_cases();
    out.extend(g.location_specials());
    out.extend((0..n_mut).map(|i| g.mutant(i)));
    out.extend((0..n_soup).map(|i| g.soup(i)));
    out.extend((0..n_nest).map(|i| g.nest(i)));
    out.extend((0..n_fault).map(|i| g.fault(i)));
    out.extend((0..n_multi).map(|i| g.multi(i)));
    out.extend((0..n_line).map(|i| g.line_mutant(i)));
    out.extend((0..n_struct).map(|i| g.structs(i)));
    // families added by the dimension audit (after all older ones: ids and random streams of those stay what they were)
    if extra > 0 {
        out.extend(g.location_variants());
        out.extend(g.repeated_and_ambiguous());
    }
    out
}

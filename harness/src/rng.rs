//! Small deterministic PRNG (splitmix64) so that VERIF_SEED reproduces runs exactly.
#[derive(Clone)]
pub struct Rng(pub u64);

impl Rng {
    pub fn new(seed: u64, stream: u64) -> Rng {
        let mut r = Rng(seed ^ stream.wrapping_mul(0x9E3779B97F4A7C15) ^ 0xD1B54A32D192ED03);
        r.next();
        r.next();
        r
    }
    pub fn next(&mut self) -> u64 {
        self.0 = self.0.wrapping_add(0x9E3779B97F4A7C15);
        let mut z = self.0;
        z = (z ^ (z >> 30)).wrapping_mul(0xBF58476D1CE4E5B9);
        z = (z ^ (z >> 27)).wrapping_mul(0x94D049BB133111EB);
        z ^ (z >> 31)
    }
    pub fn below(&mut self, n: usize) -> usize {
        if n == 0 { 0 } else { (self.next() % n as u64) as usize }
    }
    pub fn range(&mut self, lo: usize, hi: usize) -> usize {
        lo + self.below(hi - lo + 1)
    }
    pub fn chance(&mut self, percent: usize) -> bool {
        self.below(100) < percent
    }
    pub fn pick<'a, T>(&mut self, xs: &'a [T]) -> &'a T {
        &xs[self.below(xs.len())]
    }
    pub fn weighted(&mut self, weights: &[usize]) -> usize {
        let total: usize = weights.iter().sum();
        let mut x = self.below(total.max(1));
        for (i, w) in weights.iter().enumerate() {
            if x < *w {
                return i;
            }
            x -= w;
        }
        weights.len() - 1
    }
}

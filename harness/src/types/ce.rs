//! C08 non-interference family (spec/CallEffects.tla): program -> source text.
use super::ty;
use serde_json::Value;

pub struct Param {
    pub kd: String,
    pub way: String,
    pub amp: usize,
    /// statement context of what the callee does with the parameter
    pub sc: String,
}

pub fn params(case: &Value) -> Vec<Param> {
    case["prog"]
        .as_array()
        .map(|a| {
            a.iter()
                .map(|p| Param {
                    kd: p["kd"].as_str().unwrap_or("").to_string(),
                    way: p["way"].as_str().unwrap_or("").to_string(),
                    amp: p["amp"].as_u64().unwrap_or(0) as usize,
                    sc: p["sc"].as_str().unwrap_or("top").to_string(),
                })
                .collect()
        })
        .unwrap_or_default()
}

fn param_type(kd: &str) -> &'static str {
    match kd {
        "value" => "i32",
        "word" => "W",
        "aview" => "[]i32",
        "sview" => "S",
        "sptr" => "&[]i32",
        "ptr" | "ptr_elem" | "ptr_mem" => "&i32",
        // in the signature of an extern function these are a view of / a pointer to an array without length
        "xaview" => "[]i32",
        "xsptr" => "&[]i32",
        _ => "&&i32",
    }
}

pub fn is_extern_kind(kd: &str) -> bool {
    kd == "xaview" || kd == "xsptr"
}

/// the type of g's parameter: a pointer to what q stands for
fn forward_type(kd: &str) -> &'static str {
    match kd {
        "value" | "ptr" | "ptr_elem" | "ptr_mem" => "&i32",
        "word" => "&W",
        "aview" | "sptr" => "&[]i32",
        "sview" => "&S",
        _ => "&&i32",
    }
}

fn access(name: &str, kd: &str) -> String {
    match kd {
        "word" | "sview" => format!("{name}.m"),
        "aview" | "sptr" | "xaview" | "xsptr" => format!("{name}[0usize]"),
        _ => name.to_string(),
    }
}

fn caller_var(kd: &str) -> &'static str {
    match kd {
        "value" | "ptr" => "x",
        // the address of an ELEMENT / of a MEMBER of a caller variable
        "ptr_elem" => "arr[1usize]",
        "ptr_mem" => "s.m",
        "word" => "w",
        "aview" | "sptr" | "xaview" | "xsptr" => "arr",
        "sview" => "s",
        _ => "p",
    }
}

pub const PRINT: &str = "\tprint!(\"x=\", x, \" a0=\", arr[0usize], \" a1=\", arr[1usize], \" sm=\", s.m, \" wm=\", w.m, \"\\n\");";

pub fn key(ps: &[Param]) -> String {
    ps.iter()
        .map(|p| if p.sc == "top" { format!("{}:{}:{}", p.kd, p.way, p.amp) } else { format!("{}:{}:{}@{}", p.kd, p.way, p.amp, p.sc) })
        .collect::<Vec<_>>()
        .join(" ")
}

/// Key of a program with its variant ("", "mainfirst", "twice", "mainfirst_twice").
pub fn key_pv(ps: &[Param], pv: &str) -> String {
    if pv.is_empty() { key(ps) } else { format!("{} #{}", key(ps), pv) }
}

pub fn variant(case: &Value) -> String {
    case["pv"].as_str().unwrap_or("").to_string()
}

/// The program in variant `pv`: "mainfirst" puts the caller before the callee and its helpers, "twice" makes the
/// call twice in a row.
pub fn render_pv(ps: &[Param], pv: &str) -> String {
    let plain = render(ps);
    let mut lines: Vec<String> = plain.lines().map(|s| s.to_string()).collect();
    if pv.contains("twice") {
        if let Some(i) = lines.iter().position(|l| l.starts_with("\tf(")) {
            let call = lines[i].clone();
            lines.insert(i + 1, call);
        }
    }
    if pv.contains("mainfirst") {
        if let Some(i) = lines.iter().position(|l| l == "fn main() -> i32") {
            let main: Vec<String> = lines.split_off(i);
            // the two structure declarations stay first
            let rest: Vec<String> = lines.split_off(2);
            lines.extend(main);
            lines.extend(rest);
        }
    }
    lines.join("\n") + "\n"
}

pub fn render(ps: &[Param]) -> String {
    let mut l: Vec<String> = Vec::new();
    l.push("struct S { m: i32, a: [2]i32 }".into());
    l.push("word64 W { m: i32, n: i32 }".into());
    for (i, p) in ps.iter().enumerate() {
        if p.way == "xfwd" || p.way == "xfwdamp" {
            l.push(format!("extern fn gx{}(r: &[]i32)", i + 1));
            l.push("{".into());
            l.push(format!("\tr[0usize] = {}i32;", 11 + i));
            l.push("}".into());
        }
        if p.way == "forward" || p.way == "forward2" {
            l.push(format!("fn g{}(r: {})", i + 1, forward_type(&p.kd)));
            l.push("{".into());
            l.push(format!("\t{} = {}i32;", access("r", &p.kd), 11 + i));
            l.push("}".into());
        }
    }
    let sig: Vec<String> = ps.iter().enumerate().map(|(i, p)| format!("q{}: {}", i + 1, param_type(&p.kd))).collect();
    let ext = if ps.iter().any(|p| is_extern_kind(&p.kd)) { "extern " } else { "" };
    l.push(format!("{}fn f({})", ext, sig.join(", ")));
    l.push("{".into());
    l.extend(ty::CTX_LOCALS.iter().map(|s| s.to_string()));
    for (i, p) in ps.iter().enumerate() {
        let q = format!("q{}", i + 1);
        let stmts = match p.way.as_str() {
            "read" => format!("var c{}: i32 = {};", i + 1, access(&q, &p.kd)),
            "copy" => format!("var c{}: i32 = {}; c{} = {}i32;", i + 1, access(&q, &p.kd), i + 1, 11 + i),
            "write" => format!("{} = {}i32;", access(&q, &p.kd), 11 + i),
            "forward" => format!("g{}({}{});", i + 1, if p.kd == "pptr" { "&&" } else { "&" }, q),
            "forward2" => format!("g{}(&&{});", i + 1, q),
            "xfwd" => format!("gx{}({});", i + 1, q),
            "xfwdamp" => format!("gx{}(&{});", i + 1, q),
            _ => String::new(),
        };
        if !stmts.is_empty() {
            l.push(format!("\t{}", ty::in_stmt_ctx(&p.sc, &stmts, &format!("{}", i + 1))));
        }
    }
    l.push("}".into());
    l.push("fn main() -> i32".into());
    l.push("{".into());
    l.push("\tvar x: i32 = 1i32;".into());
    l.push("\tvar arr: [2]i32 = [2i32, 3i32];".into());
    l.push("\tvar s: S = S { m: 4i32, a: [7i32, 8i32] };".into());
    l.push("\tvar w: W = W { m: 5i32, n: 6i32 };".into());
    l.push("\tvar p: &i32 = &x;".into());
    l.push(PRINT.into());
    let args: Vec<String> = ps.iter().map(|p| format!("{}{}", "&".repeat(p.amp), caller_var(&p.kd))).collect();
    l.push(format!("\tf({});", args.join(", ")));
    l.push(PRINT.into());
    l.push("\treturn: 0i32".into());
    l.push("}".into());
    l.join("\n") + "\n"
}

/// "x=1 a0=2 a1=3 sm=4 wm=5" -> [1,2,3,4,5]
pub fn parse_line(line: &str) -> Option<Vec<i64>> {
    let mut out = Vec::new();
    for (part, name) in line.split_whitespace().zip(["x", "a0", "a1", "sm", "wm"]) {
        let (n, v) = part.split_once('=')?;
        if n != name {
            return None;
        }
        out.push(v.parse().ok()?);
    }
    if out.len() == 5 { Some(out) } else { None }
}

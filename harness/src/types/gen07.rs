//! C07: seeded generator of larger WELL-TYPED programs over expressions / assignments / calls /
//! returns for all primitive types, and single-edit type-breaking mutants of them.  Every mutant
//! carries the description of the edited construct as a cell of spec/TypeRules.tla, so that TLC
//! (not this file) decides which code the rule demands.
use super::c07::Cell;
use super::ty::{self, Ty};
use pvh::rng::Rng;

pub const PRIMS: [&str; 13] = ["i8", "i16", "i32", "i64", "i128", "u8", "u16", "u32", "u64", "u128", "usize", "bool", "char8"];
const INTS: [&str; 11] = ["i8", "i16", "i32", "i64", "i128", "u8", "u16", "u32", "u64", "u128", "usize"];
const ARITH: [&str; 5] = ["+", "-", "*", "/", "%"];
const BITWISE: [&str; 5] = ["&", "|", "^", "<<", ">>"];
const CMP: [&str; 6] = ["==", "!=", "<", ">", "<=", ">="];

fn is_signed(p: &str) -> bool {
    matches!(p, "i8" | "i16" | "i32" | "i64" | "i128")
}
fn is_ufixed(p: &str) -> bool {
    matches!(p, "u8" | "u16" | "u32" | "u64" | "u128")
}
fn is_int(p: &str) -> bool {
    INTS.contains(&p)
}
fn prim(p: &str) -> Ty {
    vec![p.to_string()]
}

#[derive(Clone, Debug)]
pub struct Var {
    pub name: String,
    pub ty: Ty,
}

#[derive(Clone, Debug)]
pub enum Expr {
    Lit { ty: Ty, text: String },
    /// `&..& name` (k address markers) of a variable declared `decl`; `ty` is the type of the expression
    Ref { k: usize, name: String, decl: Ty, ty: Ty },
    Bin { op: String, l: Box<Expr>, r: Box<Expr>, ty: Ty },
    Un { op: String, e: Box<Expr>, ty: Ty },
    As { e: Box<Expr>, ty: Ty },
    Call { f: usize, args: Vec<Expr>, ty: Ty },
    Len { name: String },
    Index { name: String, idx: Box<Expr>, ty: Ty },
    Member { name: String, member: String, ty: Ty },
    /// `[e1, e2, e3]` of i32 expressions (an argument for a `[]i32` parameter)
    ArrayLit { es: Vec<Expr>, ty: Ty },
    /// `S { m: e }` / `W { m: e }` (both declare `m: i32`)
    Structural { name: String, e: Box<Expr>, ty: Ty },
}

impl Expr {
    pub fn ty(&self) -> Ty {
        match self {
            Expr::Lit { ty, .. } | Expr::Ref { ty, .. } | Expr::Bin { ty, .. } | Expr::Un { ty, .. } | Expr::As { ty, .. }
            | Expr::Call { ty, .. } | Expr::Index { ty, .. } | Expr::Member { ty, .. } | Expr::Structural { ty, .. } | Expr::ArrayLit { ty, .. } => ty.clone(),
            Expr::Len { .. } => prim("usize"),
        }
    }
    fn atomic(&self) -> bool {
        matches!(self, Expr::Lit { .. } | Expr::Ref { .. } | Expr::Call { .. } | Expr::Len { .. } | Expr::Index { .. } | Expr::Member { .. }
            | Expr::Structural { .. } | Expr::ArrayLit { .. })
    }
    fn operand_text(&self, p: &Program) -> String {
        if self.atomic() { self.text(p) } else { format!("({})", self.text(p)) }
    }
    pub fn text(&self, p: &Program) -> String {
        match self {
            Expr::Lit { text, .. } => text.clone(),
            Expr::Ref { k, name, .. } => format!("{}{}", "&".repeat(*k), name),
            Expr::Bin { op, l, r, .. } => format!("{} {} {}", l.operand_text(p), op, r.operand_text(p)),
            Expr::Un { op, e, .. } => format!("{}{}", if op == "neg" { "-" } else { "!" }, e.operand_text(p)),
            Expr::As { e, ty } => format!("{} as {}", e.operand_text(p), ty::syntax(ty)),
            Expr::Call { f, args, .. } => {
                let a: Vec<String> = args.iter().map(|x| x.text(p)).collect();
                format!("{}({})", p.funcs[*f].name, a.join(", "))
            }
            Expr::Len { name } => format!("|{name}|"),
            Expr::Index { name, idx, .. } => format!("{}[{}]", name, idx.text(p)),
            Expr::Member { name, member, .. } => format!("{name}.{member}"),
            Expr::Structural { name, e, .. } => format!("{} {{ m: {} }}", name, e.text(p)),
            Expr::ArrayLit { es, .. } => format!("[{}]", es.iter().map(|x| x.text(p)).collect::<Vec<_>>().join(", ")),
        }
    }
    /// the <<declared type, markers>> description of this expression as an operand of a cell
    fn operand(&self) -> (Ty, usize) {
        match self {
            Expr::Ref { k, decl, .. } => (decl.clone(), *k),
            other => (other.ty(), 0),
        }
    }
}

#[derive(Clone, Debug)]
pub enum Stmt {
    Var { name: String, ty: Ty, init: Expr },
    Assign { k: usize, name: String, decl: Ty, rhs: Expr },
    If { op: String, l: Expr, r: Expr, then: Box<Stmt>, els: Option<Box<Stmt>> },
    Call { f: usize, args: Vec<Expr> },
}

#[derive(Clone, Debug)]
pub struct Func {
    pub name: String,
    pub params: Vec<Ty>,
    pub ret: Option<Ty>,
}

#[derive(Clone, Debug)]
pub struct Program {
    pub funcs: Vec<Func>,
    pub prologue: Vec<String>,
    pub body: Vec<Stmt>,
    pub ret: Expr,
    pub ret_ty: Ty,
}

pub const FN_PARAMS: &str = "sl: []i32, sp: &[]i32, vs: S";

impl Program {
    fn stmt_text(&self, s: &Stmt) -> String {
        match s {
            Stmt::Var { name, ty, init } => format!("var {}: {} = {};", name, ty::syntax(ty), init.text(self)),
            Stmt::Assign { k, name, rhs, .. } => format!("{}{} = {};", "&".repeat(*k), name, rhs.text(self)),
            Stmt::If { op, l, r, then, els } => {
                let mut t = format!("if {} {} {} {{ {} }}", l.operand_text(self), op, r.operand_text(self), self.stmt_text(then));
                if let Some(e) = els {
                    t.push_str(&format!(" else {{ {} }}", self.stmt_text(e)));
                }
                t
            }
            Stmt::Call { f, args } => {
                let a: Vec<String> = args.iter().map(|x| x.text(self)).collect();
                format!("{}({});", self.funcs[*f].name, a.join(", "))
            }
        }
    }

    /// Source text, the line of body statement i (1-based), and the line of the return value.
    pub fn render(&self) -> (String, Vec<usize>, usize) {
        let (source, first, _) = self.render_module(None, false);
        (source, first.0, first.1)
    }

    fn render_function(&self, name: &str, lines: &mut Vec<String>) -> (Vec<usize>, usize) {
        lines.push(format!("fn {}({}) -> {}", name, FN_PARAMS, ty::syntax(&self.ret_ty)));
        lines.push("{".to_string());
        lines.extend(self.prologue.iter().cloned());
        let mut at = Vec::new();
        for s in &self.body {
            lines.push(format!("\t{}", self.stmt_text(s)));
            at.push(lines.len());
        }
        lines.push(format!("\treturn: {}", self.ret.text(self)));
        let ret_line = lines.len();
        lines.push("}".to_string());
        (at, ret_line)
    }

    /// A module with the function `t` of this program and, optionally, a SECOND function `u` with the body of
    /// `second` (same function heads), before or after `t`.  Returns the source and, per function, the lines of
    /// its body statements and of its return value.
    pub fn render_module(&self, second: Option<&Program>, second_first: bool) -> (String, (Vec<usize>, usize), (Vec<usize>, usize)) {
        let mut lines: Vec<String> = ty::PRELUDE.lines().map(|s| s.to_string()).collect();
        lines.push("struct GIn { x: i32, y: u8 }".to_string());
        lines.push("struct GOut { id: i32, inner: GIn, items: [2]GIn, link: &GIn }".to_string());
        for f in &self.funcs {
            let ps: Vec<String> = f.params.iter().enumerate().map(|(i, t)| format!("p{}: {}", i, ty::syntax(t))).collect();
            match &f.ret {
                Some(r) => lines.push(format!("fn {}({}) -> {};", f.name, ps.join(", "), ty::syntax(r))),
                None => lines.push(format!("fn {}({});", f.name, ps.join(", "))),
            }
        }
        // a source of every primitive type that is not a variable: a function result, a named constant
        for (i, p) in PRIMS.iter().enumerate() {
            lines.push(format!("fn mk_{p}() -> {p};"));
            lines.push(format!("const K_{p}: {p} = {};", ty::literal(p, i as u32 + 1)));
        }
        let mut first = (Vec::new(), 0);
        let mut other = (Vec::new(), 0);
        if let (Some(s), true) = (second, second_first) {
            other = s.render_function("u", &mut lines);
        }
        first = { let _ = first; self.render_function("t", &mut lines) };
        if let (Some(s), false) = (second, second_first) {
            other = s.render_function("u", &mut lines);
        }
        (lines.join("\n") + "\n", first, other)
    }
}

pub struct Gen {
    pub rng: Rng,
    pub vars: Vec<Var>,
    pub funcs: Vec<Func>,
    counter: usize,
    /// inside an `if` condition a structure literal would be taken for the branch block (E300)
    no_struct_literal: bool,
}

impl Gen {
    pub fn new(seed: u64, stream: u64) -> Gen {
        Gen { rng: Rng::new(seed, stream), vars: Vec::new(), funcs: Vec::new(), counter: 0, no_struct_literal: false }
    }

    fn vars_of(&self, t: &Ty) -> Vec<&Var> {
        self.vars.iter().filter(|v| &v.ty == t).collect()
    }

    fn reference(&mut self, t: &Ty) -> Option<Expr> {
        // a variable of type t, or a pointer variable that dereferences to t
        let direct: Vec<Var> = self.vars_of(t).into_iter().cloned().collect();
        let via: Vec<Var> = self.vars_of(&ty::ptr(t)).into_iter().cloned().collect();
        let use_ptr = !via.is_empty() && (direct.is_empty() || self.rng.chance(25));
        let pool = if use_ptr { via } else { direct };
        if pool.is_empty() {
            return None;
        }
        let v = self.rng.pick(&pool).clone();
        Some(Expr::Ref { k: 0, name: v.name, decl: v.ty, ty: t.clone() })
    }

    fn literal(&mut self, p: &str) -> Expr {
        let n = self.rng.below(90) as u32 + 1;
        Expr::Lit { ty: prim(p), text: ty::literal(p, n) }
    }

    /// A well-typed expression of primitive type `p`.
    pub fn expr(&mut self, p: &str, depth: usize) -> Expr {
        let t = prim(p);
        let choice = if depth == 0 { self.rng.below(3) } else { self.rng.below(12) };
        match choice {
            0 => self.literal(p),
            1 | 2 => self.reference(&t).unwrap_or_else(|| self.literal(p)),
            3 | 4 if is_int(p) => {
                let op = *self.rng.pick(&ARITH);
                let l = self.expr(p, depth - 1);
                let r = self.expr(p, depth - 1);
                Expr::Bin { op: op.to_string(), l: Box::new(l), r: Box::new(r), ty: t }
            }
            5 if is_ufixed(p) => {
                let op = *self.rng.pick(&BITWISE);
                let l = self.expr(p, depth - 1);
                let r = self.expr(p, depth - 1);
                Expr::Bin { op: op.to_string(), l: Box::new(l), r: Box::new(r), ty: t }
            }
            5 if is_signed(p) => match self.reference(&t) {
                Some(r) => Expr::Un { op: "neg".to_string(), e: Box::new(r), ty: t },
                None => self.literal(p),
            },
            6 if is_ufixed(p) || p == "bool" => match self.reference(&t) {
                Some(r) => Expr::Un { op: "not".to_string(), e: Box::new(r), ty: t },
                None => self.literal(p),
            },
            7 | 8 if is_int(p) => {
                // a primitive conversion from another integer type or from bool
                let from = if self.rng.chance(20) { "bool" } else { *self.rng.pick(&INTS) };
                if from == p {
                    return self.literal(p);
                }
                let e = self.expr(from, depth - 1);
                Expr::As { e: Box::new(e), ty: t }
            }
            9 => {
                // a call of a declared function returning p
                let cands: Vec<usize> = (0..self.funcs.len()).filter(|i| self.funcs[*i].ret.as_ref() == Some(&t)).collect();
                if cands.is_empty() {
                    return self.literal(p);
                }
                let f = *self.rng.pick(&cands);
                let args = self.args_for(f, depth - 1);
                Expr::Call { f, args, ty: t }
            }
            10 if p == "usize" => Expr::Len { name: if self.rng.chance(50) { "arr".into() } else { "sl".into() } },
            10 if p == "i32" => {
                let idx = Expr::Lit { ty: prim("usize"), text: format!("{}usize", self.rng.below(3)) };
                let name = *self.rng.pick(&["arr", "sl", "sp"]);
                Expr::Index { name: name.to_string(), idx: Box::new(idx), ty: t }
            }
            11 if p == "i32" => {
                let name = *self.rng.pick(&["s", "w", "vs"]);
                Expr::Member { name: name.to_string(), member: "m".to_string(), ty: t }
            }
            _ => self.reference(&t).unwrap_or_else(|| self.literal(p)),
        }
    }

    /// An argument expression that fits a parameter of type `pt`.
    fn arg_for(&mut self, pt: &Ty, depth: usize) -> Expr {
        match ty::head(pt) {
            "ptr" => {
                let inner: Ty = pt[1..].to_vec();
                let pool: Vec<Var> = self.vars_of(&inner).into_iter().cloned().collect();
                let ptrs: Vec<Var> = self.vars_of(pt).into_iter().cloned().collect();
                if !ptrs.is_empty() && (pool.is_empty() || self.rng.chance(30)) {
                    let v = self.rng.pick(&ptrs).clone();
                    Expr::Ref { k: 1, name: v.name, decl: v.ty, ty: pt.clone() }
                } else {
                    let v = self.rng.pick(&pool).clone();
                    Expr::Ref { k: 1, name: v.name, decl: v.ty, ty: pt.clone() }
                }
            }
            "slice" => {
                if depth > 0 && self.rng.chance(35) {
                    // an array literal with computed elements, coerced to the view
                    let es: Vec<Expr> = (0..3).map(|_| self.expr("i32", depth - 1)).collect();
                    Expr::ArrayLit { es, ty: ty::t(&["arr", "3", "i32"]) }
                } else if self.rng.chance(50) {
                    Expr::Ref { k: 0, name: "arr".into(), decl: ty::t(&["arr", "3", "i32"]), ty: ty::t(&["arr", "3", "i32"]) }
                } else {
                    Expr::Ref { k: 0, name: "sl".into(), decl: pt.clone(), ty: pt.clone() }
                }
            }
            "sptr" => {
                if self.rng.chance(50) {
                    Expr::Ref { k: 1, name: "arr".into(), decl: ty::t(&["arr", "3", "i32"]), ty: ty::t(&["ptr", "arr", "3", "i32"]) }
                } else {
                    Expr::Ref { k: 1, name: "sp".into(), decl: pt.clone(), ty: pt.clone() }
                }
            }
            "struct" => {
                if depth > 0 && !self.no_struct_literal && self.rng.chance(35) {
                    // a structure literal with a computed member, coerced to the view
                    let e = self.expr("i32", depth - 1);
                    Expr::Structural { name: "S".to_string(), e: Box::new(e), ty: pt.clone() }
                } else if self.rng.chance(50) {
                    Expr::Ref { k: 0, name: "s".into(), decl: pt.clone(), ty: pt.clone() }
                } else {
                    Expr::Ref { k: 0, name: "vs".into(), decl: ty::t(&["view", "struct", "S"]), ty: pt.clone() }
                }
            }
            "word" => Expr::Ref { k: 0, name: "w".into(), decl: pt.clone(), ty: pt.clone() },
            p => {
                let p = p.to_string();
                self.expr(&p, depth)
            }
        }
    }

    fn args_for(&mut self, f: usize, depth: usize) -> Vec<Expr> {
        let params = self.funcs[f].params.clone();
        params.iter().map(|pt| self.arg_for(pt, depth)).collect()
    }

    fn fresh(&mut self, prefix: &str) -> String {
        self.counter += 1;
        format!("{}{}", prefix, self.counter)
    }

    fn assignment(&mut self, depth: usize) -> Stmt {
        // assign to a primitive variable, possibly through a pointer variable
        let pool: Vec<Var> = self
            .vars
            .iter()
            .filter(|v| ty::is_prim(&v.ty) || (ty::head(&v.ty) == "ptr" && v.ty.len() == 2))
            .cloned()
            .collect();
        let v = self.rng.pick(&pool).clone();
        let p = v.ty.last().unwrap().clone();
        let rhs = self.expr(&p, depth);
        Stmt::Assign { k: 0, name: v.name, decl: v.ty, rhs }
    }

    fn statement(&mut self, depth: usize) -> Stmt {
        if self.rng.chance(8) {
            // a structure or word literal with a computed member
            let (name, t) = if self.rng.chance(50) { ("S", ty::t(&["struct", "S"])) } else { ("W", ty::t(&["word", "W"])) };
            let e = self.expr("i32", depth);
            let var = self.fresh("x");
            return Stmt::Var { name: var, ty: t.clone(), init: Expr::Structural { name: name.to_string(), e: Box::new(e), ty: t } };
        }
        match self.rng.below(10) {
            0..=3 => {
                let p = *self.rng.pick(&PRIMS);
                let init = self.expr(p, depth);
                let name = self.fresh("x");
                self.vars.push(Var { name: name.clone(), ty: prim(p) });
                Stmt::Var { name, ty: prim(p), init }
            }
            4 | 5 => self.assignment(depth),
            6 | 7 => {
                let p = *self.rng.pick(&PRIMS);
                let op = if is_int(p) { *self.rng.pick(&CMP) } else { *self.rng.pick(&CMP[..2]) };
                self.no_struct_literal = true;
                let l = self.expr(p, depth.saturating_sub(1));
                let r = self.expr(p, depth.saturating_sub(1));
                self.no_struct_literal = false;
                let then = self.assignment(1);
                let els = if self.rng.chance(30) { Some(Box::new(self.assignment(1))) } else { None };
                Stmt::If { op: op.to_string(), l, r, then: Box::new(then), els }
            }
            8 => {
                // re-seat a pointer variable: &p = &x
                let ptrs: Vec<Var> = self.vars.iter().filter(|v| ty::head(&v.ty) == "ptr" && v.ty.len() == 2).cloned().collect();
                let pv = self.rng.pick(&ptrs).clone();
                let inner: Ty = pv.ty[1..].to_vec();
                let pool: Vec<Var> = self.vars_of(&inner).into_iter().cloned().collect();
                let x = self.rng.pick(&pool).clone();
                Stmt::Assign { k: 1, name: pv.name, decl: pv.ty.clone(), rhs: Expr::Ref { k: 1, name: x.name, decl: x.ty, ty: pv.ty } }
            }
            _ => {
                let cands: Vec<usize> = (0..self.funcs.len()).filter(|i| self.funcs[*i].ret.is_none()).collect();
                if cands.is_empty() {
                    return self.assignment(depth);
                }
                let f = *self.rng.pick(&cands);
                let args = self.args_for(f, depth.saturating_sub(1));
                Stmt::Call { f, args }
            }
        }
    }

    pub fn program(&mut self, statements: usize, depth: usize) -> Program {
        // function heads (kept if they were preset: the second function of a module shares them with the first)
        let nf = if self.funcs.is_empty() { self.rng.range(3, 6) } else { 0 };
        for i in 0..nf {
            let np = self.rng.range(0, 3);
            let mut params = Vec::new();
            for _ in 0..np {
                let t = match self.rng.below(10) {
                    0 => ty::t(&["ptr", *self.rng.pick(&PRIMS)]),
                    1 => ty::t(&["slice", "i32"]),
                    2 => ty::t(&["sptr", "i32"]),
                    3 => ty::t(&["struct", "S"]),
                    4 => ty::t(&["word", "W"]),
                    _ => prim(*self.rng.pick(&PRIMS)),
                };
                params.push(t);
            }
            let ret = if i < 2 || self.rng.chance(50) { Some(prim(*self.rng.pick(&PRIMS))) } else { None };
            self.funcs.push(Func { name: format!("f{i}"), params, ret });
        }
        // one variable of every primitive type, a pointer to some of them, aggregates
        let mut prologue = Vec::new();
        for (i, p) in PRIMS.iter().enumerate() {
            let name = format!("v_{p}");
            prologue.push(format!("\tvar {}: {} = {};", name, p, ty::literal(p, i as u32 + 1)));
            self.vars.push(Var { name, ty: prim(p) });
        }
        for p in PRIMS.iter() {
            let name = format!("p_{p}");
            prologue.push(format!("\tvar {name}: &{p} = &v_{p};"));
            self.vars.push(Var { name, ty: ty::t(&["ptr", p]) });
        }
        prologue.push("\tvar arr: [3]i32 = [1i32, 2i32, 3i32];".to_string());
        prologue.push("\tvar s: S = S { m: 4i32 };".to_string());
        prologue.push("\tvar w: W = W { m: 5i32 };".to_string());
        // nested places: member of member, member of an element of a member array, member through a pointer member
        prologue.push("\tvar gin: GIn = GIn { x: 6i32, y: 7u8 };".to_string());
        prologue.push(
            "\tvar o: GOut = GOut { id: 1i32, inner: GIn { x: 2i32, y: 3u8 }, items: [GIn { x: 4i32, y: 5u8 }, GIn { x: 8i32, y: 9u8 }], link: &gin };"
                .to_string(),
        );
        for (place, p) in [("o.id", "i32"), ("o.inner.x", "i32"), ("o.inner.y", "u8"), ("o.items[1usize].x", "i32"), ("o.items[0usize].y", "u8"), ("o.link.x", "i32"), ("o.link.y", "u8")] {
            self.vars.push(Var { name: place.to_string(), ty: prim(p) });
        }
        let mut body = Vec::new();
        for _ in 0..statements {
            body.push(self.statement(depth));
        }
        let ret_p = *self.rng.pick(&PRIMS);
        let ret = self.expr(ret_p, depth);
        Program { funcs: self.funcs.clone(), prologue, body, ret, ret_ty: prim(ret_p) }
    }
}

// ---------------------------------------------------------------------------------------------
// mutation: one type-breaking edit of a known kind
// ---------------------------------------------------------------------------------------------
pub struct Mutant {
    pub program: Program,
    pub edit: &'static str,
    pub cell: Cell,
    /// index of the edited body statement; body.len() = the return value
    pub stmt: usize,
}

fn cell(ctx: &str, op: &str, a: (Ty, usize), b: (Ty, usize)) -> Cell {
    Cell { ctx: ctx.to_string(), op: op.to_string(), a: a.0, ka: a.1, b: b.0, kb: b.1, x: "direct".to_string(), y: "top".to_string(),
           fa: "var".to_string(), fb: "var".to_string(), pre: "none".to_string(), v: String::new() }
}

struct Mutator<'a> {
    rng: &'a mut Rng,
    vars: &'a [Var],
    funcs: &'a [Func],
    /// number of the candidate site to edit (sites are counted in visiting order)
    target: usize,
    seen: usize,
    /// > 0 while inside the argument of a call: an edit that changes the type of the edited expression
    /// would there be masked by the (dominating) E512 of the call, so only type-preserving edits are made
    in_arg: usize,
    /// may the wrong operand be something else than a variable?
    forms: bool,
    done: Option<(&'static str, Cell)>,
}

impl<'a> Mutator<'a> {
    fn other_prim_var(&mut self, not: &Ty) -> Expr {
        let pool: Vec<&Var> = self.vars.iter().filter(|v| ty::is_prim(&v.ty) && &v.ty != not && v.name.starts_with("v_")).collect();
        let v = *self.rng.pick(&pool);
        Expr::Ref { k: 0, name: v.name.clone(), decl: v.ty.clone(), ty: v.ty.clone() }
    }
    /// An expression of another primitive type in one of several FORMS: a variable, the result of a call, a named
    /// constant, a cast (integers).  Only where the type that is wanted is primitive: the rule names E513 for a
    /// VARIABLE whose address would fit, which a call result / constant cannot be.
    fn other_prim_expr(&mut self, not: &Ty) -> Expr {
        let e = self.other_prim_var(not);
        if !self.forms || !ty::is_prim(not) {
            return e;
        }
        let t = e.ty();
        let p = t[0].clone();
        match self.rng.below(6) {
            0 => Expr::Lit { ty: t, text: format!("mk_{p}()") },
            1 => Expr::Lit { ty: t, text: format!("K_{p}") },
            2 if is_int(&p) => {
                let src = if p == "i64" { "i32" } else { "i64" };
                Expr::Lit { ty: t, text: format!("(v_{src} as {p})") }
            }
            _ => e,
        }
    }
    fn var_of(&mut self, p: &str) -> Expr {
        Expr::Ref { k: 0, name: format!("v_{p}"), decl: prim(p), ty: prim(p) }
    }

    fn hit(&mut self) -> bool {
        if self.done.is_some() {
            return false;
        }
        self.seen += 1;
        self.seen - 1 == self.target
    }

    /// Visit an expression; edits it in place when its site number comes up.
    fn expr(&mut self, e: &mut Expr) {
        if self.done.is_some() {
            return;
        }
        let unsigned_ref = matches!(e, Expr::Ref { k: 0, ty, .. } if ty.len() == 1 && (is_ufixed(&ty[0]) || ty[0] == "usize"));
        if unsigned_ref {
            if self.hit() {
                let t = e.ty();
                let inner = e.clone();
                let c = cell("un", "neg", inner.operand(), (vec![], 0));
                *e = Expr::Un { op: "neg".to_string(), e: Box::new(inner), ty: t };
                self.done = Some(("unsigned-negation", c));
            }
            return;
        }
        match e {
            Expr::Bin { op, l, r, ty } => {
                let t = ty.clone();
                let p = t[0].clone();
                if self.hit() {
                    // operand type swap (bool/int confusion is the case where the other type is bool)
                    let other = if self.rng.chance(30) && p != "bool" { self.var_of("bool") } else { self.other_prim_expr(&t) };
                    let edit = if other.ty() == prim("bool") { "bool-int-confusion" } else { "operand-type-swap" };
                    if self.in_arg > 0 || self.rng.chance(50) {
                        **r = other;
                    } else {
                        **l = other;
                    }
                    self.done = Some((edit, cell("bin", op, l.operand(), r.operand())));
                    return;
                }
                if is_signed(&p) && ARITH.contains(&op.as_str()) && self.hit() {
                    *op = self.rng.pick(&BITWISE).to_string();
                    self.done = Some(("signed-bitwise", cell("bin", op, l.operand(), r.operand())));
                    return;
                }
                self.expr(l);
                self.expr(r);
            }
            Expr::Un { e: inner, .. } => self.expr(inner),
            Expr::As { e: inner, ty } => {
                if self.hit() {
                    let (edit, c) = if self.in_arg == 0 && self.rng.chance(50) && inner.ty() != prim("bool") {
                        *ty = prim("bool");
                        ("illegal-cast-to-bool", cell("as", "", inner.operand(), (ty.clone(), 0)))
                    } else {
                        // cast the address of a variable
                        let p = if ty[0] == "i32" { "u8" } else { "i32" };
                        **inner = Expr::Ref { k: 1, name: format!("v_{p}"), decl: prim(p), ty: ty::t(&["ptr", p]) };
                        ("illegal-cast-of-pointer", cell("as", "", inner.operand(), (ty.clone(), 0)))
                    };
                    self.done = Some((edit, c));
                    return;
                }
                self.expr(inner);
            }
            Expr::Call { f, args, .. } => {
                let f = *f;
                self.call(f, args);
            }
            Expr::Index { idx, .. } => self.expr(idx),
            Expr::ArrayLit { es, .. } => {
                self.in_arg += 1;
                for x in es.iter_mut() {
                    self.expr(x);
                }
                self.in_arg -= 1;
            }
            Expr::Structural { e: inner, .. } => {
                if self.hit() {
                    **inner = self.other_prim_expr(&prim("i32"));
                    self.done = Some(("wrong-member-type", cell("member", "", inner.operand(), (prim("i32"), 0))));
                    return;
                }
                // a member initialiser is unified with the member type like an argument with its parameter:
                // type changing edits inside it would be masked by that (dominating) diagnostic
                self.in_arg += 1;
                self.expr(inner);
                self.in_arg -= 1;
            }
            _ => {}
        }
    }

    fn call(&mut self, f: usize, args: &mut Vec<Expr>) {
        let params = self.funcs[f].params.clone();
        for i in 0..args.len() {
            if self.done.is_some() {
                return;
            }
            let pt = params[i].clone();
            if self.hit() {
                match &args[i] {
                    Expr::Ref { k: 1, name, decl, .. } if ty::head(&pt) == "ptr" || ty::head(&pt) == "sptr" => {
                        // missing address
                        args[i] = Expr::Ref { k: 0, name: name.clone(), decl: decl.clone(), ty: vec![] };
                        self.done = Some(("missing-address", cell("arg", "", args[i].operand(), (pt, 0))));
                    }
                    Expr::Ref { k: 0, name, decl, .. } if ty::is_prim(&pt) && self.rng.chance(50) => {
                        // excess address
                        args[i] = Expr::Ref { k: 1, name: name.clone(), decl: decl.clone(), ty: vec![] };
                        self.done = Some(("excess-address", cell("arg", "", args[i].operand(), (pt, 0))));
                    }
                    _ => {
                        // wrong argument type
                        let not = if ty::is_prim(&pt) { pt.clone() } else { vec![] };
                        args[i] = self.other_prim_expr(&not);
                        self.done = Some(("wrong-argument-type", cell("arg", "", args[i].operand(), (pt, 0))));
                    }
                }
                return;
            }
        }
        if self.hit() {
            // wrong argument count
            let n = params.len();
            if !args.is_empty() && self.rng.chance(50) {
                args.pop();
            } else {
                args.push(self.var_of("i32"));
            }
            self.done = Some(("wrong-argument-count", cell("argn", "", (vec![], args.len()), (vec![], n))));
            return;
        }
        self.in_arg += 1;
        for a in args.iter_mut() {
            self.expr(a);
        }
        self.in_arg -= 1;
    }

    fn stmt(&mut self, s: &mut Stmt) {
        if self.done.is_some() {
            return;
        }
        match s {
            Stmt::Var { ty, init, .. } => {
                if !matches!(init, Expr::Structural { .. }) && self.hit() {
                    *init = self.other_prim_expr(ty);
                    self.done = Some(("wrong-initialiser-type", cell("init", "", init.operand(), (ty.clone(), 0))));
                    return;
                }
                self.expr(init);
            }
            Stmt::Assign { k, decl, rhs, .. } => {
                if self.hit() {
                    let base: Ty = vec![decl.last().unwrap().clone()];
                    let which = self.rng.below(3);
                    if which == 0 || *k > 0 {
                        *rhs = if *k == 0 {
                            self.other_prim_expr(&base)
                        } else {
                            let o = self.other_prim_var(&base);
                            match o {
                                Expr::Ref { name, decl, .. } => Expr::Ref { k: 1, name, decl: decl.clone(), ty: ty::ptr(&decl) },
                                x => x,
                            }
                        };
                        self.done = Some(("wrong-assigned-type", cell("assign", "", rhs.operand(), (decl.clone(), *k))));
                    } else if which == 1 {
                        // address of a variable assigned to a value: different levels of indirection
                        let p = base[0].clone();
                        *rhs = Expr::Ref { k: 1, name: format!("v_{p}"), decl: base.clone(), ty: ty::ptr(&base) };
                        self.done = Some(("excess-address-in-assignment", cell("assign", "", rhs.operand(), (decl.clone(), *k))));
                    } else {
                        // one address marker too many on the assignee
                        *k = ty::ptr_depth(decl) + 1;
                        let p = base[0].clone();
                        *rhs = Expr::Ref { k: *k, name: format!("v_{p}"), decl: base.clone(), ty: vec![] };
                        if *k > 1 {
                            // keep the right side a legal expression: address depth 1 only
                            *rhs = Expr::Ref { k: 1, name: format!("v_{p}"), decl: base.clone(), ty: ty::ptr(&base) };
                        }
                        self.done = Some(("excess-address-on-assignee", cell("assign", "", rhs.operand(), (decl.clone(), *k))));
                    }
                    return;
                }
                self.expr(rhs);
            }
            Stmt::If { op, l, r, then, els } => {
                if self.hit() {
                    if self.rng.chance(70) {
                        let t = l.ty();
                        *r = self.other_prim_expr(&t);
                        self.done = Some(("compared-type-swap", cell("cmp", op, l.operand(), r.operand())));
                    } else {
                        // ordering of pointers
                        *op = self.rng.pick(&CMP[2..]).to_string();
                        *l = Expr::Ref { k: 1, name: "v_i32".into(), decl: prim("i32"), ty: ty::t(&["ptr", "i32"]) };
                        *r = Expr::Ref { k: 1, name: "p_i32".into(), decl: ty::t(&["ptr", "i32"]), ty: ty::t(&["ptr", "i32"]) };
                        self.done = Some(("pointer-ordering", cell("cmp", op, l.operand(), r.operand())));
                    }
                    return;
                }
                self.expr(l);
                self.expr(r);
                self.stmt(then);
                if let Some(e) = els {
                    self.stmt(e);
                }
            }
            Stmt::Call { f, args } => {
                let f = *f;
                self.call(f, args);
            }
        }
    }
}

/// Number of candidate sites of a program (by a dry run with an unreachable target).
pub fn count_sites(p: &Program, vars: &[Var]) -> usize {
    let mut rng = Rng::new(1, 1);
    let mut m = Mutator { rng: &mut rng, vars, funcs: &p.funcs, target: usize::MAX, seen: 0, in_arg: 0, forms: false, done: None };
    let mut q = p.clone();
    for s in q.body.iter_mut() {
        m.stmt(s);
    }
    m.seen += 1; // the return value
    m.expr(&mut q.ret);
    m.seen
}

pub fn mutate(p: &Program, vars: &[Var], target: usize, rng: &mut Rng) -> Option<Mutant> {
    let mut q = p.clone();
    let funcs = p.funcs.clone();
    let mut m = Mutator { rng, vars, funcs: &funcs, target, seen: 0, in_arg: 0, forms: true, done: None };
    let mut at = 0;
    for (i, s) in q.body.iter_mut().enumerate() {
        m.stmt(s);
        if m.done.is_some() {
            at = i;
            break;
        }
    }
    if m.done.is_none() {
        at = q.body.len();
        if m.hit() {
            let rt = q.ret_ty.clone();
            q.ret = m.other_prim_expr(&rt);
            m.done = Some(("wrong-return-type", cell("ret", "", q.ret.operand(), (rt, 0))));
        } else {
            m.expr(&mut q.ret);
        }
    }
    let (edit, cell) = m.done?;
    Some(Mutant { program: q, edit, cell, stmt: at })
}

//! Type terms shared by the C07 / C08 renderers and projections.  A type term is the sequence of
//! strings used by spec/TypeRules.tla: ["i32"], ["ptr", ..T], ["arr", "3", ..T], ["slice", ..T],
//! ["sptr", ..T], ["view", ..T], ["endless", ..T], ["struct", name], ["word", name], ["void"].
use serde_json::Value;

pub type Ty = Vec<String>;

pub fn ty_from_json(v: &Value) -> Ty {
    v.as_array().map(|a| a.iter().map(|x| x.as_str().unwrap_or("").to_string()).collect()).unwrap_or_default()
}

pub fn t(parts: &[&str]) -> Ty {
    parts.iter().map(|s| s.to_string()).collect()
}

pub fn ptr(inner: &Ty) -> Ty {
    let mut v = vec!["ptr".to_string()];
    v.extend(inner.iter().cloned());
    v
}

pub fn head(ty: &Ty) -> &str {
    ty.first().map(|s| s.as_str()).unwrap_or("")
}

pub fn is_prim(ty: &Ty) -> bool {
    ty.len() == 1 && head(ty) != "void"
}

/// Penne syntax of a type term.
pub fn syntax(ty: &[String]) -> String {
    match ty.first().map(|s| s.as_str()) {
        None => "?".to_string(),
        Some("ptr") => format!("&{}", syntax(&ty[1..])),
        Some("arr") => format!("[{}]{}", ty[1], syntax(&ty[2..])),
        Some("slice") => format!("[]{}", syntax(&ty[1..])),
        Some("sptr") => format!("&[]{}", syntax(&ty[1..])),
        Some("endless") => format!("[..]{}", syntax(&ty[1..])),
        Some("view") => syntax(&ty[1..]),
        Some("struct") | Some("word") => ty[1].clone(),
        Some(p) => p.to_string(),
    }
}

/// Penne syntax of a type term with the array lengths 3 and 4 SPELLED as named constants: `sp` = "N" ->
/// `N3` / `N4`, "M" -> `M3` / `M4` (all declared by LEN_CONSTS), anything else -> the number itself.
pub fn syntax_sp(ty: &[String], sp: &str) -> String {
    match ty.first().map(|s| s.as_str()) {
        Some("ptr") => format!("&{}", syntax_sp(&ty[1..], sp)),
        Some("arr") => {
            let n = if (sp == "N" || sp == "M") && (ty[1] == "3" || ty[1] == "4") { format!("{}{}", sp, ty[1]) } else { ty[1].clone() };
            format!("[{}]{}", n, syntax_sp(&ty[2..], sp))
        }
        Some("slice") => format!("[]{}", syntax_sp(&ty[1..], sp)),
        Some("sptr") => format!("&[]{}", syntax_sp(&ty[1..], sp)),
        Some("endless") => format!("[..]{}", syntax_sp(&ty[1..], sp)),
        Some("view") => syntax_sp(&ty[1..], sp),
        _ => syntax(ty),
    }
}
pub const LEN_CONSTS: [&str; 4] = ["const N3: usize = 3;", "const N4: usize = 4;", "const M3: usize = 3usize;", "const M4: usize = 4usize;"];

/// Can a `var` be declared with this type (value_type.rs can_be_variable, in the documented subset)?
pub fn declarable(ty: &[String]) -> bool {
    match ty.first().map(|s| s.as_str()) {
        None => false,
        Some("ptr") => match ty.get(1).map(|s| s.as_str()) {
            Some("slice") | Some("sptr") | Some("view") => false,
            _ => declarable(&ty[1..]),
        },
        Some("arr") => declarable(&ty[2..]),
        // `var v: []T = [..]` is an array of inferred length, not a view: views only exist as parameters
        Some("slice") | Some("sptr") | Some("view") | Some("endless") | Some("void") => false,
        Some(_) => true,
    }
}

/// A literal of a primitive type (suffixed, so that inference is not the subject).
pub fn literal(prim: &str, n: u32) -> String {
    match prim {
        "bool" => if n % 2 == 1 { "true".to_string() } else { "false".to_string() },
        "char8" => format!("'{}'", (b'a' + (n % 26) as u8) as char),
        p => format!("{}{}", n % 100, p),
    }
}

/// The members of the structures every generated program declares.
pub const PRELUDE: &str = "struct S { m: i32 }\nword32 W { m: i32 }\nword64 W2 { m: i32, n: i32 }\nword8 W8 { m: u8 }\nword16 W16 { m: u16 }\nword128 W128 { m: u64, n: u64 }\n";
pub const PRELUDE_LINES: usize = 6;

/// An initialiser expression for a variable of type `ty` (helpers must already be declared by `declare`).
fn init_expr(ty: &[String], name: &str, n: u32) -> String {
    match ty.first().map(|s| s.as_str()) {
        Some("ptr") => format!("&{}{}_0", "&".repeat(ptr_depth(&ty[1..])), name),
        Some("arr") => {
            let len: usize = ty[1].parse().unwrap_or(1);
            let e: Vec<String> = (0..len).map(|i| init_expr(&ty[2..], name, n + i as u32)).collect();
            format!("[{}]", e.join(", "))
        }
        Some("slice") => {
            let e: Vec<String> = (0..3).map(|i| init_expr(&ty[1..], name, n + i as u32)).collect();
            format!("[{}]", e.join(", "))
        }
        Some("struct") => match ty[1].as_str() {
            "S" => format!("S {{ m: {} }}", literal("i32", n)),
            other => format!("{other} {{ }}"),
        },
        Some("word") => match ty[1].as_str() {
            "W" => format!("W {{ m: {} }}", literal("i32", n)),
            "W2" => format!("W2 {{ m: {}, n: {} }}", literal("i32", n), literal("i32", n + 1)),
            "W8" => format!("W8 {{ m: {} }}", literal("u8", n)),
            "W16" => format!("W16 {{ m: {} }}", literal("u16", n)),
            "W128" => format!("W128 {{ m: {}, n: {} }}", literal("u64", n), literal("u64", n + 1)),
            other => format!("{other} {{ }}"),
        },
        Some(p) => literal(p, n),
        None => "0".to_string(),
    }
}

pub fn ptr_depth(ty: &[String]) -> usize {
    match ty.first().map(|s| s.as_str()) {
        Some("ptr") => 1 + ptr_depth(&ty[1..]),
        Some("sptr") => 1,
        _ => 0,
    }
}

/// Lines declaring `var name: ty = ...;` (pointer variables need a pointee `name_0` first).
pub fn declare(ty: &[String], name: &str, n: u32) -> Vec<String> {
    declare_sp(ty, name, n, "lit")
}

/// The pointer type inside an array type (`[2]&i32` -> `&i32`), if any.
fn pointer_inside(ty: &[String]) -> Option<&[String]> {
    match ty.first().map(|s| s.as_str()) {
        Some("arr") => match ty.get(2).map(|s| s.as_str()) {
            Some("ptr") => Some(&ty[2..]),
            Some("arr") => pointer_inside(&ty[2..]),
            _ => None,
        },
        _ => None,
    }
}

/// The same with the array lengths spelled after `sp` (see syntax_sp).
pub fn declare_sp(ty: &[String], name: &str, n: u32, sp: &str) -> Vec<String> {
    let mut lines = Vec::new();
    if head(&ty.to_vec()) == "ptr" {
        lines.extend(declare_sp(&ty[1..], &format!("{name}_0"), n, sp));
    } else if let Some(p) = pointer_inside(ty) {
        // the elements of an array of pointers all point to `name_0`
        lines.extend(declare_sp(&p[1..], &format!("{name}_0"), n, sp));
    }
    // a long array is declared without initialiser (errors.md E513: `var databuffer: [1024]u8;`)
    let long = head(&ty.to_vec()) == "arr" && ty[1].parse::<u64>().map(|n| n > 16).unwrap_or(false)
        || (head(&ty.to_vec()) == "arr" && ty.get(2).map(|s| s.as_str()) == Some("arr") && ty[3].parse::<u64>().map(|n| n > 16).unwrap_or(false));
    if long {
        lines.push(format!("\tvar {}: {};", name, syntax_sp(ty, sp)));
    } else {
        lines.push(format!("\tvar {}: {} = {};", name, syntax_sp(ty, sp), init_expr(ty, name, n)));
    }
    lines
}

pub fn key(ty: &[String]) -> String {
    if ty.is_empty() { "-".to_string() } else { ty.join(".") }
}

// ---------------------------------------------------------------------------------------------
// statement contexts (second dimension of the C07 / C08 matrices and of the CallEffects callees)
// ---------------------------------------------------------------------------------------------
pub const STMT_CONTEXTS: [&str; 9] = ["top", "block", "loop", "then", "else", "elif_then", "elif_else", "elif2", "label"];

/// The locals the contexts use: `one` steers the branches so that the statement is executed exactly
/// once, `fill` is what the other arms assign.
pub const CTX_LOCALS: [&str; 2] = ["\tvar one: i32 = 1i32;", "\tvar fill: i32 = 0i32;"];

/// Statement(s) `s` placed in statement context `y`, on ONE source line (so that the line of the
/// construct stays known).  `uniq` makes the labels unique within a function.
pub fn in_stmt_ctx(y: &str, s: &str, uniq: &str) -> String {
    let s = s.trim();
    match y {
        "block" => format!("{{ {s} }}"),
        "loop" => format!("{{ {s} if one == 1i32 goto out_{uniq}; loop; }} out_{uniq}:"),
        "then" => format!("if one == 1i32 {{ {s} }}"),
        "else" => format!("if one == 0i32 {{ fill = 1i32; }} else {{ {s} }}"),
        "elif_then" => format!("if one == 0i32 {{ fill = 1i32; }} else if one == 1i32 {{ {s} }}"),
        "elif_else" => format!("if one == 0i32 {{ fill = 1i32; }} else if one == 2i32 {{ fill = 2i32; }} else {{ {s} }}"),
        "elif2" => format!("if one == 0i32 {{ fill = 1i32; }} else if one == 2i32 {{ fill = 2i32; }} else if one == 1i32 {{ {s} }}"),
        "label" => format!("goto here_{uniq}; here_{uniq}: {s}"),
        _ => s.to_string(),
    }
}

//! impl -> spec for C07: walk the RESOLVED tree of an accepted program and log one `fact` per typed
//! node (Binary / Unary / Comparison / PrimitiveCast / BitCast / Autocoerce / Assignment /
//! Declaration / Constant / call argument / return / array element / structure member / index /
//! Deref) with the recorded operand and result types, as type terms of spec/TypeRules.tla.
use super::ty::Ty;
use penne::alpha::resolved::*;
use penne::alpha::{Compiler, expander, resolver, scoper};
use pvh::alpha::{self, Diag};
use serde_json::{Value, json};
use std::collections::HashMap;

pub struct Resolved {
    pub ok: bool,
    pub diags: Vec<Diag>,
    pub panic: Option<String>,
    pub silent: bool,
    pub declarations: Vec<Declaration>,
}

fn panic_message(e: Box<dyn std::any::Any + Send>) -> String {
    if let Some(s) = e.downcast_ref::<&str>() {
        s.to_string()
    } else if let Some(s) = e.downcast_ref::<String>() {
        s.clone()
    } else {
        "panic".to_string()
    }
}

/// The same stages as pvh::alpha::run_single(.., Upto::Resolve, ..), keeping the resolved declarations.
pub fn resolve_source(source: &str, filename: &str) -> Resolved {
    let r = std::panic::catch_unwind(|| {
        let declarations = alpha::parse(source, filename);
        let declarations = expander::expand_one(filename, declarations);
        if let Err(errors) = resolver::check_surface_level_errors(&declarations) {
            let diags: Vec<Diag> = errors.errors.iter().map(Diag::from_error).collect();
            return Resolved { ok: false, silent: diags.is_empty(), diags, panic: None, declarations: Vec::new() };
        }
        let declarations = scoper::analyze(declarations);
        let mut compiler = Compiler::default();
        compiler.add_module(filename).expect("add_module");
        match compiler.analyze_and_resolve(declarations) {
            Ok(Ok(resolved)) => Resolved { ok: true, diags: Vec::new(), panic: None, silent: false, declarations: resolved },
            Ok(Err(errors)) => {
                let diags: Vec<Diag> = errors.errors.iter().map(Diag::from_error).collect();
                Resolved { ok: false, silent: diags.is_empty(), diags, panic: None, declarations: Vec::new() }
            }
            Err(e) => Resolved {
                ok: false,
                diags: Vec::new(),
                panic: Some(format!("generator error: {e:#}")),
                silent: false,
                declarations: Vec::new(),
            },
        }
    });
    match r {
        Ok(x) => x,
        Err(e) => Resolved { ok: false, diags: Vec::new(), panic: Some(panic_message(e)), silent: false, declarations: Vec::new() },
    }
}

pub fn term(vt: &ValueType) -> Ty {
    fn pre(tag: &str, inner: &ValueType) -> Ty {
        let mut v = vec![tag.to_string()];
        v.extend(term(inner));
        v
    }
    match vt {
        ValueType::Void => vec!["void".into()],
        ValueType::Int8 => vec!["i8".into()],
        ValueType::Int16 => vec!["i16".into()],
        ValueType::Int32 => vec!["i32".into()],
        ValueType::Int64 => vec!["i64".into()],
        ValueType::Int128 => vec!["i128".into()],
        ValueType::Uint8 => vec!["u8".into()],
        ValueType::Uint16 => vec!["u16".into()],
        ValueType::Uint32 => vec!["u32".into()],
        ValueType::Uint64 => vec!["u64".into()],
        ValueType::Uint128 => vec!["u128".into()],
        ValueType::Usize => vec!["usize".into()],
        ValueType::Char8 => vec!["char8".into()],
        ValueType::Bool => vec!["bool".into()],
        ValueType::Array { element_type, length } => {
            let mut v = vec!["arr".to_string(), length.to_string()];
            v.extend(term(element_type));
            v
        }
        ValueType::ArrayWithNamedLength { element_type, named_length } => {
            let mut v = vec!["arr".to_string(), format!("${}", named_length.name)];
            v.extend(term(element_type));
            v
        }
        ValueType::Slice { element_type } => pre("slice", element_type),
        ValueType::SlicePointer { element_type } => pre("sptr", element_type),
        ValueType::EndlessArray { element_type } => pre("endless", element_type),
        ValueType::Arraylike { element_type } => pre("arraylike", element_type),
        ValueType::Struct { identifier } => vec!["struct".into(), identifier.name.clone()],
        ValueType::Word { identifier, .. } => vec!["word".into(), identifier.name.clone()],
        ValueType::UnresolvedStructOrWord { .. } => vec!["unresolved".into()],
        ValueType::Pointer { deref_type } => pre("ptr", deref_type),
        ValueType::View { deref_type } => pre("view", deref_type),
    }
}

fn bin_op(op: &BinaryOp) -> &'static str {
    match op {
        BinaryOp::Add => "+",
        BinaryOp::Subtract => "-",
        BinaryOp::Multiply => "*",
        BinaryOp::Divide => "/",
        BinaryOp::Modulo => "%",
        BinaryOp::BitwiseAnd => "&",
        BinaryOp::BitwiseOr => "|",
        BinaryOp::BitwiseXor => "^",
        BinaryOp::ShiftLeft => "<<",
        BinaryOp::ShiftRight => ">>",
        BinaryOp::AdvancePointer => "adv",
    }
}

fn un_op(op: &UnaryOp) -> &'static str {
    match op {
        UnaryOp::Negative => "neg",
        UnaryOp::BitwiseComplement => "not",
    }
}

fn cmp_op(op: &ComparisonOp) -> &'static str {
    match op {
        ComparisonOp::Equals => "==",
        ComparisonOp::DoesNotEqual => "!=",
        ComparisonOp::IsGreater => ">",
        ComparisonOp::IsLess => "<",
        ComparisonOp::IsGE => ">=",
        ComparisonOp::IsLE => "<=",
    }
}

pub struct Walker {
    /// declared types of constants, parameters and local variables by resolution id
    vars: HashMap<u32, ValueType>,
    /// members of structures and words by the resolution id of the structure
    members: HashMap<u32, Vec<Member>>,
    /// parameter types and return type per function
    functions: HashMap<u32, (Vec<ValueType>, Option<ValueType>)>,
    pub facts: Vec<Value>,
    pub unprojected: usize,
}

impl Walker {
    pub fn new() -> Walker {
        Walker { vars: HashMap::new(), members: HashMap::new(), functions: HashMap::new(), facts: Vec::new(), unprojected: 0 }
    }

    fn fact(&mut self, ctx: &str, op: &str, a: Ty, b: Ty, r: Ty) {
        self.facts.push(json!({"ev": "fact", "ctx": ctx, "op": op, "a": a, "b": b, "r": r}));
    }

    pub fn walk(&mut self, declarations: &[Declaration]) {
        for d in declarations {
            match d {
                Declaration::Constant { name, value_type, .. } => {
                    self.vars.insert(name.resolution_id, value_type.clone());
                }
                Declaration::Function { name, parameters, return_type, .. }
                | Declaration::FunctionHead { name, parameters, return_type, .. } => {
                    self.functions.insert(
                        name.resolution_id,
                        (parameters.iter().map(|p| p.value_type.clone()).collect(), return_type.clone()),
                    );
                }
                Declaration::Structure { name, members, .. } => {
                    self.members.insert(name.resolution_id, members.clone());
                }
            }
        }
        for d in declarations {
            match d {
                Declaration::Constant { value, value_type, .. } => {
                    let vt = self.expr(value);
                    self.fact("const", "", vt, term(value_type), vec![]);
                }
                Declaration::Function { parameters, body, return_type, .. } => {
                    for p in parameters {
                        self.vars.insert(p.name.resolution_id, p.value_type.clone());
                    }
                    for s in &body.statements {
                        self.stmt(s);
                    }
                    match (&body.return_value, return_type) {
                        (Some(v), Some(rt)) => {
                            let vt = self.expr(v);
                            self.fact("ret", "", vt, term(rt), vec![]);
                        }
                        (Some(v), None) => {
                            let vt = self.expr(v);
                            self.fact("ret", "", vt, vec!["void".into()], vec![]);
                        }
                        _ => {}
                    }
                }
                _ => {}
            }
        }
    }

    fn stmt(&mut self, s: &Statement) {
        match s {
            Statement::Declaration { name, value, value_type } => {
                self.vars.insert(name.resolution_id, value_type.clone());
                if let Some(v) = value {
                    let vt = self.expr(v);
                    self.fact("init", "", vt, term(value_type), vec![]);
                }
            }
            Statement::Assignment { reference, value } => {
                let vt = self.expr(value);
                match self.reference_type(reference) {
                    Some(lt) => self.fact("assign", "", vt, term(&lt), vec![]),
                    None => self.unprojected += 1,
                }
            }
            Statement::EvaluateAndDiscard { value } => {
                self.expr(value);
            }
            Statement::If { condition, then_branch, else_branch } => {
                let a = self.expr(&condition.left);
                let b = self.expr(&condition.right);
                self.fact("cmp", cmp_op(&condition.op), a, b, term(&condition.compared_type));
                self.stmt(then_branch);
                if let Some(e) = else_branch {
                    self.stmt(e);
                }
            }
            Statement::Block(b) => {
                for s in &b.statements {
                    self.stmt(s);
                }
            }
            Statement::Loop | Statement::Goto { .. } | Statement::Label { .. } => {}
        }
    }

    /// The type of a reference computed from the DECLARED type of its base and its steps.
    fn reference_type(&mut self, r: &Reference) -> Option<ValueType> {
        let mut cur = self.vars.get(&r.base.resolution_id)?.clone();
        for step in &r.steps {
            cur = match (step, cur) {
                (ReferenceStep::Autoderef, ValueType::Pointer { deref_type }) => *deref_type,
                (ReferenceStep::Autoview, ValueType::View { deref_type }) => *deref_type,
                (ReferenceStep::Autodeslice { offset: 0 }, t @ ValueType::Slice { .. }) => t,
                (ReferenceStep::Autodeslice { offset: 0 }, t @ ValueType::SlicePointer { .. }) => t,
                (ReferenceStep::Autodeslice { offset: 1 }, ValueType::Slice { .. }) => ValueType::Usize,
                (ReferenceStep::Autodeslice { offset: 1 }, ValueType::SlicePointer { .. }) => ValueType::Usize,
                (ReferenceStep::Element { argument, .. }, t) => {
                    let it = self.expr(argument);
                    self.fact("index", "", it, vec!["usize".into()], vec![]);
                    match t {
                        ValueType::Array { element_type, .. }
                        | ValueType::Slice { element_type }
                        | ValueType::SlicePointer { element_type }
                        | ValueType::EndlessArray { element_type }
                        | ValueType::Arraylike { element_type } => *element_type,
                        _ => return None,
                    }
                }
                (ReferenceStep::Member { offset }, ValueType::Struct { identifier })
                | (ReferenceStep::Member { offset }, ValueType::Word { identifier, .. }) => {
                    self.members.get(&identifier.resolution_id)?.get(*offset)?.value_type.clone()
                }
                _ => return None,
            };
        }
        if r.take_address {
            cur = ValueType::Pointer { deref_type: Box::new(cur) };
        }
        Some(cur)
    }

    /// Logs the facts of an expression and returns its recorded type.
    fn expr(&mut self, e: &Expression) -> Ty {
        match e {
            Expression::Binary { op, left, right, value_type } => {
                let a = self.expr(left);
                let b = self.expr(right);
                self.fact("bin", bin_op(op), a, b, term(value_type));
            }
            Expression::Unary { op, expression, value_type } => {
                let a = self.expr(expression);
                self.fact("un", un_op(op), a, vec![], term(value_type));
            }
            Expression::ArrayLiteral { elements, element_type } => {
                for el in elements {
                    let a = self.expr(el);
                    self.fact("elem", "", a, term(element_type), vec![]);
                }
            }
            Expression::Structural { members, structural_type } => {
                let id = match structural_type {
                    ValueType::Struct { identifier } | ValueType::Word { identifier, .. } => Some(identifier.resolution_id),
                    _ => None,
                };
                for m in members {
                    let a = self.expr(&m.expression);
                    let declared = id.and_then(|i| self.members.get(&i)).and_then(|ms| ms.get(m.offset)).map(|x| x.value_type.clone());
                    match declared {
                        Some(dt) => self.fact("member", "", a, term(&dt), vec![]),
                        None => self.unprojected += 1,
                    }
                }
            }
            Expression::Parenthesized { inner } => {
                self.expr(inner);
            }
            Expression::Deref { reference, deref_type } => match self.reference_type(reference) {
                Some(computed) => self.fact("deref", "", term(&computed), term(deref_type), vec![]),
                None => self.unprojected += 1,
            },
            Expression::Autocoerce { expression, coerced_type } => {
                let a = self.expr(expression);
                self.fact("coerce", "", a, term(coerced_type), vec![]);
            }
            Expression::BitCast { expression, coerced_type } => {
                let a = self.expr(expression);
                self.fact("cast", "", a, term(coerced_type), vec![]);
            }
            Expression::PrimitiveCast { expression, expression_type, coerced_type } => {
                let a = self.expr(expression);
                // the recorded operand type must be the type of the operand
                self.fact("castoperand", "", a, term(expression_type), vec![]);
                self.fact("as", "", term(expression_type), term(coerced_type), vec![]);
            }
            Expression::LengthOfArray { reference } => {
                let _ = self.reference_type(reference);
            }
            Expression::FunctionCall { name, arguments, return_type } => {
                let sig = self.functions.get(&name.resolution_id).cloned();
                let args: Vec<Ty> = arguments.iter().map(|a| self.expr(a)).collect();
                match sig {
                    Some((params, ret)) => {
                        self.fact("argn", "", vec![args.len().to_string()], vec![params.len().to_string()], vec![]);
                        for (a, p) in args.into_iter().zip(params.iter()) {
                            self.fact("arg", "", a, term(p), vec![]);
                        }
                        let declared = ret.map(|t| term(&t)).unwrap_or_else(|| vec!["void".into()]);
                        self.fact("callret", "", declared, term(return_type), vec![]);
                    }
                    None => self.unprojected += 1,
                }
            }
            Expression::InlineBlock { statements, value } => {
                for s in statements {
                    self.stmt(s);
                }
                self.expr(value);
            }
            Expression::Builtin(b) => match b {
                GeneratorBuiltin::Abort => {}
                GeneratorBuiltin::Format { arguments } => {
                    for a in arguments {
                        self.expr(a);
                    }
                }
                GeneratorBuiltin::Write { buffer, .. } => {
                    self.expr(buffer);
                }
            },
            Expression::SignedIntegerLiteral { .. }
            | Expression::BitIntegerLiteral { .. }
            | Expression::StringLiteral { .. }
            | Expression::SizeOf { .. } => {}
        }
        term(&e.value_type())
    }
}

//! C07: cells of spec/MC_TypeRules.tla -> minimal fully annotated programs (replay), and the
//! description of a rendered program for `show`.
use super::ty::{self, Ty};
use serde_json::{Value, json};

pub struct Rendered {
    pub source: String,
    /// 1-based line of the construct under test
    pub line: usize,
    /// 1-based line of the ill-typed neighbour (cell field `pre`), 0 if there is none
    pub pre_line: usize,
}

#[derive(Clone, Debug)]
pub struct Cell {
    pub ctx: String,
    pub op: String,
    pub a: Ty,
    pub ka: usize,
    pub b: Ty,
    pub kb: usize,
    /// expression context of the offending expression ("direct", "paren", "elem", "member", "arg", "index",
    /// "castop", "binop", "ret", "cond") and statement context of the statement (ty::STMT_CONTEXTS)
    pub x: String,
    pub y: String,
    /// syntactic form of the operands a / b ("var", "call", "callarg", "cast", "const", "elem", "elem2", "velem",
    /// "mem", "mem2", "pmem", "lit", "paren", "len", "sizeof")
    pub fa: String,
    pub fb: String,
    /// the second unit next to the construct ("none", "s_call", "s_bad", "s_bad_after", "f_ok", "f_badstmt",
    /// "f_badret", "f_bad_after")
    pub pre: String,
    /// variant: "n:i[:tl|:tr]" (argument position), "body_before" / "body_after" / "pub" / "extern" (callee),
    /// "len:X:Y" (spelling of the array lengths on the a side / the b side: lit, N, M), "name:<callee>", "t:pub" / "t:extern"
    pub v: String,
}

impl Cell {
    pub fn from_json(v: &Value) -> Cell {
        let s = |k: &str, d: &str| v[k].as_str().unwrap_or(d).to_string();
        Cell {
            ctx: s("ctx", ""),
            op: s("op", ""),
            a: ty::ty_from_json(&v["a"]),
            ka: v["ka"].as_u64().unwrap_or(0) as usize,
            b: ty::ty_from_json(&v["b"]),
            kb: v["kb"].as_u64().unwrap_or(0) as usize,
            x: s("x", "direct"),
            y: s("y", "top"),
            fa: s("fa", "var"),
            fb: s("fb", "var"),
            pre: s("pre", "none"),
            v: s("v", ""),
        }
    }
    pub fn to_json(&self) -> Value {
        json!({"ctx": self.ctx, "op": self.op, "a": self.a, "ka": self.ka, "b": self.b, "kb": self.kb, "x": self.x, "y": self.y,
               "fa": self.fa, "fb": self.fb, "pre": self.pre, "v": self.v})
    }
    pub fn key(&self) -> String {
        let mut key = format!("{} {} {}/{} {}/{}", self.ctx, if self.op.is_empty() { "-" } else { &self.op }, ty::key(&self.a), self.ka,
                ty::key(&self.b), self.kb);
        if !(self.x == "direct" && self.y == "top") {
            key.push_str(&format!(" @{}/{}", self.x, self.y));
        }
        if !(self.fa == "var" && self.fb == "var") {
            key.push_str(&format!(" ~{}/{}", self.fa, self.fb));
        }
        if self.pre != "none" {
            key.push_str(&format!(" ^{}", self.pre));
        }
        if !self.v.is_empty() {
            key.push_str(&format!(" #{}", self.v));
        }
        key
    }
    /// spelling of the array lengths on the a side and on the b side
    fn spell(&self) -> (&str, &str) {
        let parts: Vec<&str> = self.v.split(':').collect();
        if parts.len() == 3 && parts[0] == "len" { (parts[1], parts[2]) } else { ("lit", "lit") }
    }
    /// (n, i, twice) of an argument-position variant "n:i[:tl|:tr]"
    fn position(&self) -> Option<(usize, usize, &str)> {
        let parts: Vec<&str> = self.v.split(':').collect();
        if parts.len() < 2 {
            return None;
        }
        let n = parts[0].parse().ok()?;
        let i = parts[1].parse().ok()?;
        Some((n, i, if parts.len() > 2 { parts[2] } else { "" }))
    }
}

/// The type of `&..& v` for a variable declared `d` (mirror of ExprType in TypeRules.tla; used only to
/// choose the annotation of the result variable -- the verdict is never computed here).
pub fn expr_type(d: &Ty, k: usize) -> Ty {
    let mut core: &[String] = d;
    while core.first().map(|s| s.as_str()) == Some("ptr") {
        core = &core[1..];
    }
    let mut out: Ty;
    let mut k = k;
    match core.first().map(|s| s.as_str()) {
        Some("sptr") => {
            if k == 0 {
                out = vec!["slice".to_string()];
                out.extend(core[1..].iter().cloned());
                return out;
            }
            k -= 1;
            out = core.to_vec();
        }
        Some("view") if k == 0 => return core[1..].to_vec(),
        _ => out = core.to_vec(),
    }
    for _ in 0..k {
        out = ty::ptr(&out);
    }
    out
}

fn amp(k: usize, name: &str) -> String {
    format!("{}{}", "&".repeat(k), name)
}

fn op_text(op: &str) -> &str {
    match op {
        "adv" => "..",
        "neg" => "-",
        "not" => "!",
        o => o,
    }
}

/// The pieces of the program under construction.
#[derive(Default)]
struct Parts {
    /// declarations before the function
    top: Vec<String>,
    /// declarations after the function
    after: Vec<String>,
    params: Vec<String>,
    locals: Vec<String>,
}

/// Declares the variable `name` of type `d` either as a local (lines) or, for types that only
/// parameters can have, as a parameter of the enclosing function.
fn place(d: &Ty, name: &str, n: u32, sp: &str, parts: &mut Parts) {
    if d.is_empty() {
        return;
    }
    if ty::declarable(d) {
        parts.locals.extend(ty::declare_sp(d, name, n, sp));
    } else {
        parts.params.push(format!("{}: {}", name, ty::syntax_sp(d, sp)));
    }
}

/// The text of operand `name` (declared type `t`, `k` address markers) in the syntactic FORM `form`; whatever the
/// form needs is declared.  Every form yields an expression of the same type as the plain variable would.
fn operand(form: &str, t: &Ty, k: usize, name: &str, n: u32, sp: &str, parts: &mut Parts) -> String {
    let ts = ty::syntax(t);
    let lit = |i: u32| if ty::is_prim(t) { ty::literal(&t[0], n + i) } else { "0".to_string() };
    match form {
        "paren" => {
            place(t, name, n, sp, parts);
            format!("({})", amp(k, name))
        }
        "call" => {
            parts.top.push(format!("fn mk_{name}() -> {ts};"));
            format!("mk_{name}()")
        }
        "callarg" => {
            parts.top.push(format!("fn mk2_{name}(v: i64, w: bool) -> {ts};"));
            parts.locals.push("\tvar g64: i64 = 3i64;".to_string());
            format!("mk2_{name}(g64, true)")
        }
        "cast" => {
            let src = if ts == "i64" { "i32" } else { "i64" };
            parts.locals.push(format!("\tvar c_{name}: {src} = {};", ty::literal(src, n)));
            format!("(c_{name} as {ts})")
        }
        "const" => {
            parts.top.push(format!("const K_{name}: {ts} = {};", lit(0)));
            format!("K_{name}")
        }
        "elem" => {
            parts.locals.push(format!("\tvar e_{name}: [2]{ts} = [{}, {}];", lit(0), lit(1)));
            format!("e_{name}[1usize]")
        }
        "elem2" => {
            parts.locals.push(format!("\tvar n_{name}: [2][2]{ts} = [[{}, {}], [{}, {}]];", lit(0), lit(1), lit(2), lit(3)));
            format!("n_{name}[1usize][0usize]")
        }
        "velem" => {
            parts.params.push(format!("v_{name}: []{ts}"));
            format!("v_{name}[1usize]")
        }
        "mem" => {
            parts.top.push(format!("struct F_{name} {{ m: {ts}, z: i64 }}"));
            parts.locals.push(format!("\tvar f_{name}: F_{name} = F_{name} {{ m: {}, z: 0i64 }};", lit(0)));
            format!("f_{name}.m")
        }
        "mem2" => {
            parts.top.push(format!("struct F_{name} {{ m: {ts}, z: i64 }}"));
            parts.top.push(format!("struct G_{name} {{ id: i64, inner: F_{name} }}"));
            parts.locals.push(format!("\tvar g_{name}: G_{name} = G_{name} {{ id: 1i64, inner: F_{name} {{ m: {}, z: 0i64 }} }};", lit(0)));
            format!("g_{name}.inner.m")
        }
        "pmem" => {
            parts.top.push(format!("struct F_{name} {{ m: {ts}, z: i64 }}"));
            parts.params.push(format!("q_{name}: &F_{name}"));
            format!("q_{name}.m")
        }
        "lit" => lit(0),
        "hexlit" => "0x05".to_string(),
        "len" => {
            parts.locals.push(format!("\tvar l_{name}: [3]i32 = [1i32, 2i32, 3i32];"));
            format!("|l_{name}|")
        }
        "sizeof" => "|:i32|".to_string(),
        _ => {
            place(t, name, n, sp, parts);
            amp(k, name)
        }
    }
}

fn annotated(name: &str, t: &Ty) -> String {
    annotated_sp(name, t, "lit")
}

fn annotated_sp(name: &str, t: &Ty, sp: &str) -> String {
    if ty::declarable(t) { format!("var {}: {}", name, ty::syntax_sp(t, sp)) } else { format!("var {name}") }
}

fn i32t() -> Ty {
    vec!["i32".to_string()]
}

/// The offending expression of an expression-kind cell: (text, type as penne sees it, atomic?).
/// Calls are made to a `callee` that returns i32 (declared in `top`).
fn offending_expression(c: &Cell, parts: &mut Parts) -> Option<(String, Ty, bool)> {
    match c.ctx.as_str() {
        "bin" => Some((format!("{} {} {}", amp(c.ka, "a"), op_text(&c.op), amp(c.kb, "b")), expr_type(&c.a, c.ka), false)),
        "un" => Some((format!("{}{}", op_text(&c.op), amp(c.ka, "a")), expr_type(&c.a, c.ka), false)),
        "as" => Some((format!("{} as {}", amp(c.ka, "a"), ty::syntax(&c.b)), c.b.clone(), false)),
        "cast" => Some((format!("cast {} as {}", amp(c.ka, "a"), ty::syntax(&c.b)), c.b.clone(), false)),
        "arg" => {
            parts.top.push(format!("fn callee(p: {}) -> i32;", ty::syntax(&c.b)));
            Some((format!("callee({})", amp(c.ka, "a")), i32t(), true))
        }
        "arg2" => {
            parts.locals.push("\tvar x0: i32 = 1i32;".to_string());
            parts.top.push(format!("fn callee(p0: i32, p: {}) -> i32;", ty::syntax(&c.b)));
            Some((format!("callee(x0, {})", amp(c.ka, "a")), i32t(), true))
        }
        "argn" => {
            let ps: Vec<String> = (0..c.kb).map(|i| format!("p{i}: i32")).collect();
            parts.top.push(format!("fn callee({}) -> i32;", ps.join(", ")));
            parts.locals.push("\tvar x: i32 = 1i32;".to_string());
            let args: Vec<&str> = (0..c.ka).map(|_| "x").collect();
            Some((format!("callee({})", args.join(", ")), i32t(), true))
        }
        _ => None,
    }
}

/// The statement that puts expression `e` of type `te` into expression context `x`.
fn statement_for(x: &str, e: &str, te: &Ty, atomic: bool, parts: &mut Parts, ret: &mut Option<String>) -> (String, bool) {
    let pe = if atomic { e.to_string() } else { format!("({e})") };
    let lit = if ty::is_prim(te) { ty::literal(&te[0], 7) } else { "0".to_string() };
    match x {
        "paren" => (format!("{} = ({});", annotated("r", te), e), false),
        "elem" => {
            parts.top.push(format!("fn sink_v(v: []{});", ty::syntax(te)));
            (format!("sink_v([{e}]);"), false)
        }
        "member" => {
            parts.top.push(format!("struct MX {{ m: {} }}", ty::syntax(te)));
            parts.top.push("fn sink_m(v: MX);".to_string());
            (format!("sink_m(MX {{ m: {e} }});"), false)
        }
        "arg" => {
            parts.top.push(format!("fn sink_a(v: {});", ty::syntax(te)));
            (format!("sink_a({e});"), false)
        }
        "index" => {
            parts.locals.push("\tvar ix: [3]i32 = [1i32, 2i32, 3i32];".to_string());
            (format!("var r: i32 = ix[{e}];"), false)
        }
        "castop" => {
            let target = if te == &vec!["bool".to_string()] { "u8" } else if te == &vec!["i64".to_string()] { "i32" } else { "i64" };
            (format!("var r: {target} = {pe} as {target};"), false)
        }
        "castsame" => {
            let target = ty::syntax(te);
            (format!("var r: {target} = {pe} as {target};"), false)
        }
        "binop" => (format!("{} = {} + {};", annotated("r", te), pe, lit), false),
        "ret" => {
            *ret = Some(ty::syntax(te));
            (format!("return: {e}"), true)
        }
        "cond" => {
            parts.locals.push("\tvar z: i32 = 0i32;".to_string());
            (format!("if {pe} == {lit} {{ z = 1i32; }}"), false)
        }
        _ => (format!("{} = {};", annotated("r", te), e), false),
    }
}

/// Declarations for an assignment target of declared type `c.b` reached by the path shape `c.op`
/// ("v:mem.mem", "p:pmem.mem", ...); returns the text of the place.
fn path_target(c: &Cell, parts: &mut Parts) -> String {
    let (base, shape) = c.op.split_once(':').unwrap_or(("v", "mem"));
    let bt = ty::syntax(&c.b);
    // a value of the type of the place (for the initialisers of local targets)
    let bv = if ty::is_prim(&c.b) {
        ty::literal(&c.b[0], 3)
    } else {
        parts.locals.push("\tvar bv: i32 = 1i32;".to_string());
        "&bv".to_string()
    };
    let inn = format!("In {{ x: {bv}, y: 2i32 }}");
    // (type of the base, initialiser of a local base, path text)
    let (tt, init, path): (String, String, &str) = match shape {
        "elem" => (format!("[2]{bt}"), format!("[{bv}, {bv}]"), "[1usize]"),
        "mem" => {
            parts.top.push(format!("struct In {{ x: {bt}, y: i32 }}"));
            ("In".to_string(), inn.clone(), ".x")
        }
        "mem.mem" => {
            parts.top.push(format!("struct In {{ x: {bt}, y: i32 }}"));
            parts.top.push("struct Out { id: i32, inner: In }".to_string());
            ("Out".to_string(), format!("Out {{ id: 1i32, inner: {inn} }}"), ".inner.x")
        }
        "mem.elem.mem" => {
            parts.top.push(format!("struct In {{ x: {bt}, y: i32 }}"));
            parts.top.push("struct Out { id: i32, items: [2]In }".to_string());
            ("Out".to_string(), format!("Out {{ id: 1i32, items: [{inn}, {inn}] }}"), ".items[1usize].x")
        }
        "pmem.mem" => {
            parts.top.push(format!("struct In {{ x: {bt}, y: i32 }}"));
            parts.top.push("struct Out { id: i32, inner: &In }".to_string());
            parts.locals.push(format!("\tvar inn: In = {inn};"));
            ("Out".to_string(), "Out { id: 1i32, inner: &inn }".to_string(), ".inner.x")
        }
        "mem.mem.elem" => {
            parts.top.push(format!("struct In {{ arr: [2]{bt}, y: i32 }}"));
            parts.top.push("struct Out { id: i32, inner: In }".to_string());
            ("Out".to_string(), format!("Out {{ id: 1i32, inner: In {{ arr: [{bv}, {bv}], y: 2i32 }} }}"), ".inner.arr[1usize]")
        }
        "elem.mem" => {
            parts.top.push(format!("struct In {{ x: {bt}, y: i32 }}"));
            ("[2]In".to_string(), format!("[{inn}, {inn}]"), "[1usize].x")
        }
        "pmem.elem" => {
            parts.top.push(format!("struct Out {{ id: i32, inner: &[2]{bt} }}"));
            parts.locals.push(format!("\tvar row: [2]{bt} = [{bv}, {bv}];"));
            ("Out".to_string(), "Out { id: 1i32, inner: &row }".to_string(), ".inner[1usize]")
        }
        "pelem.elem" => {
            parts.locals.push(format!("\tvar row: [2]{bt} = [{bv}, {bv}];"));
            (format!("[2]&[2]{bt}"), "[&row, &row]".to_string(), "[1usize][1usize]")
        }
        "pelem.mem" => {
            parts.top.push(format!("struct In {{ x: {bt}, y: i32 }}"));
            parts.locals.push(format!("\tvar inn: In = {inn};"));
            ("[2]&In".to_string(), "[&inn, &inn]".to_string(), "[1usize].x")
        }
        "mem.pelem.elem" => {
            parts.top.push(format!("struct Out {{ id: i32, rows: [2]&[2]{bt} }}"));
            parts.locals.push(format!("\tvar row: [2]{bt} = [{bv}, {bv}];"));
            ("Out".to_string(), "Out { id: 1i32, rows: [&row, &row] }".to_string(), ".rows[1usize][1usize]")
        }
        _ => {
            // "mem.elem"
            parts.top.push(format!("struct In {{ arr: [2]{bt}, y: i32 }}"));
            ("In".to_string(), format!("In {{ arr: [{bv}, {bv}], y: 2i32 }}"), ".arr[1usize]")
        }
    };
    if base == "p" {
        parts.params.push(format!("o: &{tt}"));
    } else {
        parts.locals.push(format!("\tvar o: {tt} = {init};"));
    }
    format!("o{path}")
}

/// An argument that FITS a parameter declared `b` (for the other call of a "twice" variant).
fn fitting_argument(b: &Ty, parts: &mut Parts) -> String {
    match ty::head(b) {
        "ptr" => {
            parts.locals.extend(ty::declare(&b[1..].to_vec(), "okv", 9));
            "&okv".to_string()
        }
        "slice" => {
            let mut t = vec!["arr".to_string(), "3".to_string()];
            t.extend(b[1..].iter().cloned());
            parts.locals.extend(ty::declare(&t, "okv", 9));
            "okv".to_string()
        }
        _ => {
            parts.locals.extend(ty::declare(b, "okv", 9));
            "okv".to_string()
        }
    }
}

/// The call(s) of an argument-position cell "n:i[:tl|:tr]": the argument at position i is `&^ka a` for a parameter
/// declared `b`; the other parameters have the types u8, bool, i64, usize (in this order) and get fitting arguments.
fn position_call(c: &Cell, parts: &mut Parts) -> String {
    const OTHERS: [&str; 4] = ["u8", "bool", "i64", "usize"];
    let (n, i, twice) = c.position().unwrap_or((1, 1, ""));
    let mut ps = Vec::new();
    let mut args = Vec::new();
    let mut ok_args = Vec::new();
    for j in 0..n {
        if j + 1 == i {
            ps.push(format!("p: {}", ty::syntax(&c.b)));
            args.push(amp(c.ka, "a"));
            if !twice.is_empty() {
                ok_args.push(fitting_argument(&c.b, parts));
            }
        } else {
            let t = OTHERS[j % 4];
            ps.push(format!("p{j}: {t}"));
            parts.locals.push(format!("\tvar o{j}: {t} = {};", ty::literal(t, j as u32 + 1)));
            args.push(format!("o{j}"));
            ok_args.push(format!("o{j}"));
        }
    }
    if twice.is_empty() {
        parts.top.push(format!("fn callee({});", ps.join(", ")));
        format!("\tcallee({});", args.join(", "))
    } else {
        parts.top.push(format!("fn callee({}) -> i32;", ps.join(", ")));
        let (l, r) = if twice == "tl" { (args, ok_args) } else { (ok_args, args) };
        format!("\tvar r: i32 = callee({}) + callee({});", l.join(", "), r.join(", "))
    }
}

/// Gives the declaration of `callee` the kind the variant asks for.
fn apply_callee_kind(kind: &str, parts: &mut Parts) {
    let Some(pos) = parts.top.iter().position(|l| l.starts_with("fn callee(")) else { return };
    let head = parts.top[pos].trim_end_matches(';').to_string();
    let body = if head.contains("-> i32") { " { return: 0i32 }" } else { " { }" };
    match kind {
        "body_before" => parts.top[pos] = format!("{head}{body}"),
        "body_after" => {
            parts.top.remove(pos);
            parts.after.push(format!("{head}{body}"));
        }
        "pub" => parts.top[pos] = format!("pub {head};"),
        "extern" => parts.top[pos] = format!("extern {head};"),
        _ => {}
    }
}

const PRE_LOCALS: [&str; 2] = ["\tvar w1: i64 = 1i64;", "\tvar w2: u16 = 2u16;"];
const PRE_BAD: &str = "\tvar q0: i64 = w1 + w2;";

/// The function that stands before / after the function of the construct; (lines, index of the ill-typed line).
fn pre_function(pre: &str) -> (Vec<String>, Option<usize>) {
    match pre {
        "f_ok" => (
            vec!["fn t0(h: u16) -> u16".into(), "{".into(), "\tvar g: u16 = h + 1u16;".into(), "\treturn: g".into(), "}".into()],
            None,
        ),
        "f_badret" => (vec!["fn t0(h: i64) -> u16".into(), "{".into(), "\treturn: h".into(), "}".into()], Some(2)),
        "f_badstmt" | "f_bad_after" => (
            vec!["fn t0()".into(), "{".into(), PRE_LOCALS[0].into(), PRE_LOCALS[1].into(), PRE_BAD.into(), "}".into()],
            Some(4),
        ),
        _ => (Vec::new(), None),
    }
}

pub fn render(c: &Cell) -> Rendered {
    let mut parts = Parts::default();
    let mut ret: Option<String> = None; // declared return type
    let construct: String;
    #[allow(unused_assignments)]
    let mut construct_is_return = false;
    let mut construct_is_top = false;
    let (spa, spb) = c.spell();
    let (spa, spb) = (spa.to_string(), spb.to_string());
    // the offending expression with its operands in their syntactic forms (fa / fb), for the expression contexts
    let mut formed: Option<String> = None;
    if spa != "lit" || spb != "lit" {
        parts.top.extend(ty::LEN_CONSTS.iter().map(|s| s.to_string()));
    }
    match c.ctx.as_str() {
        "bin" => {
            let ea = operand(&c.fa, &c.a, c.ka, "a", 1, &spa, &mut parts);
            let eb = operand(&c.fb, &c.b, c.kb, "b", 4, &spb, &mut parts);
            let rt = expr_type(&c.a, c.ka);
            construct = format!("\t{} = {} {} {};", annotated("r", &rt), ea, op_text(&c.op), eb);
            formed = Some(format!("{} {} {}", ea, op_text(&c.op), eb));
        }
        "cmp" => {
            let ea = operand(&c.fa, &c.a, c.ka, "a", 1, &spa, &mut parts);
            let eb = operand(&c.fb, &c.b, c.kb, "b", 4, &spb, &mut parts);
            parts.locals.push("\tvar z: i32 = 0i32;".to_string());
            construct = format!("\tif {} {} {} {{ z = 1i32; }}", ea, op_text(&c.op), eb);
        }
        "un" => {
            let mut ea = operand(&c.fa, &c.a, c.ka, "a", 1, &spa, &mut parts);
            if ea.starts_with('|') {
                // `-|x|` is not in the grammar (E300): the length / size operand of a unary operator is parenthesised
                ea = format!("({ea})");
            }
            let rt = expr_type(&c.a, c.ka);
            construct = format!("\t{} = {}{};", annotated("r", &rt), op_text(&c.op), ea);
        }
        "as" => {
            let ea = operand(&c.fa, &c.a, c.ka, "a", 1, &spa, &mut parts);
            construct = format!("\t{} = {} as {};", annotated("r", &c.b), ea, ty::syntax(&c.b));
        }
        "cast" => {
            let ea = operand(&c.fa, &c.a, c.ka, "a", 1, &spa, &mut parts);
            construct = format!("\t{} = cast {} as {};", annotated("r", &c.b), ea, ty::syntax(&c.b));
        }
        "assign" => {
            let ea = operand(&c.fa, &c.a, c.ka, "a", 1, &spa, &mut parts);
            place(&c.b, "b", 4, &spb, &mut parts);
            construct = format!("\t{} = {};", amp(c.kb, "b"), ea);
        }
        "assignp" => {
            place(&c.a, "a", 1, &spa, &mut parts);
            let target = path_target(c, &mut parts);
            construct = format!("\t{}{} = {};", "&".repeat(c.kb), target, amp(c.ka, "a"));
        }
        "init" => {
            let ea = operand(&c.fa, &c.a, c.ka, "a", 1, &spa, &mut parts);
            construct = format!("\t{} = {};", annotated_sp("r", &c.b, &spb), ea);
        }
        "member" => {
            let ea = operand(&c.fa, &c.a, c.ka, "a", 1, &spa, &mut parts);
            parts.top.push(format!("struct M {{ m: {} }}", ty::syntax_sp(&c.b, &spb)));
            construct = format!("\tvar r: M = M {{ m: {} }};", ea);
        }
        "const" => {
            construct = format!("const K: {} = {};", ty::syntax(&c.b), ty::literal(&c.a[0], 1));
            construct_is_top = true;
        }
        "elem" => {
            let ea = operand(&c.fa, &c.a, c.ka, "a", 1, &spa, &mut parts);
            let eb = operand(&c.fb, &c.b, c.kb, "b", 4, &spb, &mut parts);
            let rt = vec!["arr".to_string(), "2".to_string()].into_iter().chain(c.a.iter().cloned()).collect::<Ty>();
            construct = format!("\t{} = [{}, {}];", annotated("r", &rt), ea, eb);
        }
        "arg" => {
            let ea = operand(&c.fa, &c.a, c.ka, "a", 1, &spa, &mut parts);
            parts.top.push(format!("fn callee(p: {});", ty::syntax_sp(&c.b, &spb)));
            construct = format!("\tcallee({});", ea);
        }
        "arg2" => {
            let ea = operand(&c.fa, &c.a, c.ka, "a", 1, &spa, &mut parts);
            parts.locals.push("\tvar x0: i32 = 1i32;".to_string());
            parts.top.push(format!("fn callee(p0: i32, p: {});", ty::syntax_sp(&c.b, &spb)));
            construct = format!("\tcallee(x0, {});", ea);
        }
        "argp" => {
            place(&c.a, "a", 1, &spa, &mut parts);
            construct = position_call(c, &mut parts);
        }
        "argn" => {
            let ps: Vec<String> = (0..c.kb).map(|i| format!("p{i}: i32")).collect();
            parts.top.push(format!("fn callee({});", ps.join(", ")));
            parts.locals.push("\tvar x: i32 = 1i32;".to_string());
            let args: Vec<&str> = (0..c.ka).map(|_| "x").collect();
            construct = format!("\tcallee({});", args.join(", "));
        }
        "ret" => {
            let ea = operand(&c.fa, &c.a, c.ka, "a", 1, &spa, &mut parts);
            if ty::head(&c.b) != "void" {
                ret = Some(ty::syntax_sp(&c.b, &spb));
            }
            construct = format!("\treturn: {}", ea);
            construct_is_return = true;
        }
        other => {
            construct = format!("\t// unknown context {other}");
        }
    }
    let mut construct = construct;
    if c.x != "direct" {
        // the offending expression in an expression context (the declarations of the direct form are dropped)
        parts.top.retain(|l| !l.starts_with("fn callee("));
        if let Some((e, te, atomic)) = offending_expression(c, &mut parts) {
            let e = match &formed {
                Some(f) if c.fa != "var" || c.fb != "var" => f.clone(),
                _ => e,
            };
            let (stmt, is_ret) = statement_for(&c.x, &e, &te, atomic, &mut parts, &mut ret);
            construct = format!("\t{stmt}");
            construct_is_return = is_ret;
        }
    }
    if matches!(c.v.as_str(), "body_before" | "body_after" | "pub" | "extern") {
        apply_callee_kind(&c.v, &mut parts);
    }
    if let Some(name) = c.v.strip_prefix("name:") {
        // the callee bears a name the tool chain declares itself (libc functions used by the code generator)
        for l in parts.top.iter_mut() {
            if l.starts_with("fn callee(") {
                *l = l.replacen("fn callee(", &format!("fn {name}("), 1);
            }
        }
        construct = construct.replace("callee(", &format!("{name}("));
    }
    // the declared variable `r` of an initialisation is stored in a struct member afterwards; the same member is
    // assigned again in the same function (member1) or in a SECOND function (member2)
    let mut stmt_after_construct: Vec<String> = Vec::new();
    if (c.v == "member1" || c.v == "member2") && c.ctx == "init" && ty::is_prim(&c.b) {
        let bt = ty::syntax(&c.b);
        let lit = ty::literal(&c.b[0], 5);
        parts.top.push(format!("struct PM {{ m: {bt}, z: i64 }}"));
        parts.locals.push(format!("\tvar pm: PM = PM {{ m: {lit}, z: 0i64 }};"));
        stmt_after_construct.push("\tpm.m = r;".to_string());
        if c.v == "member1" {
            stmt_after_construct.push(format!("\tpm.m = {lit};"));
        } else {
            parts.after.extend(["fn u2()".to_string(), "{".to_string(), format!("\tvar pm: PM = PM {{ m: {lit}, z: 0i64 }};"),
                                format!("\tpm.m = {lit};"), "}".to_string()]);
        }
    }
    let t_flags = match c.v.as_str() {
        "t:pub" => "pub ",
        "t:extern" => "extern ",
        _ => "",
    };
    if c.y != "top" && !construct_is_top && !construct_is_return {
        parts.locals.extend(ty::CTX_LOCALS.iter().map(|s| s.to_string()));
        construct = format!("\t{}", ty::in_stmt_ctx(&c.y, &construct, "c"));
    }
    // the second unit: statements before / after the construct, a function before / after `t`
    let mut stmt_before: Option<String> = None;
    let mut stmt_after: Option<String> = None;
    match c.pre.as_str() {
        "s_call" => {
            parts.top.push("fn pre_sink(u: i64, w: u16);".to_string());
            parts.locals.extend(PRE_LOCALS.iter().map(|s| s.to_string()));
            stmt_before = Some("\tpre_sink(w1, w2);".to_string());
        }
        "s_bad" => {
            parts.locals.extend(PRE_LOCALS.iter().map(|s| s.to_string()));
            stmt_before = Some(PRE_BAD.to_string());
        }
        "s_bad_after" => {
            parts.locals.extend(PRE_LOCALS.iter().map(|s| s.to_string()));
            stmt_after = Some(PRE_BAD.to_string());
        }
        _ => {}
    }
    let (pre_fn, pre_fn_bad) = pre_function(&c.pre);
    let mut seen = std::collections::HashSet::new();
    parts.locals.retain(|l| seen.insert(l.clone()));
    let mut seen_top = std::collections::HashSet::new();
    parts.top.retain(|l| seen_top.insert(l.clone()));
    let mut lines: Vec<String> = ty::PRELUDE.lines().map(|s| s.to_string()).collect();
    lines.extend(parts.top);
    let mut line = 0;
    let mut pre_line = 0;
    if construct_is_top {
        lines.push(construct.clone());
        line = lines.len();
    }
    if c.pre != "f_bad_after" && !pre_fn.is_empty() {
        if let Some(i) = pre_fn_bad {
            pre_line = lines.len() + i + 1;
        }
        lines.extend(pre_fn.iter().cloned());
    }
    let head = match &ret {
        Some(r) => format!("{}fn t({}) -> {}", t_flags, parts.params.join(", "), r),
        None => format!("{}fn t({})", t_flags, parts.params.join(", ")),
    };
    lines.push(head);
    lines.push("{".to_string());
    lines.extend(parts.locals);
    if let Some(s) = stmt_before {
        lines.push(s);
        if c.pre == "s_bad" {
            pre_line = lines.len();
        }
    }
    if !construct_is_top {
        if construct_is_return {
            if let Some(s) = stmt_after.take() {
                // nothing can follow the return value: the neighbour stands before it
                lines.push(s);
                pre_line = lines.len();
            }
        }
        lines.push(construct);
        line = lines.len();
        lines.extend(stmt_after_construct);
    }
    if let Some(s) = stmt_after {
        lines.push(s);
        pre_line = lines.len();
    }
    lines.push("}".to_string());
    if c.pre == "f_bad_after" {
        if let Some(i) = pre_fn_bad {
            pre_line = lines.len() + i + 1;
        }
        lines.extend(pre_fn.iter().cloned());
    }
    lines.extend(parts.after);
    Rendered { source: lines.join("\n") + "\n", line, pre_line }
}

//! C07: cells of spec/MC_TypeRules.tla -> minimal fully annotated programs (replay), and the
//! description of a rendered program for `show`.
use super::ty::{self, Ty};
use serde_json::{Value, json};

pub struct Rendered {
    pub source: String,
    /// 1-based line of the construct under test
    pub line: usize,
}

#[derive(Clone, Debug)]
pub struct Cell {
    pub ctx: String,
    pub op: String,
    pub a: Ty,
    pub ka: usize,
    pub b: Ty,
    pub kb: usize,
    /// expression context of the offending expression ("direct", "paren", "elem", "member", "arg", "index",
    /// "castop", "binop", "ret", "cond") and statement context of the statement (ty::STMT_CONTEXTS)
    pub x: String,
    pub y: String,
}

impl Cell {
    pub fn from_json(v: &Value) -> Cell {
        Cell {
            ctx: v["ctx"].as_str().unwrap_or("").to_string(),
            op: v["op"].as_str().unwrap_or("").to_string(),
            a: ty::ty_from_json(&v["a"]),
            ka: v["ka"].as_u64().unwrap_or(0) as usize,
            b: ty::ty_from_json(&v["b"]),
            kb: v["kb"].as_u64().unwrap_or(0) as usize,
            x: v["x"].as_str().unwrap_or("direct").to_string(),
            y: v["y"].as_str().unwrap_or("top").to_string(),
        }
    }
    pub fn to_json(&self) -> Value {
        json!({"ctx": self.ctx, "op": self.op, "a": self.a, "ka": self.ka, "b": self.b, "kb": self.kb, "x": self.x, "y": self.y})
    }
    pub fn key(&self) -> String {
        let base = format!("{} {} {}/{} {}/{}", self.ctx, if self.op.is_empty() { "-" } else { &self.op }, ty::key(&self.a), self.ka,
                ty::key(&self.b), self.kb);
        if self.x == "direct" && self.y == "top" { base } else { format!("{} @{}/{}", base, self.x, self.y) }
    }
}

/// The type of `&..& v` for a variable declared `d` (mirror of ExprType in TypeRules.tla; used only to
/// choose the annotation of the result variable -- the verdict is never computed here).
pub fn expr_type(d: &Ty, k: usize) -> Ty {
    let mut core: &[String] = d;
    while core.first().map(|s| s.as_str()) == Some("ptr") {
        core = &core[1..];
    }
    let mut out: Ty;
    let mut k = k;
    match core.first().map(|s| s.as_str()) {
        Some("sptr") => {
            if k == 0 {
                out = vec!["slice".to_string()];
                out.extend(core[1..].iter().cloned());
                return out;
            }
            k -= 1;
            out = core.to_vec();
        }
        Some("view") if k == 0 => return core[1..].to_vec(),
        _ => out = core.to_vec(),
    }
    for _ in 0..k {
        out = ty::ptr(&out);
    }
    out
}

fn amp(k: usize, name: &str) -> String {
    format!("{}{}", "&".repeat(k), name)
}

fn op_text(op: &str) -> &str {
    match op {
        "adv" => "..",
        "neg" => "-",
        "not" => "!",
        o => o,
    }
}

/// Declares the variable `name` of type `d` either as a local (lines) or, for types that only
/// parameters can have, as a parameter of the enclosing function.
fn place(d: &Ty, name: &str, n: u32, params: &mut Vec<String>, locals: &mut Vec<String>) {
    if d.is_empty() {
        return;
    }
    if ty::declarable(d) {
        locals.extend(ty::declare(d, name, n));
    } else {
        params.push(format!("{}: {}", name, ty::syntax(d)));
    }
}

fn annotated(name: &str, t: &Ty) -> String {
    if ty::declarable(t) { format!("var {}: {}", name, ty::syntax(t)) } else { format!("var {name}") }
}

fn i32t() -> Ty {
    vec!["i32".to_string()]
}

/// The offending expression of an expression-kind cell: (text, type as penne sees it, atomic?).
/// Calls are made to a `callee` that returns i32 (declared in `top`).
fn offending_expression(c: &Cell, top: &mut Vec<String>, locals: &mut Vec<String>) -> Option<(String, Ty, bool)> {
    match c.ctx.as_str() {
        "bin" => Some((format!("{} {} {}", amp(c.ka, "a"), op_text(&c.op), amp(c.kb, "b")), expr_type(&c.a, c.ka), false)),
        "un" => Some((format!("{}{}", op_text(&c.op), amp(c.ka, "a")), expr_type(&c.a, c.ka), false)),
        "as" => Some((format!("{} as {}", amp(c.ka, "a"), ty::syntax(&c.b)), c.b.clone(), false)),
        "cast" => Some((format!("cast {} as {}", amp(c.ka, "a"), ty::syntax(&c.b)), c.b.clone(), false)),
        "arg" => {
            top.push(format!("fn callee(p: {}) -> i32;", ty::syntax(&c.b)));
            Some((format!("callee({})", amp(c.ka, "a")), i32t(), true))
        }
        "arg2" => {
            locals.push("\tvar x0: i32 = 1i32;".to_string());
            top.push(format!("fn callee(p0: i32, p: {}) -> i32;", ty::syntax(&c.b)));
            Some((format!("callee(x0, {})", amp(c.ka, "a")), i32t(), true))
        }
        "argn" => {
            let ps: Vec<String> = (0..c.kb).map(|i| format!("p{i}: i32")).collect();
            top.push(format!("fn callee({}) -> i32;", ps.join(", ")));
            locals.push("\tvar x: i32 = 1i32;".to_string());
            let args: Vec<&str> = (0..c.ka).map(|_| "x").collect();
            Some((format!("callee({})", args.join(", ")), i32t(), true))
        }
        _ => None,
    }
}

/// The statement that puts expression `e` of type `te` into expression context `x`.
fn statement_for(x: &str, e: &str, te: &Ty, atomic: bool, top: &mut Vec<String>, locals: &mut Vec<String>, ret: &mut Option<String>)
    -> (String, bool) {
    let pe = if atomic { e.to_string() } else { format!("({e})") };
    let lit = if ty::is_prim(te) { ty::literal(&te[0], 7) } else { "0".to_string() };
    match x {
        "paren" => (format!("{} = ({});", annotated("r", te), e), false),
        "elem" => {
            top.push(format!("fn sink_v(v: []{});", ty::syntax(te)));
            (format!("sink_v([{e}]);"), false)
        }
        "member" => {
            top.push(format!("struct MX {{ m: {} }}", ty::syntax(te)));
            top.push("fn sink_m(v: MX);".to_string());
            (format!("sink_m(MX {{ m: {e} }});"), false)
        }
        "arg" => {
            top.push(format!("fn sink_a(v: {});", ty::syntax(te)));
            (format!("sink_a({e});"), false)
        }
        "index" => {
            locals.push("\tvar ix: [3]i32 = [1i32, 2i32, 3i32];".to_string());
            (format!("var r: i32 = ix[{e}];"), false)
        }
        "castop" => {
            let target = if te == &vec!["bool".to_string()] { "u8" } else if te == &vec!["i64".to_string()] { "i32" } else { "i64" };
            (format!("var r: {target} = {pe} as {target};"), false)
        }
        "binop" => (format!("{} = {} + {};", annotated("r", te), pe, lit), false),
        "ret" => {
            *ret = Some(ty::syntax(te));
            (format!("return: {e}"), true)
        }
        "cond" => {
            locals.push("\tvar z: i32 = 0i32;".to_string());
            (format!("if {pe} == {lit} {{ z = 1i32; }}"), false)
        }
        _ => (format!("{} = {};", annotated("r", te), e), false),
    }
}

/// Declarations for an assignment target of declared type `c.b` reached by the path shape `c.op`
/// ("v:mem.mem", "p:pmem.mem", ...); returns the text of the place.
fn path_target(c: &Cell, top: &mut Vec<String>, params: &mut Vec<String>, locals: &mut Vec<String>) -> String {
    let (base, shape) = c.op.split_once(':').unwrap_or(("v", "mem"));
    let bt = ty::syntax(&c.b);
    // a value of the type of the place (for the initialisers of local targets)
    let bv = if ty::is_prim(&c.b) {
        ty::literal(&c.b[0], 3)
    } else {
        locals.push("\tvar bv: i32 = 1i32;".to_string());
        "&bv".to_string()
    };
    let inn = format!("In {{ x: {bv}, y: 2i32 }}");
    // (type of the base, initialiser of a local base, path text)
    let (tt, init, path): (String, String, &str) = match shape {
        "elem" => (format!("[2]{bt}"), format!("[{bv}, {bv}]"), "[1usize]"),
        "mem" => {
            top.push(format!("struct In {{ x: {bt}, y: i32 }}"));
            ("In".to_string(), inn.clone(), ".x")
        }
        "mem.mem" => {
            top.push(format!("struct In {{ x: {bt}, y: i32 }}"));
            top.push("struct Out { id: i32, inner: In }".to_string());
            ("Out".to_string(), format!("Out {{ id: 1i32, inner: {inn} }}"), ".inner.x")
        }
        "mem.elem.mem" => {
            top.push(format!("struct In {{ x: {bt}, y: i32 }}"));
            top.push("struct Out { id: i32, items: [2]In }".to_string());
            ("Out".to_string(), format!("Out {{ id: 1i32, items: [{inn}, {inn}] }}"), ".items[1usize].x")
        }
        "pmem.mem" => {
            top.push(format!("struct In {{ x: {bt}, y: i32 }}"));
            top.push("struct Out { id: i32, inner: &In }".to_string());
            locals.push(format!("\tvar inn: In = {inn};"));
            ("Out".to_string(), "Out { id: 1i32, inner: &inn }".to_string(), ".inner.x")
        }
        "mem.mem.elem" => {
            top.push(format!("struct In {{ arr: [2]{bt}, y: i32 }}"));
            top.push("struct Out { id: i32, inner: In }".to_string());
            ("Out".to_string(), format!("Out {{ id: 1i32, inner: In {{ arr: [{bv}, {bv}], y: 2i32 }} }}"), ".inner.arr[1usize]")
        }
        "elem.mem" => {
            top.push(format!("struct In {{ x: {bt}, y: i32 }}"));
            ("[2]In".to_string(), format!("[{inn}, {inn}]"), "[1usize].x")
        }
        _ => {
            // "mem.elem"
            top.push(format!("struct In {{ arr: [2]{bt}, y: i32 }}"));
            ("In".to_string(), format!("In {{ arr: [{bv}, {bv}], y: 2i32 }}"), ".arr[1usize]")
        }
    };
    if base == "p" {
        params.push(format!("o: &{tt}"));
    } else {
        locals.push(format!("\tvar o: {tt} = {init};"));
    }
    format!("o{path}")
}

pub fn render(c: &Cell) -> Rendered {
    let mut top: Vec<String> = Vec::new(); // declarations before the function
    let mut params: Vec<String> = Vec::new();
    let mut locals: Vec<String> = Vec::new();
    let mut ret: Option<String> = None; // declared return type
    let construct: String;
    #[allow(unused_assignments)]
    let mut construct_is_return = false;
    let mut construct_is_top = false;
    match c.ctx.as_str() {
        "bin" => {
            place(&c.a, "a", 1, &mut params, &mut locals);
            place(&c.b, "b", 4, &mut params, &mut locals);
            let rt = expr_type(&c.a, c.ka);
            construct = format!("\t{} = {} {} {};", annotated("r", &rt), amp(c.ka, "a"), op_text(&c.op), amp(c.kb, "b"));
        }
        "cmp" => {
            place(&c.a, "a", 1, &mut params, &mut locals);
            place(&c.b, "b", 4, &mut params, &mut locals);
            locals.push("\tvar z: i32 = 0i32;".to_string());
            construct = format!("\tif {} {} {} {{ z = 1i32; }}", amp(c.ka, "a"), op_text(&c.op), amp(c.kb, "b"));
        }
        "un" => {
            place(&c.a, "a", 1, &mut params, &mut locals);
            let rt = expr_type(&c.a, c.ka);
            construct = format!("\t{} = {}{};", annotated("r", &rt), op_text(&c.op), amp(c.ka, "a"));
        }
        "as" => {
            place(&c.a, "a", 1, &mut params, &mut locals);
            construct = format!("\t{} = {} as {};", annotated("r", &c.b), amp(c.ka, "a"), ty::syntax(&c.b));
        }
        "cast" => {
            place(&c.a, "a", 1, &mut params, &mut locals);
            construct = format!("\t{} = cast {} as {};", annotated("r", &c.b), amp(c.ka, "a"), ty::syntax(&c.b));
        }
        "assign" => {
            place(&c.a, "a", 1, &mut params, &mut locals);
            place(&c.b, "b", 4, &mut params, &mut locals);
            construct = format!("\t{} = {};", amp(c.kb, "b"), amp(c.ka, "a"));
        }
        "assignp" => {
            place(&c.a, "a", 1, &mut params, &mut locals);
            let target = path_target(c, &mut top, &mut params, &mut locals);
            construct = format!("\t{}{} = {};", "&".repeat(c.kb), target, amp(c.ka, "a"));
        }
        "init" => {
            place(&c.a, "a", 1, &mut params, &mut locals);
            construct = format!("\t{} = {};", annotated("r", &c.b), amp(c.ka, "a"));
        }
        "member" => {
            place(&c.a, "a", 1, &mut params, &mut locals);
            top.push(format!("struct M {{ m: {} }}", ty::syntax(&c.b)));
            construct = format!("\tvar r: M = M {{ m: {} }};", amp(c.ka, "a"));
        }
        "const" => {
            construct = format!("const K: {} = {};", ty::syntax(&c.b), ty::literal(&c.a[0], 1));
            construct_is_top = true;
        }
        "elem" => {
            place(&c.a, "a", 1, &mut params, &mut locals);
            place(&c.b, "b", 4, &mut params, &mut locals);
            let rt = vec!["arr".to_string(), "2".to_string()].into_iter().chain(c.a.iter().cloned()).collect::<Ty>();
            construct = format!("\t{} = [a, b];", annotated("r", &rt));
        }
        "arg" => {
            place(&c.a, "a", 1, &mut params, &mut locals);
            top.push(format!("fn callee(p: {});", ty::syntax(&c.b)));
            construct = format!("\tcallee({});", amp(c.ka, "a"));
        }
        "arg2" => {
            place(&c.a, "a", 1, &mut params, &mut locals);
            locals.push("\tvar x0: i32 = 1i32;".to_string());
            top.push(format!("fn callee(p0: i32, p: {});", ty::syntax(&c.b)));
            construct = format!("\tcallee(x0, {});", amp(c.ka, "a"));
        }
        "argn" => {
            let ps: Vec<String> = (0..c.kb).map(|i| format!("p{i}: i32")).collect();
            top.push(format!("fn callee({});", ps.join(", ")));
            locals.push("\tvar x: i32 = 1i32;".to_string());
            let args: Vec<&str> = (0..c.ka).map(|_| "x").collect();
            construct = format!("\tcallee({});", args.join(", "));
        }
        "ret" => {
            place(&c.a, "a", 1, &mut params, &mut locals);
            ret = Some(ty::syntax(&c.b));
            construct = format!("\treturn: {}", amp(c.ka, "a"));
            construct_is_return = true;
        }
        other => {
            construct = format!("\t// unknown context {other}");
        }
    }
    let mut construct = construct;
    if c.x != "direct" {
        // the offending expression in an expression context (the declarations of the direct form are dropped)
        top.retain(|l| !l.starts_with("fn callee("));
        if let Some((e, te, atomic)) = offending_expression(c, &mut top, &mut locals) {
            let (stmt, is_ret) = statement_for(&c.x, &e, &te, atomic, &mut top, &mut locals, &mut ret);
            construct = format!("\t{stmt}");
            construct_is_return = is_ret;
        }
    }
    if c.y != "top" && !construct_is_top && !construct_is_return {
        locals.extend(ty::CTX_LOCALS.iter().map(|s| s.to_string()));
        construct = format!("\t{}", ty::in_stmt_ctx(&c.y, &construct, "c"));
    }
    let mut seen = std::collections::HashSet::new();
    locals.retain(|l| seen.insert(l.clone()));
    let mut lines: Vec<String> = ty::PRELUDE.lines().map(|s| s.to_string()).collect();
    lines.extend(top);
    let mut line = 0;
    if construct_is_top {
        lines.push(construct.clone());
        line = lines.len();
    }
    let head = match &ret {
        Some(r) => format!("fn t({}) -> {}", params.join(", "), r),
        None => format!("fn t({})", params.join(", ")),
    };
    lines.push(head);
    lines.push("{".to_string());
    lines.extend(locals);
    if !construct_is_top {
        lines.push(construct);
        line = lines.len();
    }
    let _ = construct_is_return;
    lines.push("}".to_string());
    Rendered { source: lines.join("\n") + "\n", line }
}

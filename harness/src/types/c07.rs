//! C07: cells of spec/MC_TypeRules.tla -> minimal fully annotated programs (replay), and the
//! description of a rendered program for `show`.
use super::ty::{self, Ty};
use serde_json::{Value, json};

pub struct Rendered {
    pub source: String,
    /// 1-based line of the construct under test
    pub line: usize,
}

#[derive(Clone, Debug)]
pub struct Cell {
    pub ctx: String,
    pub op: String,
    pub a: Ty,
    pub ka: usize,
    pub b: Ty,
    pub kb: usize,
}

impl Cell {
    pub fn from_json(v: &Value) -> Cell {
        Cell {
            ctx: v["ctx"].as_str().unwrap_or("").to_string(),
            op: v["op"].as_str().unwrap_or("").to_string(),
            a: ty::ty_from_json(&v["a"]),
            ka: v["ka"].as_u64().unwrap_or(0) as usize,
            b: ty::ty_from_json(&v["b"]),
            kb: v["kb"].as_u64().unwrap_or(0) as usize,
        }
    }
    pub fn to_json(&self) -> Value {
        json!({"ctx": self.ctx, "op": self.op, "a": self.a, "ka": self.ka, "b": self.b, "kb": self.kb})
    }
    pub fn key(&self) -> String {
        format!("{} {} {}/{} {}/{}", self.ctx, if self.op.is_empty() { "-" } else { &self.op }, ty::key(&self.a), self.ka,
                ty::key(&self.b), self.kb)
    }
}

/// The type of `&..& v` for a variable declared `d` (mirror of ExprType in TypeRules.tla; used only to
/// choose the annotation of the result variable -- the verdict is never computed here).
pub fn expr_type(d: &Ty, k: usize) -> Ty {
    let mut core: &[String] = d;
    while core.first().map(|s| s.as_str()) == Some("ptr") {
        core = &core[1..];
    }
    let mut out: Ty;
    let mut k = k;
    match core.first().map(|s| s.as_str()) {
        Some("sptr") => {
            if k == 0 {
                out = vec!["slice".to_string()];
                out.extend(core[1..].iter().cloned());
                return out;
            }
            k -= 1;
            out = core.to_vec();
        }
        Some("view") if k == 0 => return core[1..].to_vec(),
        _ => out = core.to_vec(),
    }
    for _ in 0..k {
        out = ty::ptr(&out);
    }
    out
}

fn amp(k: usize, name: &str) -> String {
    format!("{}{}", "&".repeat(k), name)
}

fn op_text(op: &str) -> &str {
    match op {
        "adv" => "..",
        "neg" => "-",
        "not" => "!",
        o => o,
    }
}

/// Declares the variable `name` of type `d` either as a local (lines) or, for types that only
/// parameters can have, as a parameter of the enclosing function.
fn place(d: &Ty, name: &str, n: u32, params: &mut Vec<String>, locals: &mut Vec<String>) {
    if d.is_empty() {
        return;
    }
    if ty::declarable(d) {
        locals.extend(ty::declare(d, name, n));
    } else {
        params.push(format!("{}: {}", name, ty::syntax(d)));
    }
}

fn annotated(name: &str, t: &Ty) -> String {
    if ty::declarable(t) { format!("var {}: {}", name, ty::syntax(t)) } else { format!("var {name}") }
}

pub fn render(c: &Cell) -> Rendered {
    let mut top: Vec<String> = Vec::new(); // declarations before the function
    let mut params: Vec<String> = Vec::new();
    let mut locals: Vec<String> = Vec::new();
    let mut ret: Option<String> = None; // declared return type
    let construct: String;
    let mut construct_is_return = false;
    let mut construct_is_top = false;
    match c.ctx.as_str() {
        "bin" => {
            place(&c.a, "a", 1, &mut params, &mut locals);
            place(&c.b, "b", 4, &mut params, &mut locals);
            let rt = expr_type(&c.a, c.ka);
            construct = format!("\t{} = {} {} {};", annotated("r", &rt), amp(c.ka, "a"), op_text(&c.op), amp(c.kb, "b"));
        }
        "cmp" => {
            place(&c.a, "a", 1, &mut params, &mut locals);
            place(&c.b, "b", 4, &mut params, &mut locals);
            locals.push("\tvar z: i32 = 0i32;".to_string());
            construct = format!("\tif {} {} {} {{ z = 1i32; }}", amp(c.ka, "a"), op_text(&c.op), amp(c.kb, "b"));
        }
        "un" => {
            place(&c.a, "a", 1, &mut params, &mut locals);
            let rt = expr_type(&c.a, c.ka);
            construct = format!("\t{} = {}{};", annotated("r", &rt), op_text(&c.op), amp(c.ka, "a"));
        }
        "as" => {
            place(&c.a, "a", 1, &mut params, &mut locals);
            construct = format!("\t{} = {} as {};", annotated("r", &c.b), amp(c.ka, "a"), ty::syntax(&c.b));
        }
        "cast" => {
            place(&c.a, "a", 1, &mut params, &mut locals);
            construct = format!("\t{} = cast {} as {};", annotated("r", &c.b), amp(c.ka, "a"), ty::syntax(&c.b));
        }
        "assign" => {
            place(&c.a, "a", 1, &mut params, &mut locals);
            place(&c.b, "b", 4, &mut params, &mut locals);
            construct = format!("\t{} = {};", amp(c.kb, "b"), amp(c.ka, "a"));
        }
        "init" => {
            place(&c.a, "a", 1, &mut params, &mut locals);
            construct = format!("\t{} = {};", annotated("r", &c.b), amp(c.ka, "a"));
        }
        "member" => {
            place(&c.a, "a", 1, &mut params, &mut locals);
            top.push(format!("struct M {{ m: {} }}", ty::syntax(&c.b)));
            construct = format!("\tvar r: M = M {{ m: {} }};", amp(c.ka, "a"));
        }
        "const" => {
            construct = format!("const K: {} = {};", ty::syntax(&c.b), ty::literal(&c.a[0], 1));
            construct_is_top = true;
        }
        "elem" => {
            place(&c.a, "a", 1, &mut params, &mut locals);
            place(&c.b, "b", 4, &mut params, &mut locals);
            let rt = vec!["arr".to_string(), "2".to_string()].into_iter().chain(c.a.iter().cloned()).collect::<Ty>();
            construct = format!("\t{} = [a, b];", annotated("r", &rt));
        }
        "arg" => {
            place(&c.a, "a", 1, &mut params, &mut locals);
            top.push(format!("fn callee(p: {});", ty::syntax(&c.b)));
            construct = format!("\tcallee({});", amp(c.ka, "a"));
        }
        "arg2" => {
            place(&c.a, "a", 1, &mut params, &mut locals);
            locals.push("\tvar x0: i32 = 1i32;".to_string());
            top.push(format!("fn callee(p0: i32, p: {});", ty::syntax(&c.b)));
            construct = format!("\tcallee(x0, {});", amp(c.ka, "a"));
        }
        "argn" => {
            let ps: Vec<String> = (0..c.kb).map(|i| format!("p{i}: i32")).collect();
            top.push(format!("fn callee({});", ps.join(", ")));
            locals.push("\tvar x: i32 = 1i32;".to_string());
            let args: Vec<&str> = (0..c.ka).map(|_| "x").collect();
            construct = format!("\tcallee({});", args.join(", "));
        }
        "ret" => {
            place(&c.a, "a", 1, &mut params, &mut locals);
            ret = Some(ty::syntax(&c.b));
            construct = format!("\treturn: {}", amp(c.ka, "a"));
            construct_is_return = true;
        }
        other => {
            construct = format!("\t// unknown context {other}");
        }
    }
    let mut lines: Vec<String> = ty::PRELUDE.lines().map(|s| s.to_string()).collect();
    lines.extend(top);
    let mut line = 0;
    if construct_is_top {
        lines.push(construct.clone());
        line = lines.len();
    }
    let head = match &ret {
        Some(r) => format!("fn t({}) -> {}", params.join(", "), r),
        None => format!("fn t({})", params.join(", ")),
    };
    lines.push(head);
    lines.push("{".to_string());
    lines.extend(locals);
    if !construct_is_top {
        lines.push(construct);
        line = lines.len();
    }
    let _ = construct_is_return;
    lines.push("}".to_string());
    Rendered { source: lines.join("\n") + "\n", line }
}

//! C08: cells of spec/MC_Mutability.tla -> minimal programs (replay).
use super::ty::{self, Ty};
use serde_json::Value;

pub struct Rendered {
    pub source: String,
    pub line: usize,
    /// line of the illegal neighbour (cell field `pre`), 0 if there is none
    pub pre_line: usize,
}

pub const PRELUDE8: &str = "struct S { m: i32, a: [2]i32 }\nstruct SP { p: &i32, m: i32 }\nword64 W { m: i32, n: i32 }\nstruct SS { s: S, q: &S }\n";

pub struct Cell {
    pub kind: String,
    pub d: Ty,
    pub path: Vec<String>,
    pub k: usize,
    pub ctx: String,
    pub f: Ty,
    pub et: Ty,
    pub tt: Ty,
    /// expression context of an address-of argument and statement context of the statement
    pub x: String,
    pub y: String,
    /// the second unit next to the construct ("none", "s_call", "s_bad", "s_bad_after", "f_bad", "f_bad_after", "f_samename")
    pub pre: String,
    /// flags of the enclosing function ("", "pub", "extern")
    pub v: String,
}

impl Cell {
    pub fn from_case(v: &Value) -> Cell {
        let c = &v["c"];
        Cell {
            kind: c["kind"].as_str().unwrap_or("").to_string(),
            d: ty::ty_from_json(&c["d"]),
            path: ty::ty_from_json(&c["path"]),
            k: c["k"].as_u64().unwrap_or(0) as usize,
            ctx: c["ctx"].as_str().unwrap_or("").to_string(),
            f: ty::ty_from_json(&v["f"]),
            et: ty::ty_from_json(&v["et"]),
            tt: ty::ty_from_json(&v["tt"]),
            x: c["x"].as_str().unwrap_or("direct").to_string(),
            y: c["y"].as_str().unwrap_or("top").to_string(),
            pre: c["pre"].as_str().unwrap_or("none").to_string(),
            v: c["v"].as_str().unwrap_or("").to_string(),
        }
    }
    pub fn key(&self) -> String {
        let base = format!("{} {} {} {} /{}", self.ctx, self.kind, ty::key(&self.d), if self.path.is_empty() { "-".to_string() } else { self.path.join(".") }, self.k);
        let mut key = if self.x == "direct" && self.y == "top" { base } else { format!("{} @{}/{}", base, self.x, self.y) };
        if self.pre != "none" {
            key.push_str(&format!(" ^{}", self.pre));
        }
        if !self.v.is_empty() {
            key.push_str(&format!(" #{}", self.v));
        }
        key
    }
}

/// Penne syntax of a type term in a declaration (a view of a struct is written as the struct).
fn syntax(t: &[String]) -> String {
    match t.first().map(|s| s.as_str()) {
        Some("ptr") => format!("&{}", syntax(&t[1..])),
        Some("arr") => format!("[{}]{}", t[1], syntax(&t[2..])),
        Some("slice") => format!("[]{}", syntax(&t[1..])),
        Some("sptr") => format!("&[]{}", syntax(&t[1..])),
        Some("view") => syntax(&t[1..]),
        // only in the signature of an extern function: an array without length
        Some("endless") => format!("[]{}", syntax(&t[1..])),
        Some("struct") | Some("word") => t[1].clone(),
        Some(p) => p.to_string(),
        None => "?".to_string(),
    }
}

fn strip_ptr(t: &[String]) -> (&[String], usize) {
    let mut n = 0;
    let mut t = t;
    while t.first().map(|s| s.as_str()) == Some("ptr") {
        t = &t[1..];
        n += 1;
    }
    (t, n)
}

/// A value expression of type `t` built from literals and the addresses of the helper variables.
fn value(t: &[String], n: u32) -> String {
    match t.first().map(|s| s.as_str()) {
        Some("ptr") => {
            let (base, depth) = strip_ptr(t);
            match (base.first().map(|s| s.as_str()), depth) {
                (Some("i32"), 1) => "&tv".to_string(),
                (Some("i32"), d) => format!("{}tp", "&".repeat(d)),
                (Some("struct"), d) if d >= 2 && base[1] == "S" => format!("{}tps", "&".repeat(d)),
                (Some("struct"), d) => format!("{}{}", "&".repeat(d), if base[1] == "SP" { "tsp" } else if base[1] == "SS" { "tss" } else { "ts" }),
                (Some("arr"), d) => format!("{}ta", "&".repeat(d)),
                (Some("word"), d) => format!("{}tw", "&".repeat(d)),
                _ => "&tv".to_string(),
            }
        }
        Some("sptr") => "&sp2".to_string(),
        Some("arr") => {
            let len: usize = t[1].parse().unwrap_or(1);
            let e: Vec<String> = (0..len).map(|i| value(&t[2..], n + i as u32)).collect();
            format!("[{}]", e.join(", "))
        }
        Some("slice") => {
            let e: Vec<String> = (0..2).map(|i| value(&t[1..], n + i as u32)).collect();
            format!("[{}]", e.join(", "))
        }
        Some("view") => value(&t[1..], n),
        Some("struct") => match t[1].as_str() {
            "S" => format!("S {{ m: {}i32, a: [{}i32, {}i32] }}", n, n + 1, n + 2),
            "SP" => format!("SP {{ p: &tv, m: {}i32 }}", n),
            "SS" => format!("SS {{ s: S {{ m: {}i32, a: [{}i32, {}i32] }}, q: &ts }}", n, n + 1, n + 2),
            o => format!("{o} {{ }}"),
        },
        Some("word") => format!("W {{ m: {}i32, n: {}i32 }}", n, n + 1),
        Some(p) => ty::literal(p, n),
        None => "0i32".to_string(),
    }
}

pub fn render(c: &Cell) -> Rendered {
    let mut lines: Vec<String> = PRELUDE8.lines().map(|s| s.to_string()).collect();
    let mut params: Vec<String> = Vec::new();
    if c.pre == "f_first" {
        // a function with a body BEFORE the declaration of the base (tenth round of seeded changes: what the analyzer remembers
        // about declarations must not depend on a function that was analysed in between)
        lines.extend(["fn t0()", "{", "\tvar q0: i32 = 1i32;", "\tq0 = 2i32;", "}"].iter().map(|s| s.to_string()));
    }
    if c.kind == "const" {
        lines.push(format!("const b: {} = {};", syntax(&c.d), value(&c.d, 1)));
    }
    if c.kind == "param" {
        params.push(format!("b: {}", syntax(&c.d)));
    }
    if c.v == "ixptr" {
        params.push("pi: &usize".to_string());
    }
    let needs_sp2 = c.ctx == "assign" && c.et.first().map(|s| s.as_str()) == Some("sptr");
    if needs_sp2 {
        params.push(format!("sp2: {}", syntax(&c.et)));
    }
    let mut ret: Option<String> = None;
    if c.ctx == "argxp" {
        lines.push(format!("extern fn callee(q: {});", syntax(&c.tt)));
    }
    if c.ctx == "argcast" {
        lines.push(format!("fn callee(q: {});", syntax(&c.tt)));
    }
    if c.x.starts_with("sib_") {
        lines.push("fn pick(i: usize) -> usize;".to_string());
        lines.push("fn twice(v: i32) -> i32;".to_string());
        lines.push("fn zero() -> usize;".to_string());
        lines.push(format!("struct MC {{ n: i32, v: {} }}", syntax(&c.et)));
        lines.push(format!("struct MC3 {{ a: [2]i32, v: {} }}", syntax(&c.et)));
    }
    if c.ctx == "arg" || c.ctx == "argmiss" {
        match c.x.as_str() {
            "elem" => lines.push(format!("fn sink_v(v: []{});", syntax(&c.tt))),
            "member" => {
                lines.push(format!("struct MX {{ m: {} }}", syntax(&c.tt)));
                lines.push("fn sink_m(v: MX);".to_string());
            }
            "nested" => {
                lines.push(format!("fn callee(q: {}) -> i32;", syntax(&c.tt)));
                lines.push("fn sink_a(v: i32);".to_string());
            }
            "ret" => ret = Some(syntax(&c.tt)),
            "cond" => {}
            "index" | "index_set" => lines.push(format!("fn callee(q: {}) -> usize;", syntax(&c.tt))),
            "binop" | "castop" | "condcall" | "builtin" | "unop" | "assigncall" | "twice_r" | "twice_l" => {
                lines.push(format!("fn callee(q: {}) -> i32;", syntax(&c.tt)))
            }
            "arg2" => lines.push(format!("fn callee(p0: i32, q: {});", syntax(&c.tt))),
            "argmid" => lines.push(format!("fn callee(p0: i32, q: {}, p2: i32);", syntax(&c.tt))),
            "initmember" => lines.push(format!("struct MX {{ m: {} }}", syntax(&c.tt))),
            "initelem" | "reseat" | "bitcast" => {}
            _ => lines.push(format!("fn callee(q: {});", syntax(&c.tt))),
        }
    }
    // the second unit: an illegal statement next to the construct, a function before / after `t`
    let mut pre_line = 0;
    if c.pre == "s_bad" || c.pre == "s_bad_after" {
        lines.push("const KC: i32 = 1i32;".to_string());
    }
    if c.pre == "s_call" {
        lines.push("fn pre_sink(v: i32);".to_string());
    }
    let pre_fn: Vec<&str> = match c.pre.as_str() {
        "f_bad" | "f_bad_after" => vec!["fn t0(h: i32)", "{", "\th = 2i32;", "}"],
        "f_samename" => vec!["fn t0()", "{", "\tvar b: i32 = 1i32;", "\tb = 2i32;", "}"],
        _ => Vec::new(),
    };
    if c.pre == "f_bad" {
        pre_line = lines.len() + 3;
    }
    if c.pre != "f_bad_after" {
        lines.extend(pre_fn.iter().map(|s| s.to_string()));
    }
    let flags = match c.v.as_str() {
        "pub" => "pub ",
        "extern" => "extern ",
        _ => "",
    };
    match &ret {
        Some(r) => lines.push(format!("{}fn t({}) -> {}", flags, params.join(", "), r)),
        None => lines.push(format!("{}fn t({})", flags, params.join(", "))),
    }
    lines.push("{".to_string());
    lines.extend(ty::CTX_LOCALS.iter().map(|s| s.to_string()));
    lines.push("\tvar tv: i32 = 7i32;".to_string());
    lines.push("\tvar tp: &i32 = &tv;".to_string());
    lines.push("\tvar ta: [2]i32 = [7i32, 8i32];".to_string());
    lines.push("\tvar ts: S = S { m: 7i32, a: [7i32, 8i32] };".to_string());
    lines.push("\tvar tsp: SP = SP { p: &tv, m: 7i32 };".to_string());
    lines.push("\tvar tss: SS = SS { s: S { m: 7i32, a: [7i32, 8i32] }, q: &ts };".to_string());
    lines.push("\tvar tw: W = W { m: 7i32, n: 8i32 };".to_string());
    lines.push("\tvar tps: &S = &ts;".to_string());
    if c.kind == "var" {
        lines.push(format!("\tvar b: {} = {};", syntax(&c.d), value(&c.d, 1)));
    }
    if c.x.starts_with("sib_") {
        lines.push(format!("\tvar tgt: [2]{} = [{}, {}];", syntax(&c.et), value(&c.et, 20), value(&c.et, 30)));
    }
    let mut r = format!("{}b", "&".repeat(c.k));
    for s in &c.path {
        if s == "i" {
            r.push_str(if c.v == "ixptr" { "[pi]" } else { "[1usize]" });
        } else {
            r.push('.');
            r.push_str(s);
        }
    }
    let construct = match c.ctx.as_str() {
        "assign" => format!("\t{} = {};", r, value(&c.et, 40)),
        "read" if c.x.starts_with("sib_") => {
            // the whole-aggregate copy next to an expression evaluated earlier in the same statement
            let et = syntax(&c.et);
            match c.x.as_str() {
                "sib_idx" => format!("\ttgt[pick(1usize)] = {};", r),
                "sib_idx0" => format!("\ttgt[1usize] = {};", r),
                "sib_zero" => format!("\ttgt[zero()] = {};", r),
                "sib_member" => format!("\tvar r: MC = MC {{ n: twice(3i32), v: {} }};", r),
                "sib_member0" => format!("\tvar r: MC = MC {{ n: 6i32, v: {} }};", r),
                _ => {
                    let _ = &et;
                    format!("\tvar r: MC3 = MC3 {{ a: [twice(3i32), 4i32], v: {} }};", r)
                }
            }
        }
        "read" => {
            if c.tt.is_empty() {
                format!("\tvar r = {};", r)
            } else {
                format!("\tvar r: {} = {};", syntax(&c.tt), r)
            }
        }
        "argcast" => format!("\tcallee(cast {});", r),
        _ => match c.x.as_str() {
            "paren" => format!("\tcallee(({}));", r),
            "elem" => format!("\tsink_v([{}]);", r),
            "member" => format!("\tsink_m(MX {{ m: {} }});", r),
            "nested" => format!("\tsink_a(callee({}));", r),
            "ret" => format!("\treturn: {}", r),
            "cond" => format!("\tif {} == {} {{ fill = 1i32; }}", r, r),
            "index" => format!("\tvar rr: i32 = ta[callee({})];", r),
            "index_set" => format!("\tta[callee({})] = 1i32;", r),
            "binop" => format!("\tvar rr: i32 = 1i32 + callee({});", r),
            "castop" => format!("\tvar rr: i64 = callee({}) as i64;", r),
            "condcall" => format!("\tif callee({}) == 1i32 {{ fill = 1i32; }}", r),
            "builtin" => format!("\tprint!(callee({}));", r),
            "initelem" => format!("\tvar rr: [1]{} = [{}];", syntax(&c.tt), r),
            "initmember" => format!("\tvar rr: MX = MX {{ m: {} }};", r),
            "reseat" => {
                lines.push(format!("\tvar tq: {} = {};", syntax(&c.tt), value(&c.tt, 50)));
                format!("\t{}tq = {};", "&".repeat(ty::ptr_depth(&c.tt)), r)
            }
            "bitcast" => format!("\tvar rr: &u8 = cast {} as &u8;", r),
            "unop" => format!("\tvar rr: i32 = -callee({});", r),
            "assigncall" => format!("\ttv = callee({});", r),
            "arg2" => format!("\tcallee(tv, {});", r),
            "argmid" => format!("\tcallee(tv, {}, tv);", r),
            "twice_r" => format!("\tvar rr: i32 = callee({}) + callee({});", value(&c.tt, 50), r),
            "twice_l" => format!("\tvar rr: i32 = callee({}) + callee({});", r, value(&c.tt, 50)),
            _ => format!("\tcallee({});", r),
        },
    };
    let construct = if c.y != "top" && c.x != "ret" { format!("\t{}", ty::in_stmt_ctx(&c.y, &construct, "c")) } else { construct };
    if c.pre == "s_bad" {
        lines.push("\tKC = 2i32;".to_string());
        pre_line = lines.len();
    }
    if c.pre == "s_call" {
        // a legal call statement with an argument right before the construct
        lines.push("\tpre_sink(tv);".to_string());
    }
    let is_return = c.x == "ret";
    if c.pre == "s_bad_after" && is_return {
        // nothing can follow the return value: the neighbour stands before it
        lines.push("\tKC = 2i32;".to_string());
        pre_line = lines.len();
    }
    lines.push(construct);
    let line = lines.len();
    if c.pre == "s_bad_after" && !is_return {
        lines.push("\tKC = 2i32;".to_string());
        pre_line = lines.len();
    }
    lines.push("}".to_string());
    if c.pre == "f_bad_after" {
        pre_line = lines.len() + 3;
        lines.extend(pre_fn.iter().map(|s| s.to_string()));
    }
    Rendered { source: lines.join("\n") + "\n", line, pre_line }
}

//! Small helpers shared by the harness binaries.
use std::io::BufRead;

pub fn threads() -> usize {
    std::env::var("PVH_THREADS").ok().and_then(|x| x.parse().ok()).unwrap_or(12)
}

pub fn read_lines(path: &str) -> Vec<String> {
    let f = std::fs::File::open(path).unwrap_or_else(|e| {
        eprintln!("cannot open {path}: {e}");
        std::process::exit(2)
    });
    std::io::BufReader::new(f).lines().map(|l| l.unwrap()).filter(|l| !l.trim().is_empty()).collect()
}

/// Run `f` over all inputs on a pool of threads, keeping order.
pub fn par_map<T: Sync, R: Send>(inputs: &[T], f: impl Fn(usize, &T) -> R + Sync) -> Vec<R> {
    let n = threads().max(1);
    let chunk = inputs.len().div_ceil(n).max(1);
    let mut out: Vec<Vec<R>> = Vec::new();
    std::thread::scope(|s| {
        let handles: Vec<_> = inputs
            .chunks(chunk)
            .enumerate()
            .map(|(ci, part)| {
                let f = &f;
                s.spawn(move || part.iter().enumerate().map(|(i, x)| f(ci * chunk + i, x)).collect::<Vec<R>>())
            })
            .collect();
        for h in handles {
            out.push(h.join().expect("worker thread panicked"));
        }
    });
    out.into_iter().flatten().collect()
}

pub fn write_lines(path: &str, lines: &[String]) {
    use std::io::Write;
    let mut f = std::io::BufWriter::new(std::fs::File::create(path).expect("create output file"));
    for l in lines {
        writeln!(f, "{l}").unwrap();
    }
}

//! Exchange-format programs (spec/Machine.tla, docs/notes-machine.md) -> Penne source, canonical layout,
//! for programs in which a `V` item may lack its type (`var x = e;`) and an integer `lit` may lack its
//! suffix (it then carries a string `id`).  While rendering, every integer literal written into a
//! function body is logged in SOURCE ORDER (`Some(id)` = naked, `None` = suffixed with that type), so
//! that the literals of the resolved tree can be matched by position (infer/project.rs).
//! (Own copy of the machine group's renderer: that one always writes annotations and has no log.)

use serde_json::Value;

#[derive(Debug, Clone)]
pub struct LitEntry {
    pub id: Option<String>,
    pub suffix: Option<String>,
}

#[derive(Default)]
pub struct Ctx {
    pub lits: Vec<LitEntry>,
}

fn limbs_to_u128(v: &Value) -> u128 {
    let mut x: u128 = 0;
    if let Some(a) = v.as_array() {
        for (i, l) in a.iter().enumerate() {
            if i < 16 {
                x |= (l.as_u64().unwrap_or(0) as u128) << (8 * i);
            }
        }
    }
    x
}

fn width(t: &str) -> u32 {
    match t {
        "i8" | "u8" | "char8" | "bool" => 8,
        "i16" | "u16" => 16,
        "i32" | "u32" => 32,
        "i64" | "u64" | "usize" => 64,
        _ => 128,
    }
}

fn literal(e: &Value, cx: &mut Ctx) -> String {
    let x = limbs_to_u128(&e["v"]);
    let Some(t) = e.get("t").and_then(|t| t.as_str()) else {
        // naked: a small non-negative value
        cx.lits.push(LitEntry { id: Some(e["id"].as_str().unwrap_or("?").to_string()), suffix: None });
        return format!("{x}");
    };
    if t == "bool" {
        return if x != 0 { "true".to_string() } else { "false".to_string() };
    }
    let w = width(t);
    if t.starts_with('i') && (x >> (w - 1)) & 1 == 1 {
        let mag: u128 = if w == 128 { (!x).wrapping_add(1) } else { (1u128 << w) - x };
        if w == 128 && mag == (1u128 << 127) {
            cx.lits.push(LitEntry { id: None, suffix: Some(t.to_string()) });
            cx.lits.push(LitEntry { id: None, suffix: Some(t.to_string()) });
            return "(-170141183460469231731687303715884105727i128 - 1i128)".to_string();
        }
        cx.lits.push(LitEntry { id: None, suffix: Some(t.to_string()) });
        format!("-{mag}{t}")
    } else {
        cx.lits.push(LitEntry { id: None, suffix: Some(t.to_string()) });
        format!("{x}{t}")
    }
}

pub fn ty(t: &Value) -> String {
    if let Some(s) = t.as_str() {
        return s.to_string();
    }
    match t["k"].as_str().unwrap_or("") {
        "prim" => t["t"].as_str().unwrap().to_string(),
        "ptr" => format!("&{}", ty(&t["e"])),
        "view" => format!("[]{}", ty(&t["e"])),
        "array" => match t.get("nc").and_then(|x| x.as_str()) {
            Some(name) => format!("[{name}]{}", ty(&t["e"])),
            None => format!("[{}]{}", t["n"].as_u64().unwrap_or(0), ty(&t["e"])),
        },
        "named" => t["n"].as_str().unwrap().to_string(),
        other => panic!("unknown type kind {other}"),
    }
}

fn is_void(t: &Value) -> bool {
    t.as_str() == Some("void") || t["k"] == "void" || t.is_null()
}

fn reference(r: &Value, cx: &mut Ctx) -> String {
    let mut s = String::new();
    for _ in 0..r["addr"].as_u64().unwrap_or(0) {
        s.push('&');
    }
    s.push_str(r["x"].as_str().unwrap());
    if let Some(steps) = r["steps"].as_array() {
        for st in steps {
            match st["k"].as_str().unwrap_or("") {
                "i" => s.push_str(&format!("[{}]", expr(&st["e"], cx))),
                "m" => s.push_str(&format!(".{}", st["m"].as_str().unwrap())),
                other => panic!("unknown step kind {other}"),
            }
        }
    }
    s
}

pub fn expr(e: &Value, cx: &mut Ctx) -> String {
    match e["k"].as_str().unwrap_or("") {
        "ref" => reference(e, cx),
        "st" => {
            let parts: Vec<String> =
                e["fs"].as_array().unwrap().iter().map(|f| format!("{}: {}", f["m"].as_str().unwrap(), expr(&f["e"], cx))).collect();
            format!("{} {{ {} }}", e["n"].as_str().unwrap(), parts.join(", "))
        }
        "call" => {
            let args: Vec<String> = e["args"].as_array().unwrap().iter().map(|x| expr(x, cx)).collect();
            format!("{}({})", e["f"].as_str().unwrap(), args.join(", "))
        }
        "sizeof" => format!("|:{}|", ty(&e["ty"])),
        "lit" => literal(e, cx),
        "var" => e["x"].as_str().unwrap().to_string(),
        "paren" => format!("({})", expr(&e["e"], cx)),
        "bin" => {
            let l = operand(&e["l"], cx);
            let r = operand(&e["r"], cx);
            format!("{l} {} {r}", e["op"].as_str().unwrap())
        }
        "un" => format!("{}{}", e["op"].as_str().unwrap(), primary(&e["e"], cx)),
        "as" => format!("{} as {}", operand(&e["e"], cx), e["t"].as_str().unwrap()),
        "arr" => {
            let parts: Vec<String> = e["es"].as_array().unwrap().iter().map(|x| expr(x, cx)).collect();
            format!("[{}]", parts.join(", "))
        }
        "idx" => format!("{}[{}]", e["x"].as_str().unwrap(), expr(&e["i"], cx)),
        "len" => match e.get("r") {
            Some(r) => format!("|{}|", reference(r, cx)),
            None => format!("|{}|", e["x"].as_str().unwrap()),
        },
        other => panic!("unknown expression kind {other}"),
    }
}

fn operand(e: &Value, cx: &mut Ctx) -> String {
    match e["k"].as_str().unwrap_or("") {
        "bin" | "as" => format!("({})", expr(e, cx)),
        "lit" => {
            let s = expr(e, cx);
            if s.starts_with('-') { format!("({s})") } else { s }
        }
        _ => expr(e, cx),
    }
}

fn primary(e: &Value, cx: &mut Ctx) -> String {
    match e["k"].as_str().unwrap_or("") {
        "var" | "paren" | "idx" | "len" | "ref" => expr(e, cx),
        "lit" => {
            let s = expr(e, cx);
            if s.starts_with('-') || s.starts_with('(') { format!("({s})") } else { s }
        }
        _ => format!("({})", expr(e, cx)),
    }
}

fn cond(c: &Value, cx: &mut Ctx) -> String {
    let l = operand(&c["l"], cx);
    let r = operand(&c["r"], cx);
    format!("{l} {} {r}", c["op"].as_str().unwrap())
}

pub fn item(it: &Value, cx: &mut Ctx, res: Option<&Value>) -> String {
    let k = it["k"].as_str().unwrap_or("");
    let n = it["n"].as_str().unwrap_or("");
    match k {
        "O" => "{".to_string(),
        "C" => "}".to_string(),
        "IO" => format!("if {} {{", cond(&it["c"], cx)),
        "EO" => "else {".to_string(),
        "EIO" => format!("else if {} {{", cond(&it["c"], cx)),
        "G" => format!("goto {n};"),
        "IG" => format!("if {} goto {n};", cond(&it["c"], cx)),
        "EG" => format!("else goto {n};"),
        "EIG" => format!("else if {} goto {n};", cond(&it["c"], cx)),
        "L" => {
            if n == "return" {
                format!("return: {}", expr(res.expect("return label needs a result"), cx))
            } else {
                format!("{n}:")
            }
        }
        "LP" => "loop;".to_string(),
        "V" => {
            let x = it["x"].as_str().unwrap();
            let t = if it.get("ty").is_some() {
                Some(ty(&it["ty"]))
            } else if it.get("t").is_some() {
                Some(ty(&it["t"]))
            } else {
                None
            };
            match (t, it.get("e")) {
                (Some(t), Some(e)) => format!("var {x}: {t} = {};", expr(e, cx)),
                (Some(t), None) => format!("var {x}: {t};"),
                (None, Some(e)) => format!("var {x} = {};", expr(e, cx)),
                (None, None) => format!("var {x};"),
            }
        }
        "A" => {
            let r = reference(&it["r"], cx);
            format!("{r} = {};", expr(&it["e"], cx))
        }
        "S" => format!("{} = {};", it["x"].as_str().unwrap(), expr(&it["e"], cx)),
        "SI" => {
            let i = expr(&it["i"], cx);
            format!("{}[{i}] = {};", it["x"].as_str().unwrap(), expr(&it["e"], cx))
        }
        "P" => format!("print!({}, \"\\n\");", expr(&it["e"], cx)),
        "PP" => {
            let parts: Vec<String> = it["es"].as_array().unwrap().iter().map(|e| format!("{}, \"\\n\"", expr(e, cx))).collect();
            format!("print!({});", parts.join(", "))
        }
        "M" => {
            cx.lits.push(LitEntry { id: None, suffix: Some("usize".to_string()) });
            format!("print!(\"#\", {}usize, \"\\n\");", it["i"].as_u64().unwrap_or(0))
        }
        "CALL" => {
            let args: Vec<String> = it["args"].as_array().unwrap().iter().map(|x| expr(x, cx)).collect();
            let call = format!("{}({})", it["f"].as_str().unwrap(), args.join(", "));
            let d = it["d"].as_str().unwrap_or("");
            if d.is_empty() { format!("{call};") } else { format!("{d} = {call};") }
        }
        other => panic!("unknown item kind {other}"),
    }
}

pub struct Rendered {
    pub source: String,
    /// per function (in program order): name and the literal log of its body
    pub fns: Vec<(String, Vec<LitEntry>)>,
}

pub fn program(p: &Value) -> Rendered {
    let mut s = String::new();
    let mut scratch = Ctx::default();
    if let Some(ss) = p["structs"].as_array() {
        for d in ss {
            let head = if d["kind"] == "word" { format!("word{}", d["bits"].as_u64().unwrap_or(0)) } else { "struct".to_string() };
            s.push_str(&format!("{head} {}\n{{\n", d["name"].as_str().unwrap()));
            for m in d["ms"].as_array().unwrap() {
                s.push_str(&format!("{}: {},\n", m["x"].as_str().unwrap(), ty(&m["ty"])));
            }
            s.push_str("}\n");
        }
    }
    if let Some(cs) = p["consts"].as_array() {
        for c in cs {
            let t = if c.get("ty").is_some() { ty(&c["ty"]) } else { ty(&c["t"]) };
            s.push_str(&format!("const {}: {} = {};\n", c["x"].as_str().unwrap(), t, expr(&c["e"], &mut scratch)));
        }
    }
    let mut fns = Vec::new();
    for f in p["fns"].as_array().unwrap() {
        let mut cx = Ctx::default();
        let params: Vec<String> = f["params"]
            .as_array()
            .map(|a| a.iter().map(|x| format!("{}: {}", x["x"].as_str().unwrap(), if x.get("ty").is_some() { ty(&x["ty"]) } else { ty(&x["t"]) })).collect())
            .unwrap_or_default();
        let void = is_void(&f["ret"]);
        s.push_str(&format!("fn {}({})", f["name"].as_str().unwrap(), params.join(", ")));
        if !void {
            s.push_str(&format!(" -> {}", ty(&f["ret"])));
        }
        s.push_str("\n{\n");
        let empty = Vec::new();
        let body = f["body"].as_array().unwrap_or(&empty);
        let has_return_label = body.last().map(|x| x["k"] == "L" && x["n"] == "return").unwrap_or(false);
        for it in body {
            s.push_str(&item(it, &mut cx, f.get("res")));
            s.push('\n');
        }
        if !void && !has_return_label {
            s.push_str(&format!("return: {}\n", expr(&f["res"], &mut cx)));
        }
        s.push_str("}\n");
        fns.push((f["name"].as_str().unwrap().to_string(), cx.lits));
    }
    Rendered { source: s, fns }
}

//! Observation for the inference check: compile a source through the real front end and project, per
//! function of the RESOLVED tree, the type of every local declaration (by name) and of every integer
//! literal (in source order: statements in order, operands left to right, arguments in order).
use penne::alpha::resolved::*;
use penne::alpha::{Compiler, expander, resolver, scoper};
use pvh::alpha::{self, Diag};
use std::collections::BTreeMap;

pub struct Resolved {
    pub ok: bool,
    pub diags: Vec<Diag>,
    pub panic: Option<String>,
    pub silent: bool,
    pub declarations: Vec<Declaration>,
}

fn panic_message(e: Box<dyn std::any::Any + Send>) -> String {
    if let Some(s) = e.downcast_ref::<&str>() {
        s.to_string()
    } else if let Some(s) = e.downcast_ref::<String>() {
        s.clone()
    } else {
        "panic".to_string()
    }
}

/// The same stages as pvh::alpha::run_single(.., Upto::Resolve, ..), keeping the resolved declarations.
pub fn resolve_source(source: &str, filename: &str) -> Resolved {
    let r = std::panic::catch_unwind(|| {
        let declarations = alpha::parse(source, filename);
        let declarations = expander::expand_one(filename, declarations);
        if let Err(errors) = resolver::check_surface_level_errors(&declarations) {
            let diags: Vec<Diag> = errors.errors.iter().map(Diag::from_error).collect();
            return Resolved { ok: false, silent: diags.is_empty(), diags, panic: None, declarations: Vec::new() };
        }
        let declarations = scoper::analyze(declarations);
        let mut compiler = Compiler::default();
        compiler.add_module(filename).expect("add_module");
        match compiler.analyze_and_resolve(declarations) {
            Ok(Ok(resolved)) => Resolved { ok: true, diags: Vec::new(), panic: None, silent: false, declarations: resolved },
            Ok(Err(errors)) => {
                let diags: Vec<Diag> = errors.errors.iter().map(Diag::from_error).collect();
                Resolved { ok: false, silent: diags.is_empty(), diags, panic: None, declarations: Vec::new() }
            }
            Err(e) => Resolved { ok: false, diags: Vec::new(), panic: Some(format!("generator error: {e:#}")), silent: false, declarations: Vec::new() },
        }
    });
    match r {
        Ok(x) => x,
        Err(e) => Resolved { ok: false, diags: Vec::new(), panic: Some(panic_message(e)), silent: false, declarations: Vec::new() },
    }
}

pub fn type_name(vt: &ValueType) -> String {
    match vt {
        ValueType::Void => "void".into(),
        ValueType::Int8 => "i8".into(),
        ValueType::Int16 => "i16".into(),
        ValueType::Int32 => "i32".into(),
        ValueType::Int64 => "i64".into(),
        ValueType::Int128 => "i128".into(),
        ValueType::Uint8 => "u8".into(),
        ValueType::Uint16 => "u16".into(),
        ValueType::Uint32 => "u32".into(),
        ValueType::Uint64 => "u64".into(),
        ValueType::Uint128 => "u128".into(),
        ValueType::Usize => "usize".into(),
        ValueType::Char8 => "char8".into(),
        ValueType::Bool => "bool".into(),
        ValueType::Array { element_type, length } => format!("[{}]{}", length, type_name(element_type)),
        ValueType::ArrayWithNamedLength { element_type, named_length } => format!("[{}]{}", named_length.name, type_name(element_type)),
        ValueType::Slice { element_type } => format!("[]{}", type_name(element_type)),
        ValueType::SlicePointer { element_type } => format!("&[]{}", type_name(element_type)),
        ValueType::EndlessArray { element_type } => format!("[...]{}", type_name(element_type)),
        ValueType::Arraylike { element_type } => format!("[?]{}", type_name(element_type)),
        ValueType::Struct { identifier } => identifier.name.clone(),
        ValueType::Word { identifier, .. } => identifier.name.clone(),
        ValueType::UnresolvedStructOrWord { .. } => "unresolved".into(),
        ValueType::Pointer { deref_type } => format!("&{}", type_name(deref_type)),
        ValueType::View { deref_type } => format!("view {}", type_name(deref_type)),
    }
}

#[derive(Default)]
pub struct FnTypes {
    /// declared (resolved) type of every local declaration, by name (a repeated name keeps every type)
    pub decls: BTreeMap<String, Vec<String>>,
    /// resolved type of every integer literal, in source order
    pub lits: Vec<String>,
}

impl FnTypes {
    fn stmt(&mut self, s: &Statement) {
        match s {
            Statement::Declaration { name, value, value_type } => {
                self.decls.entry(name.name.clone()).or_default().push(type_name(value_type));
                if let Some(v) = value {
                    self.expr(v);
                }
            }
            Statement::Assignment { reference, value } => {
                self.reference(reference);
                self.expr(value);
            }
            Statement::EvaluateAndDiscard { value } => self.expr(value),
            Statement::If { condition, then_branch, else_branch } => {
                self.expr(&condition.left);
                self.expr(&condition.right);
                self.stmt(then_branch);
                if let Some(e) = else_branch {
                    self.stmt(e);
                }
            }
            Statement::Block(b) => {
                for s in &b.statements {
                    self.stmt(s);
                }
            }
            Statement::Loop | Statement::Goto { .. } | Statement::Label { .. } => {}
        }
    }

    fn reference(&mut self, r: &Reference) {
        for step in &r.steps {
            if let ReferenceStep::Element { argument, .. } = step {
                self.expr(argument);
            }
        }
    }

    fn expr(&mut self, e: &Expression) {
        match e {
            Expression::Binary { left, right, .. } => {
                self.expr(left);
                self.expr(right);
            }
            Expression::Unary { expression, .. } => self.expr(expression),
            Expression::SignedIntegerLiteral { value_type, .. } | Expression::BitIntegerLiteral { value_type, .. } => {
                // `true` / `false` are bit integer literals of type bool
                if !matches!(value_type, ValueType::Bool) {
                    self.lits.push(type_name(value_type));
                }
            }
            Expression::StringLiteral { .. } | Expression::SizeOf { .. } => {}
            Expression::ArrayLiteral { elements, .. } => {
                for el in elements {
                    self.expr(el);
                }
            }
            Expression::Structural { members, .. } => {
                for m in members {
                    self.expr(&m.expression);
                }
            }
            Expression::Parenthesized { inner } => self.expr(inner),
            Expression::Deref { reference, .. } => self.reference(reference),
            Expression::Autocoerce { expression, .. } => self.expr(expression),
            Expression::BitCast { expression, .. } => self.expr(expression),
            Expression::PrimitiveCast { expression, .. } => self.expr(expression),
            Expression::LengthOfArray { reference } => self.reference(reference),
            Expression::FunctionCall { arguments, .. } => {
                for a in arguments {
                    self.expr(a);
                }
            }
            Expression::InlineBlock { statements, value } => {
                for s in statements {
                    self.stmt(s);
                }
                self.expr(value);
            }
            Expression::Builtin(b) => match b {
                GeneratorBuiltin::Abort => {}
                GeneratorBuiltin::Format { arguments } => {
                    for a in arguments {
                        self.expr(a);
                    }
                }
                GeneratorBuiltin::Write { buffer, .. } => self.expr(buffer),
            },
        }
    }
}

pub fn project(declarations: &[Declaration]) -> BTreeMap<String, FnTypes> {
    let mut out = BTreeMap::new();
    for d in declarations {
        if let Declaration::Function { name, body, .. } = d {
            let mut ft = FnTypes::default();
            for s in &body.statements {
                ft.stmt(s);
            }
            if let Some(v) = &body.return_value {
                ft.expr(v);
            }
            out.insert(name.name.clone(), ft);
        }
    }
    out
}

//! Metamorphic erasure: take a fully annotated program of the machine group's generator (exchange
//! format) and remove, at a few seeded sites, the annotation of a scalar declaration (`var x: T = e;`
//! -> `var x = e;`) or the suffix of a non-negative integer literal (`5i32` -> `5`, the literal then
//! gets an `id` unique in its function).  The annotated original is the TWIN.
use pvh::rng::Rng;
use serde_json::{Value, json};

const INTS: [&str; 11] = ["i8", "i16", "i32", "i64", "i128", "u8", "u16", "u32", "u64", "u128", "usize"];

fn is_int(t: &str) -> bool {
    INTS.contains(&t)
}

fn width(t: &str) -> usize {
    match t {
        "i8" | "u8" => 8,
        "i16" | "u16" => 16,
        "i32" | "u32" => 32,
        "i64" | "u64" | "usize" => 64,
        _ => 128,
    }
}

fn lit_candidate(e: &Value) -> bool {
    let Some(t) = e.get("t").and_then(|t| t.as_str()) else { return false };
    if !is_int(t) {
        return false;
    }
    let limbs = e["v"].as_array().map(|a| a.len()).unwrap_or(0);
    if limbs * 8 != width(t) {
        return false;
    }
    // non-negative in its own type (a naked literal is written without a sign)
    let top = e["v"][limbs - 1].as_u64().unwrap_or(0);
    !(t.starts_with('i') && top >= 128)
}

/// visit every expression node (pre-order, source order) reachable from `e`
fn walk_expr(e: &mut Value, f: &mut dyn FnMut(&mut Value)) {
    f(e);
    let k = e["k"].as_str().unwrap_or("").to_string();
    match k.as_str() {
        "bin" => {
            walk_expr(&mut e["l"], f);
            walk_expr(&mut e["r"], f);
        }
        "un" | "paren" | "as" => walk_expr(&mut e["e"], f),
        "call" => {
            if let Some(a) = e["args"].as_array_mut() {
                for x in a {
                    walk_expr(x, f);
                }
            }
        }
        "arr" => {
            if let Some(a) = e["es"].as_array_mut() {
                for x in a {
                    walk_expr(x, f);
                }
            }
        }
        "st" => {
            if let Some(a) = e["fs"].as_array_mut() {
                for x in a {
                    walk_expr(&mut x["e"], f);
                }
            }
        }
        "ref" => walk_steps(&mut e["steps"], f),
        "len" => {
            if e.get("r").is_some() {
                walk_steps(&mut e["r"]["steps"], f);
            }
        }
        "idx" => walk_expr(&mut e["i"], f),
        _ => {}
    }
}

fn walk_steps(steps: &mut Value, f: &mut dyn FnMut(&mut Value)) {
    if let Some(a) = steps.as_array_mut() {
        for st in a {
            if st["k"] == "i" {
                walk_expr(&mut st["e"], f);
            }
        }
    }
}

fn walk_item(it: &mut Value, f: &mut dyn FnMut(&mut Value)) {
    let k = it["k"].as_str().unwrap_or("").to_string();
    match k.as_str() {
        "V" | "S" | "P" => {
            if it.get("e").is_some() {
                walk_expr(&mut it["e"], f);
            }
        }
        "A" => {
            walk_steps(&mut it["r"]["steps"], f);
            walk_expr(&mut it["e"], f);
        }
        "SI" => {
            walk_expr(&mut it["i"], f);
            walk_expr(&mut it["e"], f);
        }
        "PP" => {
            if let Some(a) = it["es"].as_array_mut() {
                for x in a {
                    walk_expr(x, f);
                }
            }
        }
        "IG" | "IO" | "EIG" | "EIO" => {
            walk_expr(&mut it["c"]["l"], f);
            walk_expr(&mut it["c"]["r"], f);
        }
        "CALL" => {
            if let Some(a) = it["args"].as_array_mut() {
                for x in a {
                    walk_expr(x, f);
                }
            }
        }
        _ => {}
    }
}

fn decl_candidate(it: &Value) -> bool {
    it["k"] == "V" && it.get("e").is_some() && it["ty"]["k"] == "prim" && {
        let t = it["ty"]["t"].as_str().unwrap_or("");
        is_int(t) || t == "bool"
    }
}

/// -> (erased program, sites: [{f, kind: "decl"|"lit", node, was}])
pub fn erase(p: &Value, rng: &mut Rng, max_sites: usize) -> (Value, Vec<Value>) {
    let mut q = p.clone();
    let mut sites = Vec::new();
    // count the candidates (global index in visiting order; declarations and literals in separate pools)
    let mut total = 0usize;
    let mut decl_pool = Vec::new();
    let mut lit_pool = Vec::new();
    for f in q["fns"].as_array_mut().unwrap() {
        for it in f["body"].as_array_mut().unwrap() {
            if decl_candidate(it) {
                decl_pool.push(total);
                total += 1;
            }
            walk_item(it, &mut |e| {
                if lit_candidate(e) {
                    lit_pool.push(total);
                    total += 1;
                }
            });
        }
        if f.get("res").is_some() && f["ret"]["k"] != "void" {
            walk_expr(&mut f["res"], &mut |e| {
                if lit_candidate(e) {
                    lit_pool.push(total);
                    total += 1;
                }
            });
        }
    }
    if total == 0 {
        return (q, sites);
    }
    let want = rng.range(1, max_sites.max(1)).min(total);
    let mut chosen = std::collections::BTreeSet::new();
    let mut guard = 0;
    while chosen.len() < want && guard < 200 {
        guard += 1;
        // declarations are rare among the candidates: give them half of the picks
        let pool = if !decl_pool.is_empty() && (lit_pool.is_empty() || rng.chance(50)) { &decl_pool } else { &lit_pool };
        if pool.is_empty() {
            break;
        }
        chosen.insert(pool[rng.below(pool.len())]);
    }
    let mut at = 0usize;
    for f in q["fns"].as_array_mut().unwrap() {
        let fname = f["name"].as_str().unwrap_or("").to_string();
        let mut next_id = 0usize;
        let mut visit = |e: &mut Value, at: &mut usize, sites: &mut Vec<Value>| {
            if lit_candidate(e) {
                if chosen.contains(at) {
                    next_id += 1;
                    let id = format!("#{next_id}");
                    let was = e["t"].as_str().unwrap().to_string();
                    e.as_object_mut().unwrap().remove("t");
                    e["id"] = json!(id);
                    sites.push(json!({"f": fname, "kind": "lit", "node": id, "was": was}));
                }
                *at += 1;
            }
        };
        for it in f["body"].as_array_mut().unwrap() {
            if decl_candidate(it) {
                if chosen.contains(&at) {
                    let was = it["ty"]["t"].as_str().unwrap().to_string();
                    let x = it["x"].as_str().unwrap().to_string();
                    it.as_object_mut().unwrap().remove("ty");
                    sites.push(json!({"f": fname, "kind": "decl", "node": x, "was": was}));
                }
                at += 1;
            }
            walk_item(it, &mut |e| visit(e, &mut at, &mut sites));
        }
        if f.get("res").is_some() && f["ret"]["k"] != "void" {
            walk_expr(&mut f["res"], &mut |e| visit(e, &mut at, &mut sites));
        }
    }
    (q, sites)
}

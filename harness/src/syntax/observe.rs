//! What both front ends say about one source text, in terms of TOKEN INDICES of the real token stream
//! (first-generation lexer), so that the observation can be compared with the verdict of spec/SyntaxRules.tla.
//!
//!   k    class-relevant kind of every token of the real stream (Debug name of the lexer's token; an identifier
//!        spelled `return` is "IdReturn", the type keyword `void` "TypeVoid", a string literal whose bytes are not UTF-8
//!        "StringLiteralNotUtf8", a lexical error "Error")
//!   ap   parse-stage diagnostics of the first generation: every poison the parser put into the tree
//!        [code, ti, te]   ti = index (1-based) of the first token that ends after the start of the diagnostic's span
//!        (n + 1: at the end of the file), te = index of the last token that starts before its end
//!   af   the compilation through analyze_and_resolve: ok, diagnostics, panic
//!   d    second generation: o = ok | rej | panic, diagnostics
//!   teq  both accept: are the two trees equal (projections of the `grammar` group)
use penne::alpha::common::{Declaration, Expression};
use penne::alpha::error::Poison;
use penne::alpha::lexer::{LexedToken, Token};
use serde_json::{Value, json};
use std::cell::RefCell;

thread_local! {
    pub static LAST_PANIC: RefCell<String> = const { RefCell::new(String::new()) };
}

pub fn install_panic_hook() {
    std::panic::set_hook(Box::new(|info| {
        let msg = if let Some(s) = info.payload().downcast_ref::<&str>() {
            s.to_string()
        } else if let Some(s) = info.payload().downcast_ref::<String>() {
            s.clone()
        } else {
            "panic".to_string()
        };
        let loc = info
            .location()
            .map(|l| {
                let f = l.file();
                let f = f.rfind("/src/").map(|i| &f[i + 1..]).unwrap_or(f);
                f.to_string()
            })
            .unwrap_or_default();
        LAST_PANIC.with(|p| *p.borrow_mut() = format!("{loc} | {msg}"));
    }));
}

fn caught<T>(f: impl FnOnce() -> T + std::panic::UnwindSafe) -> Result<T, String> {
    LAST_PANIC.with(|p| p.borrow_mut().clear());
    match std::panic::catch_unwind(f) {
        Ok(v) => Ok(v),
        Err(_) => Err(LAST_PANIC.with(|p| p.borrow().clone())),
    }
}

pub fn kind_of(t: &Result<Token, penne::alpha::lexer::Error>) -> String {
    match t {
        Err(_) => "Error".to_string(),
        Ok(Token::Identifier(name)) if name == "return" => "IdReturn".to_string(),
        Ok(Token::Type(penne::alpha::value_type::ValueType::Void)) => "TypeVoid".to_string(),
        Ok(Token::StringLiteral { bytes }) if std::str::from_utf8(bytes).is_err() => "StringLiteralNotUtf8".to_string(),
        Ok(tok) => {
            let d = format!("{tok:?}");
            let end = d.find(|c: char| !c.is_ascii_alphanumeric()).unwrap_or(d.len());
            d[..end].to_string()
        }
    }
}

/// The real token stream: kinds and byte spans (the first generation counts characters).
pub struct Stream {
    pub kinds: Vec<String>,
    pub spans: Vec<(usize, usize)>,
    pub char_to_byte: Vec<usize>,
}

impl Stream {
    pub fn lex(src: &str) -> (Stream, Vec<LexedToken>) {
        let mut char_to_byte: Vec<usize> = src.char_indices().map(|(b, _)| b).collect();
        char_to_byte.push(src.len());
        let tokens = penne::alpha::lexer::lex(src, "m.pn");
        let cb = |c: usize| -> usize { *char_to_byte.get(c).unwrap_or(&src.len()) };
        let kinds = tokens.iter().map(|t| kind_of(&t.result)).collect();
        let spans = tokens.iter().map(|t| (cb(t.location.span.start), cb(t.location.span.end))).collect();
        (Stream { kinds, spans, char_to_byte }, tokens)
    }
    pub fn byte(&self, c: usize) -> usize {
        *self.char_to_byte.get(c).unwrap_or(self.char_to_byte.last().unwrap_or(&0))
    }
    /// [code, ti, te] of a diagnostic whose span is given in bytes
    pub fn locate(&self, code: u16, s: usize, e: usize) -> Value {
        let n = self.spans.len();
        let ti = self.spans.iter().position(|&(_, end)| end > s).map(|i| i + 1).unwrap_or(n + 1);
        let te = self.spans.iter().rposition(|&(start, _)| start < e.max(s + 1)).map(|i| i + 1).unwrap_or(0);
        json!([code, ti, te])
    }
}

fn push_poison(out: &mut Vec<(u16, usize, usize)>, p: &Poison) {
    if let Poison::Error(e) = p {
        let l = e.verif_location();
        out.push((e.code(), l.span.start, l.span.end));
    }
}

/// Every error the first-generation PARSER stored in the tree it returned (character offsets).
pub fn parse_stage_errors(decls: &[Declaration]) -> Vec<(u16, usize, usize)> {
    let mut out = Vec::new();
    for d in decls {
        match d {
            Declaration::Poison(p) => push_poison(&mut out, p),
            Declaration::Constant { value_type, .. } => {
                if let Err(p) = value_type {
                    push_poison(&mut out, p)
                }
            }
            Declaration::Function { parameters, body, return_type, .. } => {
                for par in parameters {
                    if let Err(p) = &par.name {
                        push_poison(&mut out, p)
                    }
                    if let Err(p) = &par.value_type {
                        push_poison(&mut out, p)
                    }
                }
                if let Err(p) = return_type {
                    push_poison(&mut out, p)
                }
                match body {
                    Err(p) => push_poison(&mut out, p),
                    Ok(b) => {
                        if let Some(Expression::Poison(p)) = &b.return_value {
                            push_poison(&mut out, p)
                        }
                    }
                }
            }
            Declaration::FunctionHead { parameters, return_type, .. } => {
                for par in parameters {
                    if let Err(p) = &par.name {
                        push_poison(&mut out, p)
                    }
                    if let Err(p) = &par.value_type {
                        push_poison(&mut out, p)
                    }
                }
                if let Err(p) = return_type {
                    push_poison(&mut out, p)
                }
            }
            Declaration::Structure { members, structural_type, .. } => {
                for m in members {
                    if let Err(p) = &m.name {
                        push_poison(&mut out, p)
                    }
                    if let Err(p) = &m.value_type {
                        push_poison(&mut out, p)
                    }
                }
                if let Err(p) = structural_type {
                    push_poison(&mut out, p)
                }
            }
            Declaration::Import { .. } => (),
        }
    }
    out.sort_by_key(|x| (x.1, x.2));
    out
}

pub struct Observation {
    pub v: Value,
    pub alpha_tree: Option<Value>,
    pub delta_tree: Option<Value>,
}

pub fn observe(src: &str, want_trees: bool) -> Observation {
    let (stream, _) = Stream::lex(src);
    let mut out = json!({"k": stream.kinds, "n": stream.spans.len()});
    let mut alpha_tree = None;
    let mut delta_tree = None;
    // ---- first generation, parse stage ------------------------------------------------------------------
    let s1 = src.to_string();
    let parsed = caught(move || {
        let tokens = penne::alpha::lexer::lex(&s1, "m.pn");
        let decls = penne::alpha::parser::parse(tokens);
        let errs = parse_stage_errors(&decls);
        let mut p = crate::alphaproj::AlphaProj::new();
        let t = p.module(&decls);
        (errs, p.codes, t)
    });
    let mut alpha_accepts = false;
    match parsed {
        Ok((errs, codes, tree)) => {
            out["ap"] = Value::Array(errs.iter().map(|&(c, s, e)| stream.locate(c, stream.byte(s), stream.byte(e))).collect());
            // (the projection walks the whole tree: a poison the list above does not know of is not lost)
            let extra: Vec<u16> = codes.iter().copied().filter(|c| *c != 0).collect();
            if errs.is_empty() && !extra.is_empty() {
                out["apx"] = json!(extra);
            }
            alpha_accepts = errs.is_empty() && codes.is_empty();
            if alpha_accepts {
                alpha_tree = Some(tree);
            }
        }
        Err(msg) => {
            out["app"] = json!(msg);
        }
    }
    // ---- first generation, the whole analysis -----------------------------------------------------------
    let o = pvh::alpha::run_single(src, "m.pn", pvh::alpha::Upto::Resolve, false);
    let mut af = json!({"ok": o.ok, "stage": o.stage});
    af["d"] = Value::Array(o.diags.iter().map(|d| stream.locate(d.code, stream.byte(d.start), stream.byte(d.end))).collect());
    if o.panic.is_some() {
        af["p"] = json!(LAST_PANIC.with(|p| p.borrow().clone()));
        if af["p"] == "" {
            af["p"] = json!(o.panic);
        }
    }
    if o.silent_failure {
        af["silent"] = json!(true);
    }
    out["af"] = af;
    // ---- second generation ------------------------------------------------------------------------------
    let s2 = src.to_string();
    let want = want_trees && alpha_accepts;
    let d = caught(move || {
        let tokens = penne::delta::lexer::lex(s2.as_bytes(), "m.pn");
        if let Some(errors) = tokens.errors() {
            let ds: Vec<(u16, usize, usize)> = errors.errors.iter().map(|e| (e.code(), e.verif_location().span.start, e.verif_location().span.end)).collect();
            return ("rej", "lex", ds, None);
        }
        let tree = penne::delta::parser::parse(&tokens);
        if let Some(errors) = tree.errors(&tokens) {
            let mut ds: Vec<(u16, usize, usize)> = errors.errors.iter().map(|e| (e.code(), e.verif_location().span.start, e.verif_location().span.end)).collect();
            ds.sort_by_key(|x| (x.1, x.2));
            return ("rej", "parse", ds, None);
        }
        let mut t = None;
        if want {
            let lines: Vec<String> = tree.as_xml(&tokens, &s2).collect();
            let doc = crate::xml::read(&lines);
            let mut proj = crate::xml::DeltaProj::new();
            t = Some(proj.module(&doc.root));
        }
        ("ok", "done", Vec::new(), t)
    });
    match d {
        Ok((o, stage, ds, t)) => {
            out["d"] = json!({"o": o, "stage": stage,
                              "d": ds.iter().map(|&(c, s, e)| stream.locate(c, s, e)).collect::<Vec<_>>()});
            delta_tree = t;
        }
        Err(msg) => {
            out["d"] = json!({"o": "panic", "p": msg, "d": []});
        }
    }
    if let (Some(a), Some(d)) = (&alpha_tree, &delta_tree) {
        out["teq"] = json!(a == d);
    }
    Observation { v: out, alpha_tree, delta_tree }
}

//! Isolated execution.  `pvh_delta run` (the supervisor) splits the cases over PVH_THREADS lanes; each lane
//! feeds a child process `pvh_delta worker` with a contiguous range of cases.  The child announces every case
//! (`B <index>`) before it runs it and reports the observation (`R <index> <json>`) afterwards; panics are
//! caught inside the child and are ordinary observations.  If the child dies (abort, stack overflow, signal)
//! or stays silent for longer than the per-case timeout, the announced-but-unreported case is recorded as
//! `crash` / `timeout` and a fresh child continues with the next case -- the effect of bisecting a batch,
//! without re-running anything.

use serde_json::{Value, json};
use std::io::{BufRead, BufReader, Read, Write};
use std::process::{Command, Stdio};
use std::sync::mpsc;
use std::time::Duration;

use crate::case::run_case;

pub struct Opts {
    pub events: bool,
    pub xml: bool,
    pub timeout_s: u64,
}

pub fn worker_main(path: &str, from: usize, to: usize, opts: &Opts) {
    crate::run::install_panic_recorder();
    let lines = pvh::util::read_lines(path);
    let stdout = std::io::stdout();
    let corpus = crate::inputs::corpus_files(&repo_dir());
    // The front end runs on a thread with the default main-thread stack of Linux (8 MiB), whatever
    // `ulimit -s` says, so that "stack overflow" observations are reproducible.
    let handle = std::thread::Builder::new()
        .stack_size(8 << 20)
        .spawn({
            let events = opts.events;
            let xml = opts.xml;
            move || {
                crate::run::install_panic_recorder();
                crate::run::ANNOUNCE.with(|a| a.set(true));
                for idx in from..to.min(lines.len()) {
                    let case: Value = serde_json::from_str(&lines[idx]).unwrap_or(json!({"g": "src", "src": ""}));
                    {
                        // announce the case and the size of its input, so that a death of this process can be
                        // attributed to an input of known size
                        let len = crate::inputs::resolve(&case, &corpus).bytes.len();
                        let mut o = stdout.lock();
                        writeln!(o, "B {idx} {len}").unwrap();
                        o.flush().unwrap();
                    }
                    let r = run_case(&case, &corpus, events, xml);
                    let mut o = stdout.lock();
                    writeln!(o, "R {idx} {r}").unwrap();
                    o.flush().unwrap();
                }
            }
        })
        .expect("spawn worker thread");
    if handle.join().is_err() {
        // a panic of the harness itself (not of penne: those are caught in run::run)
        std::process::exit(3);
    }
}

pub fn repo_dir() -> String {
    std::env::var("PENNE_REPO").unwrap_or_else(|_| "/repo".to_string())
}

enum Msg {
    Line(String),
    Eof,
}

/// Run cases[from..to] in child processes; returns one JSON text per case.
fn lane(path: &str, from: usize, to: usize, opts: &Opts) -> Vec<String> {
    let exe = std::env::current_exe().expect("current_exe");
    let mut results: Vec<Option<String>> = vec![None; to - from];
    let mut next = from;
    let mut deaths = 0usize; // in a row
    let mut timeouts = 0usize;
    let mut timeouts_in_row = 0usize;
    while next < to {
        // A front end that hangs on (nearly) every input would cost 10 s per case: after 6 timeouts in a row,
        // 40 timeouts in all, or 300 deaths in a row in one lane, the remaining cases of the lane are reported
        // as `skipped` (the check then refuses to call the run complete).
        if timeouts_in_row >= 6 || timeouts >= 40 || deaths >= 300 {
            for r in results.iter_mut().skip(next - from) {
                if r.is_none() {
                    *r = Some(json!({"o": "skipped"}).to_string());
                }
            }
            break;
        }
        let mut cmd = Command::new(&exe);
        cmd.arg("worker").arg(path).arg(next.to_string()).arg(to.to_string());
        if opts.events {
            cmd.arg("--events");
        }
        if opts.xml {
            cmd.arg("--xml");
        }
        let mut child = cmd.stdin(Stdio::null()).stdout(Stdio::piped()).stderr(Stdio::piped()).spawn().expect("spawn worker");
        let out = child.stdout.take().unwrap();
        let mut err = child.stderr.take().unwrap();
        let (tx, rx) = mpsc::channel::<Msg>();
        let reader = std::thread::spawn(move || {
            let mut r = BufReader::with_capacity(1 << 20, out);
            let mut line = String::new();
            loop {
                line.clear();
                match r.read_line(&mut line) {
                    Ok(0) | Err(_) => {
                        let _ = tx.send(Msg::Eof);
                        break;
                    }
                    Ok(_) => {
                        if tx.send(Msg::Line(line.trim_end().to_string())).is_err() {
                            break;
                        }
                    }
                }
            }
        });
        let err_reader = std::thread::spawn(move || {
            let mut buf = Vec::new();
            let _ = err.read_to_end(&mut buf);
            let tail = if buf.len() > 600 { buf[buf.len() - 600..].to_vec() } else { buf };
            String::from_utf8_lossy(&tail).to_string()
        });
        let mut current: Option<usize> = None;
        let mut current_len: i64 = -1;
        let mut stage = String::from("lex");
        let mut timed_out = false;
        loop {
            match rx.recv_timeout(Duration::from_secs(opts.timeout_s)) {
                Ok(Msg::Line(l)) => {
                    if let Some(rest) = l.strip_prefix("B ") {
                        let mut parts = rest.split_whitespace();
                        current = parts.next().and_then(|x| x.parse().ok());
                        current_len = parts.next().and_then(|x| x.parse::<i64>().ok()).unwrap_or(-1);
                        stage = String::from("lex");
                    } else if let Some(rest) = l.strip_prefix("S ") {
                        stage = rest.trim().to_string();
                    } else if let Some(rest) = l.strip_prefix("R ") {
                        let (idx, js) = rest.split_once(' ').unwrap_or((rest, "{}"));
                        if let Ok(idx) = idx.parse::<usize>() {
                            if idx >= from && idx < to {
                                results[idx - from] = Some(js.to_string());
                                next = idx + 1;
                                deaths = 0;
                                timeouts_in_row = 0;
                            }
                        }
                        current = None;
                    }
                }
                Ok(Msg::Eof) => break,
                Err(_) => {
                    timed_out = true;
                    let _ = child.kill();
                    break;
                }
            }
        }
        let status = child.wait().ok();
        let _ = reader.join();
        let stderr_tail = err_reader.join().unwrap_or_default();
        if next >= to && current.is_none() {
            break;
        }
        // the child ended before the range was done
        let victim = current.unwrap_or(next);
        if victim < from || victim >= to {
            break;
        }
        let mut signal: Option<i32> = None;
        let mut code: Option<i32> = None;
        if let Some(st) = status {
            use std::os::unix::process::ExitStatusExt;
            signal = st.signal();
            code = st.code();
        }
        let how = if timed_out {
            "timeout".to_string()
        } else if stderr_tail.contains("has overflowed its stack") {
            "stack overflow".to_string()
        } else if let Some(s) = signal {
            format!("signal {s}")
        } else {
            format!("exit {}", code.unwrap_or(-1))
        };
        if !timed_out && code == Some(3) {
            // the harness itself failed between two cases: report as a tool error, not as a crash of penne
            results[victim - from] = Some(json!({"o": "toolerror", "what": stderr_tail}).to_string());
        } else {
            let stderr_short: String = stderr_tail.lines().rev().take(4).collect::<Vec<_>>().into_iter().rev().collect::<Vec<_>>().join(" | ");
            results[victim - from] =
                Some(json!({"o": if timed_out { "timeout" } else { "crash" }, "how": format!("{how} in stage {stage}"), "len": current_len, "signal": signal, "exit": code, "stderr": stderr_short}).to_string());
        }
        next = victim + 1;
        deaths += 1;
        if timed_out {
            timeouts += 1;
            timeouts_in_row += 1;
        }
    }
    results.into_iter().map(|r| r.unwrap_or_else(|| json!({"o": "toolerror", "what": "no result"}).to_string())).collect()
}

pub fn supervise(path: &str, out_path: &str, opts: &Opts) {
    let n = pvh::util::read_lines(path).len();
    let lanes = pvh::util::threads().max(1).min(n.max(1));
    let per = n.div_ceil(lanes).max(1);
    let mut ranges = Vec::new();
    let mut a = 0;
    while a < n {
        ranges.push((a, (a + per).min(n)));
        a += per;
    }
    let mut all: Vec<Vec<String>> = Vec::new();
    std::thread::scope(|s| {
        let hs: Vec<_> = ranges.iter().map(|&(a, b)| s.spawn(move || lane(path, a, b, opts))).collect();
        for h in hs {
            all.push(h.join().expect("lane"));
        }
    });
    let mut f = std::io::BufWriter::new(std::fs::File::create(out_path).expect("create out"));
    for part in all {
        for l in part {
            writeln!(f, "{l}").unwrap();
        }
    }
}

//! One case = one JSON descriptor -> one observation (JSON).

use serde_json::{Value, json};

use crate::inputs;
use crate::module;
use crate::run;
use crate::xml;

fn hex(bytes: &[u8]) -> String {
    let mut s = String::with_capacity(bytes.len() * 2);
    for b in bytes {
        s.push_str(&format!("{b:02x}"));
    }
    s
}

/// C15: run the front end on the input the descriptor denotes.
fn run_input(case: &Value, corpus: &[String], events: bool, _xml: bool) -> Value {
    let input = inputs::resolve(case, corpus);
    let o = run::run(&input.bytes, false, events);
    let mut v = o.to_json(events, false);
    v["len"] = json!(input.bytes.len());
    v["wf"] = json!(input.facts.wf);
    v["badlex"] = json!(input.facts.badlex);
    v["gtoks"] = json!(input.facts.ntoks);
    if case["g"].as_str() == Some("cell") {
        v["shape"] = json!(crate::edge::label(&case["cell"]));
    }
    // a short, printable prefix of the input for reports
    let head: Vec<u8> = input.bytes.iter().take(120).copied().collect();
    v["head"] = json!(String::from_utf8_lossy(&head));
    if input.bytes.len() <= 200 && std::str::from_utf8(&input.bytes).is_err() {
        v["hex"] = json!(hex(&input.bytes));
    }
    v
}

fn decls_of(v: &Value) -> Vec<Value> {
    v.as_array().cloned().unwrap_or_default()
}

/// C17: render the abstract module, run the front end, project both dumps back; render the rule's header
/// (`h`, computed by TLC) as a module of its own and compare its full dump with the extracted header's dump.
fn run_module(decls: &[Value], rule_header: Option<&[Value]>, layout: u64, events: bool, keep_src: bool) -> Value {
    let src = module::render(decls, layout);
    let o = run::run(src.as_bytes(), true, events);
    let mut v = o.to_json(events, false);
    if keep_src {
        v["src"] = json!(src);
    }
    match &o.xml_full {
        Some(lines) => match xml::project_module(lines) {
            Ok(m) => v["full"] = json!(m),
            Err(e) => v["full_err"] = json!(e),
        },
        None => {}
    }
    match &o.xml_hdr {
        Some(lines) => {
            match xml::project_module(lines) {
                Ok(m) => v["hdr"] = json!(m),
                Err(e) => v["hdr_err"] = json!(e),
            }
            if keep_src {
                v["xml_hdr"] = json!(lines);
            }
        }
        None => {}
    }
    if let (Some(h), Some(hdr_lines)) = (rule_header, &o.xml_hdr) {
        // metamorphic: the header of M  ==  the whole of (M without private declarations and bodies)
        let hsrc = module::render(h, 0);
        let ho = run::run(hsrc.as_bytes(), true, false);
        match &ho.xml_full {
            Some(flines) => {
                let same = flines == hdr_lines;
                v["meta"] = json!(same);
                // node count of the restricted module parsed on its own (it is all-private: one zone marker)
                v["meta_nnode"] = json!(ho.nnode);
                if !same {
                    let k = flines.iter().zip(hdr_lines.iter()).position(|(a, b)| a != b).unwrap_or(flines.len().min(hdr_lines.len()));
                    v["meta_diff"] = json!({"line": k, "restricted": flines.get(k), "header": hdr_lines.get(k),
                                            "n_restricted": flines.len(), "n_header": hdr_lines.len()});
                }
            }
            None => {
                v["meta"] = json!(false);
                v["meta_diff"] = json!({"restricted_outcome": ho.outcome(), "codes": ho.codes, "panic": ho.panic_key(), "src": hsrc});
            }
        }
    }
    v
}

pub fn run_case(case: &Value, corpus: &[String], events: bool, xml: bool) -> Value {
    match case["g"].as_str().unwrap_or("") {
        "mod" => {
            let m = decls_of(&case["m"]);
            let h = case.get("h").map(decls_of);
            let layout = case["layout"].as_u64().unwrap_or(0);
            let mut v = run_module(&m, h.as_deref(), layout, events, xml);
            // fidelity of renderer + projection: what the real parser saw is the module TLC generated
            // (kept out of the observation when it holds, to keep replay files small)
            if v.get("full").map(|f| f == &case["m"]).unwrap_or(false) {
                v.as_object_mut().unwrap().remove("full");
                v["full_ok"] = json!(true);
            } else {
                v["full_ok"] = json!(false);
            }
            v
        }
        "rmod" => {
            let seed = case["seed"].as_u64().unwrap_or(1);
            let i = case["i"].as_u64().unwrap_or(0) as usize;
            let m = module::random_module(seed, i);
            let mut v = run_module(&m, None, seed.wrapping_mul(31).wrapping_add(i as u64) | 1, events, xml);
            v["gen"] = json!(m);
            v
        }
        "xmod" => {
            let seed = case["seed"].as_u64().unwrap_or(1);
            let i = case["i"].as_u64().unwrap_or(0) as usize;
            let (m, class, big) = module::extended_module(seed, i);
            let mut v = run_module(&m, None, seed.wrapping_mul(37).wrapping_add(i as u64) | 1, events, xml);
            // (the generated module itself can be tens of thousands of statements: its size and names are enough to
            // check that the parser saw every declaration)
            v["gen_n"] = json!(m.len());
            v["gen_names"] = json!(m.iter().map(|d| d["name"].clone()).collect::<Vec<_>>());
            v["class"] = json!(class);
            v["big"] = json!(big);
            v
        }
        _ => run_input(case, corpus, events, xml),
    }
}

/// `pvh_delta show`: the input as text (or hex), and the observation.
pub fn show(case: &Value) {
    crate::run::install_panic_recorder();
    let corpus = inputs::corpus_files(&crate::worker::repo_dir());
    match case["g"].as_str().unwrap_or("") {
        "mod" | "rmod" | "xmod" => {
            let v = run_case(case, &corpus, true, true);
            println!("--- source");
            println!("{}", v["src"].as_str().unwrap_or(""));
            println!("--- header dump");
            for l in v["xml_hdr"].as_array().cloned().unwrap_or_default() {
                println!("{}", l.as_str().unwrap_or(""));
            }
            let mut w = v.clone();
            w.as_object_mut().unwrap().remove("src");
            w.as_object_mut().unwrap().remove("xml_hdr");
            println!("--- observation\n{w}");
        }
        _ => {
            let input = inputs::resolve(case, &corpus);
            println!("--- input: {} bytes", input.bytes.len());
            match std::str::from_utf8(&input.bytes) {
                Ok(s) if s.len() <= 4000 => println!("{s}"),
                Ok(s) => {
                    let mut cut = 2000;
                    while !s.is_char_boundary(cut) {
                        cut -= 1;
                    }
                    println!("{} ... [{} more bytes]", &s[..cut], s.len() - cut)
                }
                Err(_) => println!("(not UTF-8) hex: {}", hex(&input.bytes[..input.bytes.len().min(400)])),
            }
            if let Some(path) = case["dump"].as_str() {
                std::fs::write(path, &input.bytes).expect("write dump");
                println!("--- written to {path}");
            }
            println!("--- observation (in this process; a crash ends the output here)");
            let v = run_case(case, &corpus, true, false);
            println!("{v}");
        }
    }
}

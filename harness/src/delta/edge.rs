//! Renderer of the boundary cells of spec/MC_DeltaBuffersEdge.tla (C15, dimension audit).
//! A cell is a record of numbers and small enumerations emitted by TLC; this file only turns it into bytes.
//! What the rule demands of the input (`wf`, `badlex`, `expect`) travels with the descriptor and is never
//! decided here.

use serde_json::Value;

use crate::inputs::needs_space;

fn s<'a>(c: &'a Value, k: &str) -> &'a str {
    c[k].as_str().unwrap_or("")
}
fn n(c: &Value, k: &str) -> usize {
    c[k].as_u64().unwrap_or(0) as usize
}

/// Join lexemes as tightly as the lexical grammar allows.
fn join_tight(toks: &[&str]) -> Vec<u8> {
    let mut out = Vec::with_capacity(toks.len() * 2);
    for (i, t) in toks.iter().enumerate() {
        if i > 0 && needs_space(toks[i - 1], t) {
            out.push(b' ');
        }
        out.extend_from_slice(t.as_bytes());
    }
    out
}

/// Pad with spaces (and a final line feed) to exactly `len` bytes; content longer than `len` is kept as it is.
fn pad_to(mut v: Vec<u8>, len: usize) -> Vec<u8> {
    if v.len() < len {
        let pad = len - v.len();
        v.extend(std::iter::repeat(b' ').take(pad - 1));
        v.push(b'\n');
    }
    v
}

fn raw_bytes(what: &str) -> Vec<u8> {
    match what {
        "nul" => vec![0],
        "soh" => vec![1],
        "del" => vec![0x7f],
        "cr" => vec![0x0d],
        "x80" => vec![0x80],
        "xff" => vec![0xff],
        "c328" => vec![0xc3, 0x28],
        "e282" => vec![0xe2, 0x82],
        "euro" => "\u{20ac}".as_bytes().to_vec(),
        "emoji" => "\u{1F600}".as_bytes().to_vec(),
        "bom" => vec![0xef, 0xbb, 0xbf],
        "nbsp" => vec![0xc2, 0xa0],
        _ => vec![b'?'],
    }
}

fn tok_cell(c: &Value) -> Vec<u8> {
    let count = n(c, "n");
    let len = n(c, "len");
    let mut toks: Vec<&str> = Vec::with_capacity(count);
    match s(c, "unit") {
        "semi" => toks.resize(count, ";"),
        "lit" => toks.resize(count, "7"),
        _ => {
            // whole declarations only: count = 5 a + 3 b with b = 2 count mod 5
            let b = (2 * count) % 5;
            let a = (count - 3 * b) / 5;
            for _ in 0..b {
                toks.extend_from_slice(&["struct", "S", ";"]);
            }
            for _ in 0..a {
                toks.extend_from_slice(&["fn", "f", "(", ")", ";"]);
            }
        }
    }
    let bad = n(c, "bad");
    if bad > 0 && !toks.is_empty() {
        match s(c, "badat") {
            "first" => toks[0] = "$",
            "last" => {
                let k = toks.len() - 1;
                toks[k] = "$"
            }
            _ => {
                // spread evenly, first and last lexeme included
                for j in 0..bad {
                    let k = if bad == 1 { 0 } else { j * (toks.len() - 1) / (bad - 1) };
                    toks[k] = "$";
                }
            }
        }
    }
    let mut v: Vec<u8> = Vec::new();
    match s(c, "raw") {
        "utf8" => v.extend_from_slice(b"// \xff\xfe \xc3 not UTF-8\n"),
        "nul" => v.extend_from_slice(b"// \x00 NUL \x00\n"),
        _ => {}
    }
    if s(c, "unit") == "lit" {
        for t in &toks {
            v.extend_from_slice(t.as_bytes());
            v.push(b' ');
        }
    } else {
        v.extend(join_tight(&toks));
    }
    pad_to(v, len)
}

fn pay_cell(c: &Value) -> Vec<u8> {
    let count = n(c, "n");
    let mut v = Vec::new();
    match s(c, "unit") {
        "soup" => {
            for k in 0..count {
                v.push(b'0' + (k % 10) as u8);
                v.extend_from_slice(b"  ");
            }
        }
        "mixed" => {
            const L: &[&str] = &["7", "true", "'a'", "0x1F", "1u8", "false", "'\\n'", "0b101", "340282366920938463463374607431768211455"];
            for k in 0..count {
                v.extend_from_slice(L[k % L.len()].as_bytes());
                v.extend_from_slice(b"  ");
            }
        }
        _ => {
            // well-formed: constants holding array literals of at most 4000 elements (the XML dump recurses per element)
            let mut left = count;
            let mut j = 0;
            while left > 0 {
                let m = left.min(4000);
                v.extend_from_slice(format!("const C{j}: [{m}]i32 = [").as_bytes());
                for k in 0..m {
                    v.extend_from_slice(if k + 1 < m { b"1 , " } else { b"1   " });
                }
                v.extend_from_slice(b"];\n");
                left -= m;
                j += 1;
            }
        }
    }
    v
}

fn errs_cell(c: &Value) -> Vec<u8> {
    let k = n(c, "n");
    let what = s(c, "what");
    let tail = s(c, "unit");
    let heads = |m: usize| "fn f();\n".repeat(m);
    let mut out = String::new();
    if tail == "after" {
        out.push_str(&heads(10));
    }
    match what {
        "lex" => out.push_str(&"$ ".repeat(k)),
        "lexshort" => out.push_str(&"$".repeat(k)),
        "parse" => out.push_str(&"fn ;\n".repeat(k)),
        "alt" => out.push_str(&"fn f();\nfn ;\n".repeat(k)),
        "pub" => out.push_str(&"pub ".repeat(k)),
        "extern" => out.push_str(&"extern ".repeat(k)),
        "pubextern" => out.push_str(&"pub extern ".repeat(k)),
        _ => {}
    }
    if tail == "heads" {
        out.push_str(&heads(20));
    }
    if tail == "after" {
        // the stray modifiers are the last bytes of the input
        while out.ends_with(' ') {
            out.pop();
        }
    }
    out.into_bytes()
}

fn eof_cell(c: &Value) -> Vec<u8> {
    let mut v: Vec<u8> = match s(c, "site") {
        "head" => b"fn f();\n".to_vec(),
        "body" => b"fn f()\n{\n\tx = ".to_vec(),
        _ => Vec::new(),
    };
    let cut: &[u8] = match s(c, "what") {
        "str" => b"\"abc",
        "strbs" => b"\"abc\\",
        "strx" => b"\"\\x",
        "strx1" => b"\"\\x4",
        "stru" => b"\"\\u",
        "strub" => b"\"\\u{",
        "strub1" => b"\"\\u{41",
        "chr" => b"'a",
        "chr0" => b"'",
        "chrbs" => b"'\\",
        "strcr" => b"\"abc\r",
        "cr" => b"\r",
        "comment" => b"// last line",
        "comment0" => b"//",
        "commentcr" => b"// c\r",
        "slash" => b"/",
        "hex0" => b"0x",
        "bin0" => b"0b",
        "sep" => b"1_",
        "bang" => b"x!",
        "minus" => b"-",
        "pipe" => b"|",
        "dot" => b".",
        _ => b"",
    };
    v.extend_from_slice(cut);
    v
}

fn raw_cell(c: &Value) -> Vec<u8> {
    let b = raw_bytes(s(c, "what"));
    let pos = s(c, "pos");
    let mut v = Vec::new();
    match s(c, "site") {
        "comment" => match pos {
            "start" => {
                v.extend_from_slice(b"//");
                v.extend_from_slice(&b);
                v.extend_from_slice(b" c\nfn f();\n");
            }
            "mid" => {
                v.extend_from_slice(b"fn f();\n// a");
                v.extend_from_slice(&b);
                v.extend_from_slice(b"b\nfn g();\n");
            }
            _ => {
                v.extend_from_slice(b"fn f();\n// a");
                v.extend_from_slice(&b);
            }
        },
        "string" => {
            v.extend_from_slice(b"fn f();\nconst A: []u8 = \"");
            match pos {
                "start" => {
                    v.extend_from_slice(&b);
                    v.extend_from_slice(b"abcd");
                }
                "mid" => {
                    v.extend_from_slice(b"ab");
                    v.extend_from_slice(&b);
                    v.extend_from_slice(b"cd");
                }
                _ => {
                    v.extend_from_slice(b"abcd");
                    v.extend_from_slice(&b);
                }
            }
            v.extend_from_slice(b"\";\nfn g();\n");
        }
        _ => match pos {
            "start" => {
                v.extend_from_slice(&b);
                v.extend_from_slice(b"fn f();\n");
            }
            "mid" => {
                v.extend_from_slice(b"fn f(); ");
                v.extend_from_slice(&b);
                v.extend_from_slice(b" fn g();\n");
            }
            _ => {
                v.extend_from_slice(b"fn f();\n");
                v.extend_from_slice(&b);
            }
        },
    }
    v
}

fn depth_cell(c: &Value) -> Vec<u8> {
    let k = n(c, "n");
    let amps = "&".repeat(k);
    let members = ".a".repeat(k);
    let indices = "[0]".repeat(k);
    let body = |st: String| format!("fn f()\n{{\n\t{st}\n}}\n");
    match s(c, "site") {
        "expraddr" => body(format!("x = {amps}y;")),
        "stmtaddr" => body(format!("{amps}y = 1;")),
        "lenaddr" => body(format!("x = |{amps}y|;")),
        "exprmember" => body(format!("x = y{members};")),
        "exprindex" => body(format!("x = y{indices};")),
        "stmtmember" => body(format!("y{members} = 1;")),
        "lenmember" => body(format!("x = |y{members}|;")),
        "typeaddr" => format!("fn f(p: {amps}i32);\n"),
        _ => body(format!("x = {}1{};", "(".repeat(k), ")".repeat(k))),
    }
    .into_bytes()
}

fn count_cell(c: &Value) -> Vec<u8> {
    let count = n(c, "n");
    let vis = s(c, "site");
    let mut out = String::new();
    if count == 0 {
        out.push_str("// no declarations\n");
    }
    for i in 0..count {
        let is_pub = match vis {
            "pub" => true,
            "alt" => i % 2 == 0,
            _ => false,
        };
        if is_pub {
            out.push_str("pub ");
        }
        match s(c, "unit") {
            "const" => out.push_str(&format!("const C{i}: i32 = {i};\n")),
            "fn" => out.push_str(&format!("fn f{i}()\n{{\n\tloop;\n}}\n")),
            "import" => out.push_str(&format!("import \"lib{i}.pn\";\n")),
            _ => out.push_str(&format!("fn f{i}(a: i32) -> i32;\n")),
        }
    }
    out.into_bytes()
}

fn name_cell(c: &Value) -> Vec<u8> {
    let len = n(c, "n").max(1);
    let name = "a".repeat(len);
    match s(c, "site") {
        "fn" => format!("fn {name}();\n"),
        "string" => format!("const S: []u8 = \"{name}\";\n"),
        "comment" => format!("//{}\nfn f();\n", "c".repeat(len)),
        "label" => format!("fn f()\n{{\n\t{name}:\n\tgoto {name};\n}}\n"),
        _ => format!("struct S\n{{\n\t{name}: i32,\n}}\nfn f()\n{{\n\tx = s.{name};\n}}\n"),
    }
    .into_bytes()
}

fn huge_cell(c: &Value) -> Vec<u8> {
    if s(c, "what") == "nodes24" {
        // a well-formed module whose parse tree needs more than 2^24 nodes (2.75 nodes per token, 2.5 bytes per token)
        return "fn f ( )  { x  = x  + x  + x  + x ;  }\n".repeat(n(c, "n")).into_bytes();
    }
    // zero pages that are never touched cost nothing; the lexer must refuse the length before it reads a byte
    let len = n(c, "lenk") * 1024 + n(c, "lenr");
    let mut v = vec![0u8; len];
    if s(c, "what") == "utf8" && len > 2 {
        v[0] = 0xff;
        v[len / 2] = 0xc3;
        v[len - 1] = 0x80;
    }
    v
}

pub fn render(c: &Value) -> Vec<u8> {
    match s(c, "fam") {
        "tok" => tok_cell(c),
        "pay" => pay_cell(c),
        "errs" => errs_cell(c),
        "eof" => eof_cell(c),
        "raw" => raw_cell(c),
        "depth" => depth_cell(c),
        "count" => count_cell(c),
        "name" => name_cell(c),
        "huge" => huge_cell(c),
        _ => Vec::new(),
    }
}

/// Short canonical name of a cell (keys of reports).
pub fn label(c: &Value) -> String {
    let fam = s(c, "fam");
    match fam {
        "tok" => format!("tok len={} n={} {} bad={}{} raw={}", n(c, "len"), n(c, "n"), s(c, "unit"), n(c, "bad"), s(c, "badat"), s(c, "raw")),
        "huge" => format!("huge {}KiB+{} {}", n(c, "lenk"), n(c, "lenr"), s(c, "what")),
        _ => format!("{fam} {} {} {} {} n={}", s(c, "what"), s(c, "site"), s(c, "pos"), s(c, "unit"), n(c, "n")),
    }
}

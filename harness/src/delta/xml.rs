//! A tiny reader for the line-oriented XML that `ParseTree::as_xml` prints (one tag per line), and the
//! projection of a dumped module onto the abstract declaration list of spec/Header.tla:
//!   decl = {k, pub, ext, opq, name, params:[[name,type]], ret:type, ty:type, val:expr, mem:[[name,type]],
//!           size, body:[stmt kind], res:expr}
//! where types and expressions are sequences of strings in prefix form (["&","i32"], ["+","1","2"]).

use serde_json::{Value, json};
use std::collections::BTreeMap;

#[derive(Debug, Clone)]
pub struct El {
    pub name: String,
    pub attrs: BTreeMap<String, String>,
    pub kids: Vec<El>,
}

enum Line {
    Open(El),
    Empty(El),
    Close(String),
    Text(String),
}

fn unescape_debug(s: &str) -> String {
    // inverse of Rust's {:?} for the characters our renderer produces
    let mut out = String::new();
    let mut it = s.chars();
    while let Some(c) = it.next() {
        if c == '\\' {
            match it.next() {
                Some('n') => out.push('\n'),
                Some('t') => out.push('\t'),
                Some('r') => out.push('\r'),
                Some('\\') => out.push('\\'),
                Some('"') => out.push('"'),
                Some('\'') => out.push('\''),
                Some(o) => {
                    out.push('\\');
                    out.push(o)
                }
                None => out.push('\\'),
            }
        } else {
            out.push(c)
        }
    }
    out
}

fn parse_line(line: &str) -> Result<Line, String> {
    let l = line.trim();
    if !l.starts_with('<') {
        return Ok(Line::Text(l.to_string()));
    }
    if let Some(rest) = l.strip_prefix("</") {
        return Ok(Line::Close(rest.trim_end_matches('>').trim().to_string()));
    }
    let inner = l.trim_start_matches('<');
    let (inner, empty) = match inner.strip_suffix("/>") {
        Some(x) => (x, true),
        None => (inner.strip_suffix('>').ok_or_else(|| format!("unterminated tag: {l}"))?, false),
    };
    let inner = inner.trim();
    let (name, mut rest) = match inner.find(' ') {
        Some(i) => (&inner[..i], inner[i..].trim_start()),
        None => (inner, ""),
    };
    let mut attrs = BTreeMap::new();
    while !rest.is_empty() {
        let eq = rest.find('=').ok_or_else(|| format!("attribute without '=': {l}"))?;
        let key = rest[..eq].trim().to_string();
        let after = &rest[eq + 1..];
        if !after.starts_with('"') {
            return Err(format!("attribute value not quoted: {l}"));
        }
        // find the closing quote, honouring backslash escapes
        let bytes = after.as_bytes();
        let mut j = 1;
        while j < bytes.len() {
            if bytes[j] == b'\\' {
                j += 2;
                continue;
            }
            if bytes[j] == b'"' {
                break;
            }
            j += 1;
        }
        if j >= bytes.len() {
            return Err(format!("unterminated attribute value: {l}"));
        }
        attrs.insert(key, unescape_debug(&after[1..j]));
        rest = after[j + 1..].trim_start();
    }
    let el = El { name: name.to_string(), attrs, kids: Vec::new() };
    Ok(if empty { Line::Empty(el) } else { Line::Open(el) })
}

/// Build the forest of top-level elements.
pub fn parse_forest(lines: &[String]) -> Result<Vec<El>, String> {
    let mut stack: Vec<El> = vec![El { name: "#root".to_string(), attrs: BTreeMap::new(), kids: Vec::new() }];
    for line in lines {
        match parse_line(line)? {
            Line::Open(el) => stack.push(el),
            Line::Empty(el) => stack.last_mut().unwrap().kids.push(el),
            Line::Text(t) => {
                let mut el = El { name: "#text".to_string(), attrs: BTreeMap::new(), kids: Vec::new() };
                el.attrs.insert("text".to_string(), t);
                stack.last_mut().unwrap().kids.push(el)
            }
            Line::Close(name) => {
                if stack.len() < 2 {
                    return Err(format!("unbalanced </{name}>"));
                }
                let el = stack.pop().unwrap();
                if el.name != name {
                    return Err(format!("<{}> closed by </{}>", el.name, name));
                }
                stack.last_mut().unwrap().kids.push(el);
            }
        }
    }
    if stack.len() != 1 {
        return Err(format!("<{}> is never closed", stack.last().unwrap().name));
    }
    Ok(stack.pop().unwrap().kids)
}

fn vt_name(debug: &str) -> String {
    match debug {
        "Void" => "void",
        "Int8" => "i8",
        "Int16" => "i16",
        "Int32" => "i32",
        "Int64" => "i64",
        "Int128" => "i128",
        "Uint8" => "u8",
        "Uint16" => "u16",
        "Uint32" => "u32",
        "Uint64" => "u64",
        "Uint128" => "u128",
        "Usize" => "usize",
        "Char8" => "char8",
        "Bool" => "bool",
        other => other,
    }
    .to_string()
}

fn attr<'a>(el: &'a El, k: &str) -> Result<&'a str, String> {
    el.attrs.get(k).map(|s| s.as_str()).ok_or_else(|| format!("<{}> has no attribute {k}", el.name))
}

fn one_kid(el: &El) -> Result<&El, String> {
    if el.kids.len() == 1 { Ok(&el.kids[0]) } else { Err(format!("<{}> has {} children, expected 1", el.name, el.kids.len())) }
}

pub fn project_type(el: &El) -> Result<Vec<String>, String> {
    let pre = |tag: &str, el: &El| -> Result<Vec<String>, String> {
        let mut v = vec![tag.to_string()];
        v.extend(project_type(one_kid(el)?)?);
        Ok(v)
    };
    match el.name.as_str() {
        "SimpleValueType" => Ok(vec![vt_name(attr(el, "type")?)]),
        "UnresolvedStructOrWordVT" => Ok(vec![attr(el, "src")?.to_string()]),
        "CompositeValueType" => project_type(one_kid(el)?),
        "PointerVT" => pre("&", el),
        "ViewVT" => pre("()", el),
        "ArraylikeVT" => pre("[]", el),
        "SliceVT" => pre("[:]", el),
        "EndlessArrayVT" => pre("[..]", el),
        "ArrayVT" => pre(&format!("[{}]", attr(el, "length")?), el),
        "ArrayWithNamedLengthVT" => pre(&format!("[{}]", attr(el, "identifier")?), el),
        other => Err(format!("not a type element: <{other}>")),
    }
}

fn op_symbol(debug: &str) -> String {
    match debug {
        "Add" => "+",
        "Subtract" => "-",
        "Multiply" => "*",
        "Divide" => "/",
        "Modulo" => "%",
        "BitwiseAnd" => "&",
        "BitwiseOr" => "|",
        "BitwiseXor" => "^",
        "ShiftLeft" => "<<",
        "ShiftRight" => ">>",
        "Negative" => "-",
        "BitwiseComplement" => "!",
        other => other,
    }
    .to_string()
}

pub fn project_expr(el: &El) -> Result<Vec<String>, String> {
    match el.name.as_str() {
        "UntypedIntegerLiteral" | "BooleanLiteral" | "CharLiteral" => Ok(vec![attr(el, "src")?.to_string()]),
        // the dump shows the text between the quotes
        "SimpleStringLiteral" => Ok(vec![format!("\"{}\"", attr(el, "src")?)]),
        "Deref" if attr(el, "address_depth")? == "0" && one_kid(el)?.kids.is_empty() => Ok(vec![attr(el, "identifier")?.to_string()]),
        "Binary" => {
            if el.kids.len() != 2 {
                return Err(format!("<Binary> with {} children", el.kids.len()));
            }
            let mut v = vec![op_symbol(attr(el, "op")?)];
            v.extend(project_expr(&el.kids[0])?);
            v.extend(project_expr(&el.kids[1])?);
            Ok(v)
        }
        "Unary" => {
            let tag = match attr(el, "op")? {
                "Negative" => "neg",
                "BitwiseComplement" => "not",
                other => other,
            };
            let mut v = vec![tag.to_string()];
            v.extend(project_expr(one_kid(el)?)?);
            Ok(v)
        }
        "Parenthesized" => {
            let mut v = vec!["()".to_string()];
            v.extend(project_expr(one_kid(el)?)?);
            Ok(v)
        }
        // Anything else (strings, character literals, arrays, casts, structure literals, calls, lengths, sizes, references
        // with steps; used by the `xmod` family): the subtree flattened into strings.  The rule only ever compares such
        // a value of the header with the same value of the module, both read through this function.
        _ => {
            let mut v = Vec::new();
            flatten(el, &mut v);
            Ok(v)
        }
    }
}

fn flatten(el: &El, out: &mut Vec<String>) {
    let mut tag = format!("<{}", el.name);
    for (k, val) in &el.attrs {
        tag.push_str(&format!(" {k}={val:?}"));
    }
    tag.push('>');
    out.push(tag);
    for k in &el.kids {
        flatten(k, out);
    }
    out.push(format!("</{}>", el.name));
}

fn project_pairs(list: &El) -> Result<Vec<Value>, String> {
    let mut out = Vec::new();
    for k in &list.kids {
        if k.name != "IdentifierAndType" {
            return Err(format!("expected <IdentifierAndType>, found <{}>", k.name));
        }
        out.push(json!([attr(k, "src")?, project_type(one_kid(k)?)?]));
    }
    Ok(out)
}

fn stmt_kind(el: &El) -> String {
    match el.name.as_str() {
        "Loop" => "loop",
        "Goto" => "goto",
        "VariableDeclaration" => "var",
        "MethodCall" => "call",
        "Label" => "label",
        "Assignment" => "set",
        "Block" => "block",
        "If" => "if",
        other => other,
    }
    .to_string()
}

/// Project one declaration element.  Every field is always present (the TLA+ side compares records).
pub fn project_decl(el: &El) -> Result<Value, String> {
    let flags = el.attrs.get("flags").cloned().unwrap_or_default();
    let has = |f: &str| flags.split('|').any(|x| x == f);
    let mut d = json!({"k": "", "pub": has("Public"), "ext": has("External"), "opq": has("OpaqueStruct"),
                       "name": "", "params": [], "ret": [], "ty": [], "val": [], "mem": [], "size": 0,
                       "body": [], "res": []});
    for f in flags.split('|') {
        if !f.is_empty() && !["Public", "External", "OpaqueStruct"].contains(&f) {
            return Err(format!("unexpected declaration flag {f}"));
        }
    }
    match el.name.as_str() {
        "FunctionDeclaration" => {
            d["name"] = json!(attr(el, "identifier")?);
            if el.kids.len() < 2 || el.kids.len() > 3 || el.kids[0].name != "List" {
                return Err(format!("<FunctionDeclaration> with {} children", el.kids.len()));
            }
            d["params"] = json!(project_pairs(&el.kids[0])?);
            let ret = project_type(&el.kids[1])?;
            d["ret"] = if ret == ["void"] { json!([]) } else { json!(ret) };
            if el.kids.len() == 3 {
                let body = &el.kids[2];
                if body.name != "FunctionBody" || body.kids.is_empty() || body.kids[0].name != "List" {
                    return Err("malformed <FunctionBody>".to_string());
                }
                d["k"] = json!("fn");
                d["body"] = json!(body.kids[0].kids.iter().map(stmt_kind).collect::<Vec<_>>());
                if body.kids.len() == 2 {
                    d["res"] = json!(project_expr(&body.kids[1])?);
                } else if body.kids.len() > 2 {
                    return Err("<FunctionBody> with more than two children".to_string());
                }
            } else {
                d["k"] = json!("head");
            }
        }
        "ConstantDeclaration" => {
            d["k"] = json!("const");
            d["name"] = json!(attr(el, "identifier")?);
            if el.kids.len() != 2 {
                return Err(format!("<ConstantDeclaration> with {} children", el.kids.len()));
            }
            d["val"] = json!(project_expr(&el.kids[0])?);
            d["ty"] = json!(project_type(&el.kids[1])?);
        }
        "StructureDeclaration" => {
            d["name"] = json!(attr(el, "identifier")?);
            let size: i64 = attr(el, "size-in-bytes")?.parse().map_err(|_| "size-in-bytes".to_string())?;
            d["k"] = json!(if size < 0 { "struct" } else { "word" });
            d["size"] = json!(if size < 0 { 0 } else { size });
            d["mem"] = json!(project_pairs(one_kid(el)?)?);
        }
        "ImportDeclaration" => {
            d["k"] = json!("import");
            d["name"] = json!(attr(one_kid(el)?, "src")?);
        }
        other => return Err(format!("not a declaration: <{other}>")),
    }
    Ok(d)
}

pub fn project_module(lines: &[String]) -> Result<Vec<Value>, String> {
    let forest = parse_forest(lines)?;
    forest.iter().map(project_decl).collect()
}

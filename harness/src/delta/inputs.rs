//! Input generators for C15.  Every input is reproducible from its descriptor
//!   {"g": <family>, "seed": s, "i": index, ...}
//! so that cases travel as descriptors (not as 256 KiB blobs) between the check, the supervisor and the
//! isolated workers.  Families:
//!   bytes   arbitrary bytes (uniform / ASCII-heavy / NUL- and high-byte-heavy), up to 256 KiB
//!   soup    random sequences of valid lexemes ("badlex": with invalid lexemes mixed in)
//!   prog    grammar-derived, syntactically well-formed modules of a given density profile
//!   prog2   the same with rich literal / string / name pools and every flag on every kind of declaration
//!   deep    well-formed modules with one deeply nested construct
//!   mut     a corpus file with byte/chunk level mutations
//!   corpus  a corpus file as it is
//!   toks    an explicit token list in a context (TLC-emitted)
//!   src     explicit text, hex: explicit bytes
//!   cell    a boundary cell emitted by TLC (spec/MC_DeltaBuffersEdge.tla), rendered by edge.rs

use pvh::rng::Rng;
use serde_json::Value;

pub const MAX_LEN: usize = 256 * 1024;

/// What the generator knows about its input (the verdict oracle's antecedents).
#[derive(Debug, Default, Clone)]
pub struct Facts {
    /// syntactically well-formed module of the documented language
    pub wf: bool,
    /// contains at least one invalid lexeme
    pub badlex: bool,
    /// number of lexemes the generator emitted (0 = unknown)
    pub ntoks: usize,
}

pub struct Input {
    pub bytes: Vec<u8>,
    pub facts: Facts,
}

// ---------------------------------------------------------------------------------------------
// tokens -> text
// ---------------------------------------------------------------------------------------------
fn is_word(c: u8) -> bool {
    c.is_ascii_alphanumeric() || c == b'_'
}

/// Must a separator stand between two adjacent lexemes so that they are lexed as written?
pub fn needs_space(a: &str, b: &str) -> bool {
    let (Some(&x), Some(&y)) = (a.as_bytes().last(), b.as_bytes().first()) else {
        return false;
    };
    if is_word(x) && is_word(y) {
        return true;
    }
    // an identifier directly followed by '!' is a builtin
    if is_word(x) && y == b'!' {
        return true;
    }
    matches!(
        (x, y),
        (b'=', b'=') | (b'!', b'=') | (b'<', b'<') | (b'<', b'=') | (b'>', b'>') | (b'>', b'=') | (b'-', b'>') | (b'|', b':') | (b'.', b'.') | (b'/', b'/')
    )
}

/// style 0: one space between lexemes; 1: as tight as the lexical grammar allows; 2: airy (newlines, comments)
pub fn join_tokens(toks: &[String], style: usize, rng: &mut Rng) -> String {
    let mut s = String::with_capacity(toks.len() * 3);
    for (i, t) in toks.iter().enumerate() {
        if i > 0 {
            match style {
                1 => {
                    if needs_space(&toks[i - 1], t) {
                        s.push(' ')
                    }
                }
                2 => match rng.below(12) {
                    0 => s.push_str("\n"),
                    1 => s.push_str("\n\t"),
                    2 => s.push_str("  "),
                    3 => s.push_str(" // note\n"),
                    4 => s.push_str("\r\n"),
                    _ => s.push(' '),
                },
                _ => s.push(' '),
            }
        }
        s.push_str(t);
    }
    s
}

const LIT_VALUES: &[&str] = &[
    "1", "0", "255", "340282366920938463463374607431768211455", "65536", "0xFFFFFFFFFFFFFFFFFFFFFFFFFFFFFFFF", "18446744073709551615", "7",
    "170141183460469231731687303715884105728", "0b1111", "18446744073709551616", "0x0",
];
const SUF_VALUES: &[&str] = &[
    "1u8", "0i8", "340282366920938463463374607431768211455u128", "255u8", "127i8", "65535u16", "170141183460469231731687303715884105727i128",
    "18446744073709551615u64", "0usize",
];

/// The token alphabet of spec/DeltaBuffers.tla (names are lexemes, except str / chr / bad).
pub fn lexeme(name: &str) -> String {
    match name {
        "str" => "\"s\"".to_string(),
        "chr" => "'a'".to_string(),
        "bad" => "`".to_string(),
        "id" => "x".to_string(),
        "bi" => "f!".to_string(),
        "ty" => "i32".to_string(),
        "lit" => "1".to_string(),
        "suf" => "1u8".to_string(),
        other => other.to_string(),
    }
}

pub fn context(name: &str) -> (&'static str, &'static str) {
    match name {
        "top" => ("", ""),
        "body" => ("fn f ( ) { ", " }"),
        "stmt" => ("fn f ( ) { x = ", " ; }"),
        "type" => ("const c : ", " = 1 ;"),
        "param" => ("fn f ( ", " ) ;"),
        "member" => ("struct S { ", " }"),
        "cond" => ("fn f ( ) { if ", " { } }"),
        "pubbody" => ("pub fn f ( ) { ", " } fn g ( ) ;"),
        "aftererr" => ("fn ( ; fn g ( ) { ", " }"),
        "afterpub" => ("pub fn f ( ) { } ", ""),
        "eofexpr" => ("fn f ( ) { x = ", ""),
        "pubconst" => ("fn g ( ) { } pub const c : i32 = ", " ; fn h ( ) ;"),
        _ => ("", ""),
    }
}

pub const CONTEXTS: &[&str] = &["top", "body", "stmt", "type", "param", "member", "cond", "pubbody", "aftererr", "afterpub", "eofexpr", "pubconst"];

// ---------------------------------------------------------------------------------------------
// lexeme pools
// ---------------------------------------------------------------------------------------------
const PUNCT: &[&str] = &[
    "(", ")", "{", "}", "[", "]", "<", ">", "|", "&", "^", "!", "_", "+", "-", "*", "/", "%", ":", ";", ".", ",", "=", "==", "!=", ">=", "<=", "<<", ">>",
    "->", "|:", "..",
];
const KEYWORDS: &[&str] = &[
    "fn", "var", "const", "if", "goto", "loop", "return", "else", "cast", "as", "import", "pub", "extern", "struct", "word8", "word16", "word32", "word64",
    "word128", "true", "false", "bool", "void", "char8", "i8", "i16", "i32", "i64", "i128", "u8", "u16", "u32", "u64", "u128", "usize",
];
const LITERALS: &[&str] = &[
    "0", "1", "42", "500_000_000", "0xfb4934ff", "0b1010", "17u8", "0x7Fi64", "340282366920938463463374607431768211455", "'a'", "'\\n'", "'\\x7F'",
    "\"\"", "\"hello\"", "\"a\\tb\\u{20ac}\\0\"", "x", "foo_bar", "Position", "f!", "print!", "_x1",
];
const BAD_LEXEMES: &[&str] = &[
    "`", "$", "#", "@", "~", "\\", "?", "'ab'", "''", "'\\q'", "\"\\q\"", "\"open", "'a", "1x", "0xZ", "99u7", "340282366920938463463374607431768211456",
    "0b2", "\"\\u{110000}\"", "\x01", "\x7f",
];

fn soup_token(rng: &mut Rng) -> String {
    match rng.below(10) {
        0..=3 => rng.pick(PUNCT).to_string(),
        4..=6 => rng.pick(KEYWORDS).to_string(),
        _ => rng.pick(LITERALS).to_string(),
    }
}

fn pick_len(rng: &mut Rng) -> usize {
    // sizes in bytes: mostly small, regularly large, sometimes at the 256 KiB limit
    match rng.below(20) {
        0..=6 => rng.range(1, 64),
        7..=11 => rng.range(64, 2048),
        12..=15 => rng.range(2048, 32 * 1024),
        16..=17 => rng.range(32 * 1024, 200 * 1024),
        18 => rng.range(200 * 1024, MAX_LEN),
        _ => MAX_LEN,
    }
}

// ---------------------------------------------------------------------------------------------
// families
// ---------------------------------------------------------------------------------------------
pub fn gen_bytes(seed: u64, i: usize) -> Input {
    let mut rng = Rng::new(seed, 0xB17E_0000 + i as u64);
    let len = if i == 0 { 0 } else { pick_len(&mut rng) };
    let class = rng.below(6);
    let mut v = Vec::with_capacity(len);
    let mut word = 0u64;
    for k in 0..len {
        if k % 8 == 0 {
            word = rng.next();
        }
        let b = (word >> ((k % 8) * 8)) as u8;
        let b = match class {
            0 => b,                                             // uniform
            1 => 0x20 + b % 0x5f,                               // printable ASCII
            2 => {
                // source-like alphabet
                const A: &[u8] = b"xy01(){}[];:,=+-*/&|<>! \n\t\"'._fnvarifgotoloop";
                A[b as usize % A.len()]
            }
            3 => {
                if b < 40 { 0 } else { b }                      // NUL heavy
            }
            4 => b | 0x80,                                      // high bytes only (invalid UTF-8)
            _ => {
                if b < 128 {
                    const Q: &[u8] = b"\"'\\x{}u09af\n";
                    Q[b as usize % Q.len()]
                } else {
                    b
                } // quotes, escapes, stray bytes
            }
        };
        v.push(b);
    }
    Input { bytes: v, facts: Facts::default() }
}

pub fn gen_soup(seed: u64, i: usize, bad: bool) -> Input {
    let mut rng = Rng::new(seed, 0x5009_0000 + 2 * i as u64 + bad as u64);
    let target = pick_len(&mut rng);
    let style = rng.below(3);
    let mut toks: Vec<String> = Vec::new();
    let mut bytes = 0usize;
    // token soups biased towards one token, towards declaration starts, or uniform
    let bias = rng.below(5);
    let fav = soup_token(&mut rng);
    while bytes < target {
        let t = match bias {
            0 if rng.chance(70) => fav.clone(),
            1 if rng.chance(40) => rng.pick(&["pub", "extern", "fn", "const", "struct", "import", "word8"]).to_string(),
            2 if rng.chance(50) => rng.pick(&["(", "[", "{", "&", "-", "!", "|", "if", "cast"]).to_string(),
            _ => soup_token(&mut rng),
        };
        bytes += t.len() + 1;
        toks.push(t);
    }
    let mut n_bad = 0;
    if bad {
        let many = rng.chance(20);
        let n = 1 + rng.below(if many { 300 } else { 4 });
        for _ in 0..n {
            let at = rng.below(toks.len() + 1);
            toks.insert(at, rng.pick(BAD_LEXEMES).to_string());
            n_bad += 1;
        }
    }
    let mut s = join_tokens(&toks, if bad { 0 } else { style }, &mut rng);
    truncate_at_boundary(&mut s, MAX_LEN);
    let ntoks = toks.len();
    Input { bytes: s.into_bytes(), facts: Facts { wf: false, badlex: n_bad > 0 && ntoks > 0, ntoks } }
}

fn truncate_at_boundary(s: &mut String, max: usize) {
    if s.len() > max {
        let mut cut = max;
        while !s.is_char_boundary(cut) {
            cut -= 1;
        }
        s.truncate(cut);
    }
}

// ---------------------------------------------------------------------------------------------
// well-formed programs
// ---------------------------------------------------------------------------------------------
#[derive(Clone, Copy)]
pub struct Profile {
    /// percentage of expression leaves that are identifiers (5 nodes) rather than literals (1 node)
    pub ident_pct: usize,
    /// operands per operator chain
    pub chain: (usize, usize),
    /// arguments / elements per list
    pub list: (usize, usize),
    /// statements per body
    pub stmts: (usize, usize),
    /// nesting budget
    pub depth: usize,
    /// weights: fn, head, const, struct, word, import
    pub decls: [usize; 6],
    /// short names?
    pub short: bool,
    /// join style
    pub style: usize,
}

pub const PROFILES: &[(&str, Profile)] = &[
    ("airy", Profile { ident_pct: 30, chain: (1, 2), list: (0, 3), stmts: (0, 6), depth: 3, decls: [5, 2, 3, 2, 1, 1], short: false, style: 2 }),
    ("mixed", Profile { ident_pct: 50, chain: (1, 4), list: (0, 4), stmts: (0, 10), depth: 4, decls: [6, 2, 3, 2, 1, 1], short: false, style: 0 }),
    ("ident-chains", Profile { ident_pct: 100, chain: (3, 40), list: (0, 2), stmts: (1, 5), depth: 1, decls: [6, 0, 3, 0, 0, 0], short: true, style: 1 }),
    ("literal-chains", Profile { ident_pct: 0, chain: (3, 40), list: (0, 2), stmts: (1, 5), depth: 1, decls: [6, 0, 3, 0, 0, 0], short: true, style: 1 }),
    ("long-lists", Profile { ident_pct: 80, chain: (1, 1), list: (4, 60), stmts: (1, 4), depth: 2, decls: [6, 1, 2, 1, 1, 0], short: true, style: 1 }),
    ("nested", Profile { ident_pct: 50, chain: (1, 2), list: (1, 2), stmts: (1, 3), depth: 12, decls: [6, 0, 1, 0, 0, 0], short: true, style: 0 }),
    ("declarations", Profile { ident_pct: 20, chain: (1, 1), list: (0, 2), stmts: (0, 1), depth: 1, decls: [2, 6, 6, 4, 2, 2], short: true, style: 1 }),
    ("statements", Profile { ident_pct: 40, chain: (1, 2), list: (0, 2), stmts: (10, 200), depth: 2, decls: [8, 0, 0, 0, 0, 0], short: true, style: 1 }),
];

/// prog2 (dimension audit): literals, strings and names that the first family never drew
const RICH_LITS: &[&str] = &[
    "340282366920938463463374607431768211455", "0xFFFFFFFFFFFFFFFFFFFFFFFFFFFFFFFF", "170141183460469231731687303715884105728",
    "18446744073709551616", "65536", "255", "256", "0x0", "0b0", "1_0_0", "255u8", "127i8", "65535u16",
    "340282366920938463463374607431768211455u128", "0usize", "'<'", "'&'", "'\"'", "'\\''", "'\\\\'", "'\\x7F'", "'\\0'", "'>'", "' '",
];
const RICH_STRS: &[&str] = &[
    "\"\"", "\"a<b&c>d\"", "\"q\\\"q\"", "\"it's\"", "\"\u{e9}\"", "\"\u{20ac}uro\"", "\"caf\u{e9}\"", "\"\u{65e5}\u{672c}\"", "\"\u{1F600}\"",
    "\"tab\\there\"", "\"\\u{20ac}\\0\\x41\"", "\"</List>\"", "\"&amp;\"", "\"back\\\\slash\"", "\"]]>\"",
];

struct Pg<'a> {
    rng: &'a mut Rng,
    /// draw from the rich pools as well (family prog2 only: the stream of `prog` stays as it was)
    rich: bool,
    p: Profile,
    out: Vec<String>,
    names: usize,
    /// once the declaration has this many tokens, only minimal productions are chosen
    budget: usize,
}

const TYPE_KW: &[&str] = &["i8", "i16", "i32", "i64", "i128", "u8", "u16", "u32", "u64", "u128", "usize", "bool", "char8"];

impl<'a> Pg<'a> {
    fn t(&mut self, s: &str) {
        self.out.push(s.to_string());
    }
    fn ident(&mut self) -> String {
        if self.rich && self.rng.chance(2) {
            // names around the 2^8 boundary of a length counter
            let n = *self.rng.pick(&[255usize, 256, 257, 300]);
            return "n".repeat(n);
        }
        if self.p.short {
            const N: &[&str] = &["x", "y", "z", "a", "b", "i", "n", "p"];
            self.rng.pick(N).to_string()
        } else {
            const N: &[&str] = &["value", "total_length", "buffer", "position", "index", "result", "x", "from_here"];
            self.rng.pick(N).to_string()
        }
    }
    fn fresh(&mut self, prefix: &str) -> String {
        self.names += 1;
        format!("{}{}", prefix, self.names)
    }
    fn ty(&mut self, depth: usize) {
        let r = if depth == 0 { self.rng.below(3) } else { self.rng.below(10) };
        match r {
            0 | 1 => {
                let k = self.rng.pick(TYPE_KW).to_string();
                self.t(&k)
            }
            2 => self.t("Position"),
            3 | 4 => {
                self.t("&");
                self.ty(depth - 1)
            }
            5 => {
                self.t("[");
                self.t("]");
                self.ty(depth - 1)
            }
            6 => {
                self.t("[");
                let n = format!("{}", self.rng.range(1, 64));
                self.t(&n);
                self.t("]");
                self.ty(depth - 1)
            }
            7 | 8 => {
                self.t("[");
                self.t("SIZE");
                self.t("]");
                self.ty(depth - 1)
            }
            _ => {
                self.t("&");
                self.ty(depth - 1)
            }
        }
    }
    fn leaf(&mut self) {
        if self.rng.chance(self.p.ident_pct) {
            let n = self.ident();
            self.t(&n);
            // occasionally a member / element step
            if self.p.depth > 1 && self.rng.chance(15) {
                if self.rng.chance(50) {
                    self.t(".");
                    let m = self.ident();
                    self.t(&m);
                } else {
                    self.t("[");
                    self.t("0");
                    self.t("]");
                }
            }
        } else if self.rich && self.rng.chance(40) {
            let l = self.rng.pick(RICH_LITS).to_string();
            self.t(&l);
        } else {
            const L: &[&str] = &["0", "1", "7", "42", "0xFF", "0b101", "200u8", "1_000i64", "true", "false", "'a'", "'\\n'"];
            let l = self.rng.pick(L).to_string();
            self.t(&l);
        }
    }
    fn over(&self) -> bool {
        self.out.len() >= self.budget
    }
    fn primary(&mut self, depth: usize) {
        if depth == 0 || self.over() {
            return self.leaf();
        }
        match self.rng.below(14) {
            0 | 1 => {
                self.t("(");
                self.expr(depth - 1);
                self.t(")");
            }
            2 | 3 => {
                let f = self.ident();
                self.t(&f);
                self.t("(");
                self.list(depth - 1, ")");
            }
            4 => {
                self.t("[");
                self.list(depth - 1, "]");
            }
            5 => {
                self.t("Position");
                self.t("{");
                let n = self.rng.range(self.p.list.0, self.p.list.1);
                for k in 0..n {
                    let m = self.ident();
                    self.t(&m);
                    self.t(":");
                    self.expr(depth - 1);
                    if k + 1 < n || self.rng.chance(50) {
                        self.t(",");
                    }
                }
                self.t("}");
            }
            6 if self.rich => {
                let n = 1 + if self.rng.chance(30) { self.rng.below(3) } else { 0 };
                for _ in 0..n {
                    let l = self.rng.pick(RICH_STRS).to_string();
                    self.t(&l);
                }
            }
            6 => {
                self.t("\"text\"");
                if self.rng.chance(30) {
                    self.t("\"more\\n\"");
                }
            }
            7 => {
                self.t("&");
                let n = self.ident();
                self.t(&n);
            }
            _ => self.leaf(),
        }
    }
    fn unary(&mut self, depth: usize) {
        match self.rng.below(14) {
            0 => {
                self.t("-");
                self.primary(depth)
            }
            1 if depth > 0 => {
                self.t("|");
                let n = self.ident();
                self.t(&n);
                self.t("|");
            }
            2 if depth > 0 => {
                self.t("|:");
                self.ty(1);
                self.t("|");
            }
            _ => self.primary(depth),
        }
    }
    fn singular(&mut self, depth: usize) {
        let cast = depth > 0 && self.rng.chance(5);
        if cast {
            self.t("cast");
        }
        self.unary(depth);
        if cast || (depth > 0 && self.rng.chance(8)) {
            self.t("as");
            self.ty(1);
        }
    }
    /// list of expressions closed by `close`
    fn list(&mut self, depth: usize, close: &str) {
        let n = if self.over() { 0 } else { self.rng.range(self.p.list.0, self.p.list.1) };
        for k in 0..n {
            self.expr(depth);
            if k + 1 < n || self.rng.chance(20) {
                self.t(",");
            }
        }
        self.t(close);
    }
    fn expr(&mut self, depth: usize) {
        let n = if self.over() { 1 } else { self.rng.range(self.p.chain.0, self.p.chain.1) };
        match self.rng.below(10) {
            // arithmetic chain
            0..=6 => {
                self.singular(depth);
                for _ in 1..n {
                    let op = *self.rng.pick(&["+", "-", "*", "/", "%", "+", "+"]);
                    self.t(op);
                    self.singular(depth);
                }
            }
            // bitwise chain with one operator
            7 | 8 => {
                let op = *self.rng.pick(&["&", "|", "^"]);
                self.singular(depth);
                for _ in 1..n {
                    self.t(op);
                    self.unary(depth);
                }
            }
            _ => {
                self.singular(depth);
                if n > 1 {
                    let op = *self.rng.pick(&["<<", ">>"]);
                    self.t(op);
                    self.unary(depth);
                }
            }
        }
    }
    fn comparison(&mut self, depth: usize) {
        // no structural literal may appear in a condition (the brace would open the branch)
        let save = self.p;
        self.p.depth = 0;
        self.leaf();
        let op = *self.rng.pick(&["==", "!=", "<", ">", "<=", ">="]);
        self.t(op);
        if depth > 0 && self.rng.chance(30) {
            self.leaf();
            self.t("+");
        }
        self.leaf();
        self.p = save;
    }
    fn stmt(&mut self, depth: usize) {
        let r = if depth == 0 || self.over() { self.rng.below(7) } else { self.rng.below(12) };
        match r {
            0 | 1 => {
                let v = self.fresh("v");
                self.t("var");
                self.t(&v);
                if self.rng.chance(60) {
                    self.t(":");
                    self.ty(2);
                }
                if self.rng.chance(85) {
                    self.t("=");
                    self.expr(self.p.depth.min(depth + 1));
                }
                self.t(";");
            }
            2 | 3 => {
                if self.rng.chance(20) {
                    self.t("&");
                }
                let n = self.ident();
                self.t(&n);
                if self.rng.chance(20) {
                    self.t(".");
                    let m = self.ident();
                    self.t(&m);
                }
                if self.rng.chance(15) {
                    self.t("[");
                    self.expr(0);
                    self.t("]");
                }
                self.t("=");
                self.expr(self.p.depth.min(depth + 1));
                self.t(";");
            }
            4 => {
                let f = self.ident();
                self.t(&f);
                self.t("(");
                self.list(self.p.depth.min(depth), ")");
                self.t(";");
            }
            5 => {
                self.t("goto");
                if self.rng.chance(30) {
                    self.t("return");
                } else {
                    self.t("end");
                }
                self.t(";");
            }
            6 => {
                let l = self.fresh("l");
                self.t(&l);
                self.t(":");
            }
            7 | 8 => {
                self.t("{");
                self.stmts(depth - 1);
                if self.rng.chance(40) {
                    self.t("loop");
                    self.t(";");
                }
                self.t("}");
            }
            _ => {
                self.t("if");
                self.comparison(depth);
                self.branch(depth - 1);
                if self.rng.chance(40) {
                    self.t("else");
                    if self.rng.chance(30) {
                        self.t("if");
                        self.comparison(depth);
                        self.branch(depth - 1);
                    } else {
                        self.branch(depth - 1);
                    }
                }
            }
        }
    }
    fn branch(&mut self, depth: usize) {
        if self.rng.chance(35) {
            self.t("goto");
            self.t("end");
            self.t(";");
        } else {
            self.t("{");
            self.stmts(depth);
            self.t("}");
        }
    }
    fn stmts(&mut self, depth: usize) {
        let n = self.rng.range(self.p.stmts.0, self.p.stmts.1);
        for _ in 0..n {
            if self.over() {
                break;
            }
            self.stmt(depth);
        }
    }
    fn params(&mut self, open: &str, close: &str, trailing: bool) {
        self.t(open);
        let n = self.rng.range(self.p.list.0, self.p.list.1.min(12));
        for k in 0..n {
            let p = self.fresh("p");
            self.t(&p);
            self.t(":");
            self.ty(2);
            if k + 1 < n || trailing {
                self.t(",");
            }
        }
        self.t(close);
    }
    fn decl(&mut self) {
        let kind = self.rng.weighted(&self.p.decls.to_vec());
        if kind != 5 && self.rng.chance(40) {
            self.t("pub");
        }
        match kind {
            0 | 1 => {
                if self.rng.chance(15) {
                    self.t("extern");
                }
                self.t("fn");
                let f = self.fresh("f");
                self.t(&f);
                self.params("(", ")", false);
                let has_ret = self.rng.chance(50);
                if has_ret {
                    self.t("->");
                    self.ty(1);
                }
                if kind == 1 {
                    self.t(";");
                } else {
                    self.t("{");
                    self.stmts(self.p.depth);
                    if has_ret {
                        self.t("return");
                        self.t(":");
                        self.expr(self.p.depth.min(2));
                    }
                    self.t("}");
                }
            }
            2 => {
                if self.rich && self.rng.chance(25) {
                    self.t("extern");
                }
                self.t("const");
                let c = self.fresh("C");
                self.t(&c);
                self.t(":");
                self.ty(2);
                self.t("=");
                self.expr(self.p.depth.min(3));
                self.t(";");
            }
            3 => {
                if self.rich && self.rng.chance(25) {
                    self.t("extern");
                }
                self.t("struct");
                let s = self.fresh("S");
                self.t(&s);
                if self.rng.chance(10) {
                    self.t(";");
                } else {
                    self.params("{", "}", true);
                }
            }
            4 => {
                if self.rich && self.rng.chance(25) {
                    self.t("extern");
                }
                let w = *self.rng.pick(&["word8", "word16", "word32", "word64", "word128"]);
                self.t(w);
                let s = self.fresh("W");
                self.t(&s);
                self.params("{", "}", true);
            }
            _ => {
                self.t("import");
                self.t("\"vendor/lib.pn\"");
                self.t(";");
            }
        }
    }
}

/// two more profiles for prog2: literal / string heavy expressions, and declarations of every kind with every flag
const PROFILES2: &[(&str, Profile)] = &[
    ("literals", Profile { ident_pct: 10, chain: (1, 3), list: (1, 6), stmts: (0, 6), depth: 3, decls: [4, 1, 5, 1, 1, 1], short: true, style: 0 }),
    ("flags", Profile { ident_pct: 30, chain: (1, 1), list: (0, 3), stmts: (0, 2), depth: 2, decls: [3, 4, 4, 4, 3, 2], short: true, style: 1 }),
];

pub fn gen_prog(seed: u64, i: usize) -> Input {
    gen_prog_with(seed, i, false)
}

/// The well-formed programs of `prog` with the rich pools: boundary literals, character literals and strings that need
/// escaping in a dump, multi-byte characters at both ends of a string, composite strings, names of 255..300 bytes,
/// `extern` on constants / structures / words.
pub fn gen_prog2(seed: u64, i: usize) -> Input {
    gen_prog_with(seed, i, true)
}

fn gen_prog_with(seed: u64, i: usize, rich: bool) -> Input {
    let mut rng = Rng::new(seed, if rich { 0x9B06_0000 } else { 0x9806_0000 } + i as u64);
    let (_, mut p) = if rich && i % 10 < 4 { PROFILES2[i % PROFILES2.len()] } else { PROFILES[i % PROFILES.len()] };
    if rng.chance(25) {
        p.style = rng.below(3);
    }
    let target = pick_len(&mut rng).max(16);
    // airy layouts spend up to ~12 bytes per separator
    let sep = if p.style == 2 { 12 } else { 1 };
    let mut toks: Vec<String> = Vec::new();
    let mut approx = 0usize;
    let mut names = 0usize;
    loop {
        let decl = {
            let room = (MAX_LEN - 16).saturating_sub(approx) / (sep + 3);
            let mut g = Pg { rng: &mut rng, rich, p, out: Vec::new(), names, budget: (target / 3).clamp(8, room.max(8)) };
            g.decl();
            names = g.names;
            g.out
        };
        let size: usize = decl.iter().map(|t| t.len() + sep).sum();
        if approx + size > MAX_LEN - 16 {
            if toks.is_empty() {
                continue; // a single oversized declaration: draw another one
            }
            break;
        }
        approx += size;
        toks.extend(decl);
        if approx >= target {
            break;
        }
    }
    let s = join_tokens(&toks, p.style, &mut rng);
    debug_assert!(s.len() <= MAX_LEN);
    let ntoks = toks.len();
    Input { bytes: s.into_bytes(), facts: Facts { wf: true, badlex: false, ntoks } }
}

/// One deeply nested construct inside a small well-formed module.
pub fn gen_deep(seed: u64, i: usize) -> Input {
    let mut rng = Rng::new(seed, 0xDEE9_0000 + i as u64);
    let depths = [16usize, 64, 127, 128, 256, 1000, 4000, 12000, 40000];
    let d = depths[(i / 8) % depths.len()].max(1);
    let d = if rng.chance(30) { rng.range(1, d) } else { d };
    let mut toks: Vec<String> = Vec::new();
    let mut push = |s: &str, toks: &mut Vec<String>| toks.push(s.to_string());
    match i % 8 {
        0 => {
            // ((((x))))
            for t in ["fn", "f", "(", ")", "{", "x", "="] {
                push(t, &mut toks);
            }
            for _ in 0..d {
                push("(", &mut toks);
            }
            push("x", &mut toks);
            for _ in 0..d {
                push(")", &mut toks);
            }
            push(";", &mut toks);
            push("}", &mut toks);
        }
        1 => {
            // {{{{ }}}}
            for t in ["fn", "f", "(", ")", "{"] {
                push(t, &mut toks);
            }
            for _ in 0..d {
                push("{", &mut toks);
            }
            for _ in 0..d {
                push("}", &mut toks);
            }
            push("}", &mut toks);
        }
        2 => {
            // if a == b if a == b ... goto end;   (naked ifs nest to the right; syntactically a chain of then-branches)
            for t in ["fn", "f", "(", ")", "{"] {
                push(t, &mut toks);
            }
            for _ in 0..d {
                for t in ["if", "a", "==", "b", "{"] {
                    push(t, &mut toks);
                }
            }
            for _ in 0..d {
                push("}", &mut toks);
            }
            push("}", &mut toks);
        }
        3 => {
            // &&&&i32 in a type
            for t in ["fn", "f", "(", "p", ":"] {
                push(t, &mut toks);
            }
            for _ in 0..d {
                push("&", &mut toks);
            }
            for t in ["i32", ")", ";"] {
                push(t, &mut toks);
            }
        }
        4 => {
            // [][][]u8
            for t in ["const", "C", ":"] {
                push(t, &mut toks);
            }
            for _ in 0..d {
                push("[", &mut toks);
                push("]", &mut toks);
            }
            for t in ["u8", "=", "x", ";"] {
                push(t, &mut toks);
            }
        }
        5 => {
            // f(f(f(f(x))))
            for t in ["fn", "f", "(", ")", "{", "x", "="] {
                push(t, &mut toks);
            }
            for _ in 0..d {
                push("f", &mut toks);
                push("(", &mut toks);
            }
            push("1", &mut toks);
            for _ in 0..d {
                push(")", &mut toks);
            }
            push(";", &mut toks);
            push("}", &mut toks);
        }
        6 => {
            // [[[[1]]]]
            for t in ["const", "C", ":", "i32", "="] {
                push(t, &mut toks);
            }
            for _ in 0..d {
                push("[", &mut toks);
            }
            push("1", &mut toks);
            for _ in 0..d {
                push("]", &mut toks);
            }
            push(";", &mut toks);
        }
        _ => {
            // a long flat statement list (depth of the *list*, not of the syntax)
            for t in ["fn", "f", "(", ")", "{"] {
                push(t, &mut toks);
            }
            for _ in 0..d {
                push("loop", &mut toks);
                push(";", &mut toks);
            }
            push("}", &mut toks);
        }
    }
    let style = if rng.chance(50) { 1 } else { 0 };
    let s = join_tokens(&toks, style, &mut rng);
    let wf = s.len() <= MAX_LEN;
    let mut s = s;
    truncate_at_boundary(&mut s, MAX_LEN);
    Input { bytes: s.into_bytes(), facts: Facts { wf, badlex: false, ntoks: toks.len() } }
}

// ---------------------------------------------------------------------------------------------
// corpus and mutations
// ---------------------------------------------------------------------------------------------
pub fn corpus_files(repo: &str) -> Vec<String> {
    let mut out = Vec::new();
    for dir in ["tests/samples/valid", "tests/samples/invalid", "tests/samples/unresolved", "examples", "core", "vendor"] {
        walk(&format!("{repo}/{dir}"), &mut out);
    }
    out.sort();
    out
}

fn walk(dir: &str, out: &mut Vec<String>) {
    let Ok(rd) = std::fs::read_dir(dir) else { return };
    let mut entries: Vec<_> = rd.filter_map(|e| e.ok()).collect();
    entries.sort_by_key(|e| e.path());
    for e in entries {
        let p = e.path();
        if p.is_dir() {
            walk(&p.to_string_lossy(), out);
        } else if p.extension().map(|x| x == "pn").unwrap_or(false) {
            out.push(p.to_string_lossy().to_string());
        }
    }
}

pub fn gen_mut(seed: u64, i: usize, files: &[String]) -> Input {
    let mut rng = Rng::new(seed, 0x3070_0000 + i as u64);
    if files.is_empty() {
        return gen_bytes(seed, i);
    }
    let mut v = std::fs::read(&files[i % files.len()]).unwrap_or_default();
    let n_mut = 1 + rng.below(6);
    for _ in 0..n_mut {
        if v.is_empty() {
            v.push(b' ');
        }
        let at = rng.below(v.len());
        match rng.below(12) {
            0 => v[at] ^= 1 << rng.below(8),
            1 => v[at] = rng.next() as u8,
            2 => {
                v.remove(at);
            }
            3 => v.insert(at, *rng.pick(b"(){}[];:,=&|\"'\\\0\xff\x80 \n")),
            4 => v.truncate(at),
            5 => {
                // duplicate a chunk
                let len = rng.below(64.min(v.len() - at)) + 1;
                let chunk: Vec<u8> = v[at..at + len].to_vec();
                let to = rng.below(v.len());
                for (k, b) in chunk.into_iter().enumerate() {
                    v.insert(to + k, b);
                }
            }
            6 => {
                // delete a chunk
                let len = rng.below(64.min(v.len() - at)) + 1;
                v.drain(at..at + len);
            }
            7 => {
                // splice with another file
                let other = std::fs::read(rng.pick(files)).unwrap_or_default();
                if !other.is_empty() {
                    let from = rng.below(other.len());
                    v.truncate(at);
                    v.extend_from_slice(&other[from..]);
                }
            }
            8 => {
                // delete the next separator-like byte (`,` `;` `}`): the classic "forgot the comma"
                if let Some(k) = v[at..].iter().position(|b| matches!(b, b',' | b';' | b'}' | b')')) {
                    v.remove(at + k);
                }
            }
            9 => {
                // repeat the file until it is large
                let unit = v.clone();
                let times = rng.range(2, 200);
                for _ in 0..times {
                    if v.len() + unit.len() > MAX_LEN {
                        break;
                    }
                    v.extend_from_slice(&unit);
                }
            }
            10 => {
                // swap two bytes
                let b = rng.below(v.len());
                v.swap(at, b);
            }
            _ => {
                // insert a multi-byte UTF-8 character or a broken one
                let ins: &[u8] = *rng.pick(&[&"\u{20ac}".as_bytes()[..], &[0xE2, 0x82][..], &[0xC0, 0x80][..], &"\u{1F600}".as_bytes()[..]]);
                for (k, b) in ins.iter().enumerate() {
                    v.insert(at + k, *b);
                }
            }
        }
    }
    v.truncate(MAX_LEN);
    Input { bytes: v, facts: Facts::default() }
}

// ---------------------------------------------------------------------------------------------
// descriptor -> input
// ---------------------------------------------------------------------------------------------
pub fn strs(v: &Value) -> Vec<String> {
    v.as_array().map(|a| a.iter().map(|x| x.as_str().unwrap_or("").to_string()).collect()).unwrap_or_default()
}

fn unhex(s: &str) -> Vec<u8> {
    let b = s.as_bytes();
    (0..b.len() / 2)
        .map(|k| {
            let h = |c: u8| match c {
                b'0'..=b'9' => c - b'0',
                b'a'..=b'f' => c - b'a' + 10,
                b'A'..=b'F' => c - b'A' + 10,
                _ => 0,
            };
            h(b[2 * k]) * 16 + h(b[2 * k + 1])
        })
        .collect()
}

pub fn resolve(case: &Value, corpus: &[String]) -> Input {
    let g = case["g"].as_str().unwrap_or("");
    let seed = case["seed"].as_u64().unwrap_or(1);
    let i = case["i"].as_u64().unwrap_or(0) as usize;
    match g {
        "bytes" => gen_bytes(seed, i),
        "soup" => gen_soup(seed, i, false),
        "badlex" => gen_soup(seed, i, true),
        "prog" => gen_prog(seed, i),
        "prog2" => gen_prog2(seed, i),
        "deep" => gen_deep(seed, i),
        "mut" => gen_mut(seed, i, corpus),
        "corpus" => {
            let bytes = if corpus.is_empty() { Vec::new() } else { std::fs::read(&corpus[i % corpus.len()]).unwrap_or_default() };
            Input { bytes, facts: Facts::default() }
        }
        "toks" => {
            // badstr / badchr (DeltaBuffers.tla, BadLiteral): a literal that holds a raw control character; which one
            // of U+0000..U+001F, U+007F is a function of the case (every one of them occurs over the emitted cases)
            let names = strs(&case["toks"]);
            let salt: usize = names.iter().map(|t| t.len()).sum::<usize>() + names.len();
            let toks: Vec<String> = names
                .iter()
                .enumerate()
                .map(|(k, t)| {
                    let n = (salt * 7 + k * 13) % 33;
                    let c = if n == 32 { 0x7f as char } else { n as u8 as char };
                    match t.as_str() {
                        "badstr" => match (salt + k) % 3 {
                            0 => format!("\"a{c}b\""),
                            1 => format!("\"{c}\""),
                            _ => format!("\"ab{c}\""),
                        },
                        "badchr" => format!("'{c}'"),
                        // integer literals: boundary values of every width instead of always `1` (which literal comes
                        // first in a module is a function of the case)
                        "lit" => LIT_VALUES[(salt + 5 * k) % LIT_VALUES.len()].to_string(),
                        "suf" => SUF_VALUES[(salt + 3 * k) % SUF_VALUES.len()].to_string(),
                        _ => lexeme(t),
                    }
                })
                .collect();
            let (pre, post) = context(case["ctx"].as_str().unwrap_or("top"));
            let mut s = String::from(pre);
            s.push_str(&toks.join(" "));
            s.push_str(post);
            if s.is_empty() {
                s.push(' ');
            }
            let badlex = case["badlex"].as_bool().unwrap_or(false);
            let wf = case["wf"].as_bool().unwrap_or(false);
            Input { bytes: s.into_bytes(), facts: Facts { wf, badlex, ntoks: 0 } }
        }
        "hex" => Input { bytes: unhex(case["hex"].as_str().unwrap_or("")), facts: Facts::default() },
        "cell" => {
            // a boundary cell of spec/MC_DeltaBuffersEdge.tla; what the rule knows about it travels with the descriptor
            let badlex = case["badlex"].as_bool().unwrap_or(false);
            let wf = case["wf"].as_bool().unwrap_or(false);
            Input { bytes: crate::edge::render(&case["cell"]), facts: Facts { wf, badlex, ntoks: 0 } }
        }
        _ => {
            let wf = case["wf"].as_bool().unwrap_or(false);
            let badlex = case["badlex"].as_bool().unwrap_or(false);
            Input { bytes: case["src"].as_str().unwrap_or("").as_bytes().to_vec(), facts: Facts { wf, badlex, ntoks: 0 } }
        }
    }
}

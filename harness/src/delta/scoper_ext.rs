//! EXTENSION (spec/DeltaScoper.tla): call sequences of the second generation's `TopLevelScoper`, one object per sequence.
//! {"calls": [{"op": "declare" | "use" | "member", "s": "fn" | "const" | "struct", "n": name}, ...]} ->
//! {"results": [{"t": "ok", "id": n} | {"t": "dup", "previous": loc} | {"t": "undeclared"} | {"t": "poisoned"} | {"t": "panic", "msg": ..}]}
//! A panic ends the sequence (the object may be in any state).

use penne::delta::parser::parse_node::{NodeId, U24};
use penne::delta::scoper::top_level::TopLevelScoper;
use penne::delta::scoper::{ResolutionId, ScopingError};
use serde_json::{Value, json};
use std::panic::{AssertUnwindSafe, catch_unwind};

fn number_in(debug: &str) -> u64 {
    // ResolutionId(U24(7)) / NodeId(U24(3)): the fields are private, the Debug form is the observable
    let digits: String = debug.chars().filter(|c| c.is_ascii_digit()).skip(2).collect();
    digits.parse().unwrap_or(u64::MAX)
}

fn outcome(r: Result<ResolutionId, ScopingError>) -> Value {
    match r {
        Ok(id) => json!({"t": "ok", "id": number_in(&format!("{id:?}"))}),
        Err(ScopingError::DuplicateDeclaration { previous, .. }) => json!({"t": "dup", "previous": u32::from(previous.0)}),
        Err(ScopingError::UndeclaredReference { .. }) => json!({"t": "undeclared"}),
        Err(ScopingError::Poisoned) => json!({"t": "poisoned"}),
    }
}

pub fn run(cases_path: &str, out_path: &str) {
    use std::io::Write;
    let prev = std::panic::take_hook();
    std::panic::set_hook(Box::new(|_| {}));
    let mut out = std::io::BufWriter::new(std::fs::File::create(out_path).expect("create"));
    for line in pvh::util::read_lines(cases_path) {
        let v: Value = serde_json::from_str(&line).expect("json");
        let mut scoper = TopLevelScoper::default();
        let mut results = Vec::new();
        for (i, c) in v["calls"].as_array().cloned().unwrap_or_default().iter().enumerate() {
            let loc = NodeId(U24::new(i + 1));
            let name = c["n"].as_str().unwrap_or("").to_string();
            let op = c["op"].as_str().unwrap_or("");
            let s = c["s"].as_str().unwrap_or("");
            let r = catch_unwind(AssertUnwindSafe(|| match (op, s) {
                ("declare", "fn") => scoper.declare_function(name.clone(), loc),
                ("declare", "const") => scoper.declare_constant(name.clone(), loc),
                ("declare", _) => scoper.declare_structural(name.clone(), loc),
                ("use", "fn") => scoper.use_function(&name, loc),
                ("use", "const") => scoper.use_constant(&name, loc),
                ("use", _) => scoper.use_structural(&name, loc),
                _ => scoper.declare_member_in_latest_structural(name.clone(), loc),
            }));
            match r {
                Ok(r) => results.push(outcome(r)),
                Err(e) => {
                    let msg = e.downcast_ref::<String>().cloned().or_else(|| e.downcast_ref::<&str>().map(|s| s.to_string())).unwrap_or_default();
                    results.push(json!({"t": "panic", "msg": msg}));
                    break;
                }
            }
        }
        writeln!(out, "{}", json!({"results": results})).unwrap();
    }
    std::panic::set_hook(prev);
}

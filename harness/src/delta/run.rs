//! Driving the second-generation front end through its public API, in the order
//! `delta::test_suite::compile` and `compile_to_ir_using_delta` (src/main.rs) use:
//! lex -> errors? -> tokens.as_xml -> parse -> errors? -> as_xml -> build_header -> as_xml.
//! A panic of penne is an *outcome* (caught here); aborts and stack overflows kill the process and
//! are observed by the supervisor (worker.rs).

use serde_json::{Value, json};
use std::cell::RefCell;

thread_local! {
    static LAST_PANIC: RefCell<Option<(String, String)>> = const { RefCell::new(None) };
    /// set by the worker: announce every stage on stdout so that the supervisor can say where a child died
    pub static ANNOUNCE: std::cell::Cell<bool> = const { std::cell::Cell::new(false) };
}

struct Stage(std::cell::Cell<&'static str>);
impl Stage {
    fn set(&self, s: &'static str) {
        self.0.set(s);
        if ANNOUNCE.with(|a| a.get()) {
            use std::io::Write;
            let mut o = std::io::stdout().lock();
            let _ = writeln!(o, "S {s}");
            let _ = o.flush();
        }
    }
    fn get(&self) -> &'static str {
        self.0.get()
    }
}

/// Record message and location of a panic instead of printing it.
pub fn install_panic_recorder() {
    std::panic::set_hook(Box::new(|info| {
        let msg = if let Some(s) = info.payload().downcast_ref::<&str>() {
            s.to_string()
        } else if let Some(s) = info.payload().downcast_ref::<String>() {
            s.clone()
        } else {
            "panic".to_string()
        };
        let loc = info.location().map(|l| format!("{}:{}", l.file(), l.line())).unwrap_or_else(|| "?".to_string());
        LAST_PANIC.with(|p| *p.borrow_mut() = Some((msg, loc)));
    }));
}

#[derive(Debug, Default, Clone)]
pub struct Obs {
    /// the stage that was reached: "lex", "parse", "xml", "header", "done"
    pub stage: &'static str,
    /// accepted without diagnostics
    pub ok: bool,
    pub codes: Vec<u16>,
    /// (code, line, column, span start) of the first diagnostics
    pub diags: Vec<(u16, usize, usize, usize)>,
    /// (message, file:line) of a caught panic
    pub panic: Option<(String, String)>,
    pub utf8: bool,
    pub ntok: usize,
    pub nnode: usize,
    pub ndecl: usize,
    pub hnode: usize,
    pub hdecl: usize,
    pub tok_xml_lines: usize,
    pub full_xml_lines: usize,
    pub hdr_xml_lines: usize,
    pub malformed: usize,
    pub xml_full: Option<Vec<String>>,
    pub xml_hdr: Option<Vec<String>>,
    /// header of the header: (nodes, declarations), or None if build_header panicked on its own result
    pub hh: Option<Option<(usize, usize)>>,
    pub events: Vec<String>,
}

/// Strip the checkout prefix from a panic location so that keys do not depend on PENNE_REPO.
pub fn norm_loc(loc: &str) -> String {
    match loc.find("src/delta/") {
        Some(i) => loc[i..].to_string(),
        None => match loc.find("src/") {
            Some(i) => loc[i..].to_string(),
            None => loc.to_string(),
        },
    }
}

impl Obs {
    pub fn outcome(&self) -> &'static str {
        if self.panic.is_some() {
            "panic"
        } else if self.ok {
            "accepted"
        } else {
            "rejected"
        }
    }
    /// canonical failure signature of a panic: "<file>:<line>: <message prefix>"
    pub fn panic_key(&self) -> Option<String> {
        self.panic.as_ref().map(|(m, l)| {
            let first = m.lines().next().unwrap_or("");
            let short: String = first.chars().take(90).collect();
            format!("{}: {}", norm_loc(l), short)
        })
    }
    pub fn to_json(&self, with_events: bool, with_xml: bool) -> Value {
        let mut v = json!({
            "o": self.outcome(),
            "stage": self.stage,
            "codes": self.codes,
            "utf8": self.utf8,
            "ntok": self.ntok,
            "nnode": self.nnode,
            "ndecl": self.ndecl,
            "hnode": self.hnode,
            "hdecl": self.hdecl,
            "xml": [self.tok_xml_lines, self.full_xml_lines, self.hdr_xml_lines],
        });
        if !self.diags.is_empty() {
            v["diags"] = json!(self.diags.iter().map(|d| json!([d.0, d.1, d.2, d.3])).collect::<Vec<_>>());
        }
        if self.malformed > 0 {
            v["malformed"] = json!(self.malformed);
        }
        match self.hh {
            Some(Some((n, d))) => v["hh"] = json!([n, d]),
            Some(None) => v["hh"] = json!("panic"),
            None => {}
        }
        if let Some(k) = self.panic_key() {
            v["panic"] = json!(k);
            v["panic_msg"] = json!(self.panic.as_ref().unwrap().0.chars().take(300).collect::<String>());
        }
        if with_events {
            let mut filter = std::env::var("PVH_EVFILTER").ok();
            let evmax: usize = std::env::var("PVH_EVMAX").ok().and_then(|x| x.parse().ok()).unwrap_or(usize::MAX);
            if filter.is_none() && self.events.len() > evmax {
                // a long run: keep the buffer-protocol events only
                filter = Some("tokcap,tokfull,toklen,nodecap,nodefull,nodelen,hlen".to_string());
                v["evlight"] = json!(self.events.len());
            }
            let keep = |e: &Value| match &filter {
                Some(f) => f.split(',').any(|k| e["ev"].as_str() == Some(k)),
                None => true,
            };
            let evs: Vec<Value> = self
                .events
                .iter()
                .map(|e| serde_json::from_str(e).unwrap_or(json!({"ev":"bad","raw":e})))
                .filter(|e| keep(e))
                .collect();
            v["ev"] = json!(evs);
        }
        if with_xml {
            if let Some(x) = &self.xml_full {
                v["xml_full"] = json!(x);
            }
            if let Some(x) = &self.xml_hdr {
                v["xml_hdr"] = json!(x);
            }
        }
        v
    }
}

/// Run the whole front end on `bytes`.  `keep_xml`: keep the lines of both parse-tree dumps.
pub fn run(bytes: &[u8], keep_xml: bool, record: bool) -> Obs {
    LAST_PANIC.with(|p| *p.borrow_mut() = None);
    let stage = Stage(std::cell::Cell::new("lex"));
    let partial: RefCell<Obs> = RefCell::new(Obs::default());
    if record {
        penne::verif_trace::start();
    }
    let r = std::panic::catch_unwind(std::panic::AssertUnwindSafe(|| run_inner(bytes, keep_xml, &stage, &partial)));
    let events = if record { penne::verif_trace::take() } else { Vec::new() };
    let mut o = partial.into_inner();
    o.stage = stage.get();
    o.events = events;
    if r.is_err() {
        o.ok = false;
        o.panic = Some(LAST_PANIC.with(|p| p.borrow_mut().take()).unwrap_or(("panic".to_string(), "?".to_string())));
    }
    o
}

fn run_inner(bytes: &[u8], keep_xml: bool, stage: &Stage, out: &RefCell<Obs>) {
    use penne::delta::{lexer, parser};
    let source: Option<&str> = std::str::from_utf8(bytes).ok();
    out.borrow_mut().utf8 = source.is_some();
    let tokens = lexer::lex(bytes, "case.pn");
    out.borrow_mut().ntok = tokens.base_tokens().len();
    if let Some(errors) = tokens.errors() {
        let mut o = out.borrow_mut();
        o.codes = errors.codes();
        o.diags = errors
            .errors
            .iter()
            .take(5)
            .map(|e| {
                let l = e.verif_location();
                (e.code(), l.line_number, l.line_offset, l.span.start)
            })
            .collect();
        o.ok = false;
        return;
    }
    // The XML dumps take the source as &str (src/main.rs passes the String it read); they are only
    // defined for sources that are valid UTF-8.
    if let Some(src) = source {
        stage.set("tokxml");
        let n = tokens.as_xml(src).count();
        out.borrow_mut().tok_xml_lines = n;
    }
    stage.set("parse");
    let tree = parser::parse(&tokens);
    {
        let mut o = out.borrow_mut();
        o.nnode = tree.num_parse_nodes();
        o.ndecl = tree.num_declarations();
    }
    stage.set("errors");
    if let Some(errors) = tree.errors(&tokens) {
        let mut o = out.borrow_mut();
        o.codes = errors.codes();
        o.diags = errors
            .errors
            .iter()
            .take(5)
            .map(|e| {
                let l = e.verif_location();
                (e.code(), l.line_number, l.line_offset, l.span.start)
            })
            .collect();
        o.ok = false;
        return;
    }
    if let Some(src) = source {
        stage.set("xml");
        let lines: Vec<String> = tree.as_xml(&tokens, src).collect();
        let mut o = out.borrow_mut();
        o.full_xml_lines = lines.len();
        o.malformed += lines.iter().filter(|l| l.starts_with("<MALFORMED")).count();
        if keep_xml {
            o.xml_full = Some(lines);
        }
    }
    stage.set("header");
    let header = tree.build_header();
    {
        let mut o = out.borrow_mut();
        o.hnode = header.num_parse_nodes();
        o.hdecl = header.num_declarations();
    }
    if let Some(src) = source {
        stage.set("hxml");
        let lines: Vec<String> = header.as_xml(&tokens, src).collect();
        let mut o = out.borrow_mut();
        o.hdr_xml_lines = lines.len();
        o.malformed += lines.iter().filter(|l| l.starts_with("<MALFORMED")).count();
        if keep_xml {
            o.xml_hdr = Some(lines);
        }
    }
    // The header is a parse tree without private zones: extracting its header once more must give the same buffer.
    // (Not part of any property statement: observed for MODEL-DRIFT notes only, a panic here is caught here.  The hook
    // events of this second pass are not recorded.)
    {
        let was_on = penne::verif_trace::is_on();
        let saved = if was_on { penne::verif_trace::take() } else { Vec::new() };
        let r = std::panic::catch_unwind(std::panic::AssertUnwindSafe(|| {
            let hh = header.build_header();
            (hh.num_parse_nodes(), hh.num_declarations())
        }));
        if was_on {
            let _ = penne::verif_trace::take();
            penne::verif_trace::start();
            for e in saved {
                penne::verif_trace::emit(e);
            }
        }
        out.borrow_mut().hh = Some(r.ok());
    }
    stage.set("done");
    out.borrow_mut().ok = true;
}

//! Abstract modules of spec/Header.tla: rendering to Penne source and a seeded generator of larger ones.
//! decl = {k, pub, ext, opq, name, params:[[name,type]], ret, ty, val, mem:[[name,type]], size, body:[kind], res}

use pvh::rng::Rng;
use serde_json::{Value, json};

fn strs(v: &Value) -> Vec<String> {
    v.as_array().map(|a| a.iter().map(|x| x.as_str().unwrap_or("").to_string()).collect()).unwrap_or_default()
}

/// prefix form -> source, returns the number of items consumed
fn type_src(t: &[String], out: &mut String) -> usize {
    if t.is_empty() {
        out.push_str("void");
        return 0;
    }
    let h = t[0].as_str();
    if h == "&" {
        out.push('&');
        1 + type_src(&t[1..], out)
    } else if h == "()" {
        out.push('(');
        let n = type_src(&t[1..], out);
        out.push(')');
        1 + n
    } else if h.starts_with('[') {
        out.push_str(h);
        1 + type_src(&t[1..], out)
    } else {
        out.push_str(h);
        1
    }
}

pub fn render_type(t: &[String]) -> String {
    let mut s = String::new();
    type_src(t, &mut s);
    s
}

fn expr_src(e: &[String], out: &mut String) -> usize {
    if e.is_empty() {
        return 0;
    }
    let h = e[0].as_str();
    match h {
        "+" | "-" | "*" | "/" | "%" | "&" | "|" | "^" | "<<" | ">>" => {
            let a = expr_src(&e[1..], out);
            out.push(' ');
            out.push_str(h);
            out.push(' ');
            let b = expr_src(&e[1 + a..], out);
            1 + a + b
        }
        "neg" => {
            out.push('-');
            1 + expr_src(&e[1..], out)
        }
        "not" => {
            out.push('!');
            1 + expr_src(&e[1..], out)
        }
        "()" => {
            out.push('(');
            let a = expr_src(&e[1..], out);
            out.push(')');
            1 + a
        }
        atom => {
            out.push_str(atom);
            1
        }
    }
}

pub fn render_expr(e: &[String]) -> String {
    let mut s = String::new();
    expr_src(e, &mut s);
    s
}

fn pairs_src(v: &Value, sep: &str, trailing: bool) -> String {
    let mut parts = Vec::new();
    for p in v.as_array().cloned().unwrap_or_default() {
        let name = p[0].as_str().unwrap_or("").to_string();
        parts.push(format!("{}: {}", name, render_type(&strs(&p[1]))));
    }
    let mut s = parts.join(sep);
    if trailing && !parts.is_empty() {
        s.push_str(sep.trim_end());
    }
    s
}

pub fn stmt_src(kind: &str, i: usize) -> String {
    match kind {
        "loop" => "loop;".to_string(),
        "goto" => "goto end;".to_string(),
        "var" => format!("var v{i}: i32 = 1;"),
        "call" => "f(1);".to_string(),
        "label" => "end:".to_string(),
        other => format!("{other};"),
    }
}

/// Render a module.  With `layout` > 0 the white space varies (seeded), never the token sequence.
pub fn render(decls: &[Value], layout: u64) -> String {
    let mut rng = Rng::new(layout, 77);
    let mut src = String::new();
    let nl = |rng: &mut Rng, src: &mut String| {
        if layout == 0 || rng.chance(80) {
            src.push('\n')
        } else {
            src.push(' ')
        }
    };
    for d in decls {
        let k = d["k"].as_str().unwrap_or("");
        if layout != 0 && rng.chance(20) {
            src.push_str("// a comment\n");
        }
        if d["pub"].as_bool().unwrap_or(false) {
            src.push_str("pub ");
        }
        if d["ext"].as_bool().unwrap_or(false) {
            src.push_str("extern ");
        }
        let name = d["name"].as_str().unwrap_or("");
        match k {
            "fn" | "head" => {
                src.push_str(&format!("fn {}({})", name, pairs_src(&d["params"], ", ", false)));
                let ret = strs(&d["ret"]);
                if !ret.is_empty() {
                    src.push_str(&format!(" -> {}", render_type(&ret)));
                }
                if k == "head" {
                    src.push(';');
                } else {
                    nl(&mut rng, &mut src);
                    src.push('{');
                    nl(&mut rng, &mut src);
                    for (i, s) in strs(&d["body"]).iter().enumerate() {
                        src.push('\t');
                        src.push_str(&stmt_src(s, i));
                        nl(&mut rng, &mut src);
                    }
                    let res = strs(&d["res"]);
                    if !res.is_empty() {
                        src.push_str(&format!("\treturn: {}", render_expr(&res)));
                        nl(&mut rng, &mut src);
                    }
                    src.push('}');
                }
            }
            "const" => {
                src.push_str(&format!(
                    "const {}: {} = {};",
                    name,
                    render_type(&strs(&d["ty"])),
                    render_expr(&strs(&d["val"]))
                ));
            }
            "struct" | "word" => {
                if k == "struct" {
                    src.push_str("struct ");
                } else {
                    src.push_str(&format!("word{} ", 8 * d["size"].as_u64().unwrap_or(1)));
                }
                src.push_str(name);
                if d["opq"].as_bool().unwrap_or(false) {
                    src.push(';');
                } else {
                    nl(&mut rng, &mut src);
                    src.push('{');
                    nl(&mut rng, &mut src);
                    let m = pairs_src(&d["mem"], ",\n\t", true);
                    if !m.is_empty() {
                        src.push('\t');
                        src.push_str(&m);
                        nl(&mut rng, &mut src);
                    }
                    src.push('}');
                }
            }
            "import" => {
                src.push_str(&format!("import \"{}\";", name));
            }
            other => {
                src.push_str(&format!("/* unknown declaration kind {other} */"));
            }
        }
        src.push('\n');
        if layout != 0 && rng.chance(30) {
            src.push('\n');
        }
    }
    if src.is_empty() {
        src.push('\n');
    }
    src
}

const TYPES: &[&[&str]] = &[
    &["i32"],
    &["u8"],
    &["bool"],
    &["usize"],
    &["S"],
    &["&", "i32"],
    &["[]", "u8"],
    &["&", "[]", "u8"],
    &["[4]", "i32"],
    &["[:]", "S"],
    &["&", "&", "u64"],
];
const VALUES: &[&[&str]] = &[&["1"], &["42"], &["x"], &["+", "1", "2"], &["+", "+", "1", "2", "3"], &["neg", "1"], &["*", "x", "2"], &["+", "x", "y"]];
const STMTS: &[&str] = &["loop", "goto", "var", "call"];

fn ty(rng: &mut Rng) -> Value {
    json!(rng.pick(TYPES).iter().map(|s| s.to_string()).collect::<Vec<_>>())
}

fn pairs(rng: &mut Rng, max: usize, prefix: &str) -> Value {
    let n = rng.below(max + 1);
    json!((0..n).map(|i| json!([format!("{prefix}{i}"), ty(rng)])).collect::<Vec<_>>())
}

/// A random module in the vocabulary of Header.tla, larger than the model-checked bound.
pub fn random_module(seed: u64, index: usize) -> Vec<Value> {
    let mut rng = Rng::new(seed, 0xC17_0000 + index as u64);
    // shape classes: mostly private, mostly public, mixed; private first / last; large bodies
    let class = rng.below(6);
    let n = match class {
        0 => rng.range(1, 4),
        _ => rng.range(3, 40),
    };
    let pub_pct = match class {
        1 => 0,
        2 => 100,
        3 => 85,
        4 => 15,
        _ => 50,
    };
    let big_bodies = rng.chance(35);
    let mut decls = Vec::new();
    for i in 0..n {
        let kind = rng.weighted(&[30, 15, 15, 12, 8, 8]);
        let mut is_pub = rng.chance(pub_pct);
        if i == 0 && rng.chance(30) {
            is_pub = false;
        }
        if i + 1 == n && rng.chance(30) {
            is_pub = false;
        }
        let name = format!("d{i}");
        let mut d = json!({"k": "", "pub": is_pub, "ext": false, "opq": false, "name": name, "params": [], "ret": [],
                           "ty": [], "val": [], "mem": [], "size": 0, "body": [], "res": []});
        match kind {
            0 | 1 => {
                d["k"] = json!(if kind == 0 { "fn" } else { "head" });
                d["ext"] = json!(rng.chance(20));
                d["params"] = pairs(&mut rng, 6, "p");
                if rng.chance(50) {
                    d["ret"] = ty(&mut rng);
                }
                if kind == 0 {
                    let len = if big_bodies && rng.chance(60) { rng.range(20, 120) } else { rng.below(6) };
                    d["body"] = json!((0..len).map(|_| rng.pick(STMTS).to_string()).collect::<Vec<_>>());
                    if d["ret"].as_array().map(|a| !a.is_empty()).unwrap_or(false) {
                        d["res"] = json!(rng.pick(VALUES).iter().map(|s| s.to_string()).collect::<Vec<_>>());
                    }
                }
            }
            2 => {
                d["k"] = json!("const");
                d["ext"] = json!(rng.chance(20));
                d["ty"] = ty(&mut rng);
                d["val"] = json!(rng.pick(VALUES).iter().map(|s| s.to_string()).collect::<Vec<_>>());
            }
            3 => {
                d["k"] = json!("struct");
                d["ext"] = json!(rng.chance(20));
                if rng.chance(15) {
                    d["opq"] = json!(true);
                } else {
                    d["mem"] = pairs(&mut rng, 8, "m");
                }
            }
            4 => {
                d["k"] = json!("word");
                d["ext"] = json!(rng.chance(20));
                d["size"] = json!(*rng.pick(&[1u64, 2, 4, 8, 16]));
                d["mem"] = pairs(&mut rng, 4, "m");
            }
            _ => {
                d["k"] = json!("import");
                d["pub"] = json!(false);
                d["name"] = json!(format!("lib{i}.pn"));
            }
        }
        decls.push(d);
    }
    decls
}

//! Abstract modules of spec/Header.tla: rendering to Penne source and a seeded generator of larger ones.
//! decl = {k, pub, ext, opq, name, params:[[name,type]], ret, ty, val, mem:[[name,type]], size, body:[kind], res}

use pvh::rng::Rng;
use serde_json::{Value, json};

fn strs(v: &Value) -> Vec<String> {
    v.as_array().map(|a| a.iter().map(|x| x.as_str().unwrap_or("").to_string()).collect()).unwrap_or_default()
}

/// prefix form -> source, returns the number of items consumed
fn type_src(t: &[String], out: &mut String) -> usize {
    if t.is_empty() {
        out.push_str("void");
        return 0;
    }
    let h = t[0].as_str();
    if h == "&" {
        out.push('&');
        1 + type_src(&t[1..], out)
    } else if h == "()" {
        out.push('(');
        let n = type_src(&t[1..], out);
        out.push(')');
        1 + n
    } else if h.starts_with('[') {
        out.push_str(h);
        1 + type_src(&t[1..], out)
    } else {
        out.push_str(h);
        1
    }
}

pub fn render_type(t: &[String]) -> String {
    let mut s = String::new();
    type_src(t, &mut s);
    s
}

fn expr_src(e: &[String], out: &mut String) -> usize {
    if e.is_empty() {
        return 0;
    }
    let h = e[0].as_str();
    match h {
        "+" | "-" | "*" | "/" | "%" | "&" | "|" | "^" | "<<" | ">>" => {
            let a = expr_src(&e[1..], out);
            out.push(' ');
            out.push_str(h);
            out.push(' ');
            let b = expr_src(&e[1 + a..], out);
            1 + a + b
        }
        "neg" => {
            out.push('-');
            1 + expr_src(&e[1..], out)
        }
        "not" => {
            out.push('!');
            1 + expr_src(&e[1..], out)
        }
        "()" => {
            out.push('(');
            let a = expr_src(&e[1..], out);
            out.push(')');
            1 + a
        }
        atom => {
            out.push_str(atom);
            1
        }
    }
}

pub fn render_expr(e: &[String]) -> String {
    let mut s = String::new();
    expr_src(e, &mut s);
    s
}

fn pairs_src(v: &Value, sep: &str, trailing: bool) -> String {
    let mut parts = Vec::new();
    for p in v.as_array().cloned().unwrap_or_default() {
        let name = p[0].as_str().unwrap_or("").to_string();
        parts.push(format!("{}: {}", name, render_type(&strs(&p[1]))));
    }
    let mut s = parts.join(sep);
    if trailing && !parts.is_empty() {
        s.push_str(sep.trim_end());
    }
    s
}

pub fn stmt_src(kind: &str, i: usize) -> String {
    match kind {
        "loop" => "loop;".to_string(),
        "goto" => "goto end;".to_string(),
        "var" => format!("var v{i}: i32 = 1;"),
        "call" => "f(1);".to_string(),
        "label" => "end:".to_string(),
        // statements that carry node references of their own (Block.first, If.comparison, ThenElse.then)
        "block" => format!("{{ var w{i}: i32 = 2; loop; }}"),
        "if" => format!("if v{i} == {i} {{ goto end; }}"),
        "ifelse" => format!("if v{i} != 0 goto end; else {{ f({i}); }}"),
        "set" => format!("v{i} = v{i} + 1;"),
        other => format!("{other};"),
    }
}

/// Render a module.  With `layout` > 0 the white space varies (seeded), never the token sequence.
pub fn render(decls: &[Value], layout: u64) -> String {
    let mut rng = Rng::new(layout, 77);
    let mut src = String::new();
    let nl = |rng: &mut Rng, src: &mut String| {
        if layout == 0 || rng.chance(80) {
            src.push('\n')
        } else {
            src.push(' ')
        }
    };
    for d in decls {
        let k = d["k"].as_str().unwrap_or("");
        if layout != 0 && rng.chance(20) {
            src.push_str("// a comment\n");
        }
        if d["pub"].as_bool().unwrap_or(false) {
            src.push_str("pub ");
        }
        if d["ext"].as_bool().unwrap_or(false) {
            src.push_str("extern ");
        }
        let name = d["name"].as_str().unwrap_or("");
        match k {
            "fn" | "head" => {
                src.push_str(&format!("fn {}({})", name, pairs_src(&d["params"], ", ", false)));
                let ret = strs(&d["ret"]);
                if !ret.is_empty() {
                    src.push_str(&format!(" -> {}", render_type(&ret)));
                }
                if k == "head" {
                    src.push(';');
                } else {
                    nl(&mut rng, &mut src);
                    src.push('{');
                    nl(&mut rng, &mut src);
                    for (i, s) in strs(&d["body"]).iter().enumerate() {
                        src.push('\t');
                        src.push_str(&stmt_src(s, i));
                        nl(&mut rng, &mut src);
                    }
                    let res = strs(&d["res"]);
                    if !res.is_empty() {
                        src.push_str(&format!("\treturn: {}", render_expr(&res)));
                        nl(&mut rng, &mut src);
                    }
                    src.push('}');
                }
            }
            "const" => {
                src.push_str(&format!(
                    "const {}: {} = {};",
                    name,
                    render_type(&strs(&d["ty"])),
                    render_expr(&strs(&d["val"]))
                ));
            }
            "struct" | "word" => {
                if k == "struct" {
                    src.push_str("struct ");
                } else {
                    src.push_str(&format!("word{} ", 8 * d["size"].as_u64().unwrap_or(1)));
                }
                src.push_str(name);
                if d["opq"].as_bool().unwrap_or(false) {
                    src.push(';');
                } else {
                    nl(&mut rng, &mut src);
                    src.push('{');
                    nl(&mut rng, &mut src);
                    let m = pairs_src(&d["mem"], ",\n\t", true);
                    if !m.is_empty() {
                        src.push('\t');
                        src.push_str(&m);
                        nl(&mut rng, &mut src);
                    }
                    src.push('}');
                }
            }
            "import" => {
                src.push_str(&format!("import \"{}\";", name));
            }
            other => {
                src.push_str(&format!("/* unknown declaration kind {other} */"));
            }
        }
        src.push('\n');
        if layout != 0 && rng.chance(30) {
            src.push('\n');
        }
    }
    if src.is_empty() {
        src.push('\n');
    }
    src
}

const TYPES: &[&[&str]] = &[
    &["i32"],
    &["u8"],
    &["bool"],
    &["usize"],
    &["S"],
    &["&", "i32"],
    &["[]", "u8"],
    &["&", "[]", "u8"],
    &["[4]", "i32"],
    &["[:]", "S"],
    &["&", "&", "u64"],
];
const VALUES: &[&[&str]] = &[&["1"], &["42"], &["x"], &["+", "1", "2"], &["+", "+", "1", "2", "3"], &["neg", "1"], &["*", "x", "2"], &["+", "x", "y"]];
const STMTS: &[&str] = &["loop", "goto", "var", "call"];

fn ty(rng: &mut Rng) -> Value {
    json!(rng.pick(TYPES).iter().map(|s| s.to_string()).collect::<Vec<_>>())
}

fn pairs(rng: &mut Rng, max: usize, prefix: &str) -> Value {
    let n = rng.below(max + 1);
    json!((0..n).map(|i| json!([format!("{prefix}{i}"), ty(rng)])).collect::<Vec<_>>())
}

/// A random module in the vocabulary of Header.tla, larger than the model-checked bound.
pub fn random_module(seed: u64, index: usize) -> Vec<Value> {
    let mut rng = Rng::new(seed, 0xC17_0000 + index as u64);
    // shape classes: mostly private, mostly public, mixed; private first / last; large bodies
    let class = rng.below(6);
    let n = match class {
        0 => rng.range(1, 4),
        _ => rng.range(3, 40),
    };
    let pub_pct = match class {
        1 => 0,
        2 => 100,
        3 => 85,
        4 => 15,
        _ => 50,
    };
    let big_bodies = rng.chance(35);
    let mut decls = Vec::new();
    for i in 0..n {
        let kind = rng.weighted(&[30, 15, 15, 12, 8, 8]);
        let mut is_pub = rng.chance(pub_pct);
        if i == 0 && rng.chance(30) {
            is_pub = false;
        }
        if i + 1 == n && rng.chance(30) {
            is_pub = false;
        }
        let name = format!("d{i}");
        let mut d = json!({"k": "", "pub": is_pub, "ext": false, "opq": false, "name": name, "params": [], "ret": [],
                           "ty": [], "val": [], "mem": [], "size": 0, "body": [], "res": []});
        match kind {
            0 | 1 => {
                d["k"] = json!(if kind == 0 { "fn" } else { "head" });
                d["ext"] = json!(rng.chance(20));
                d["params"] = pairs(&mut rng, 6, "p");
                if rng.chance(50) {
                    d["ret"] = ty(&mut rng);
                }
                if kind == 0 {
                    let len = if big_bodies && rng.chance(60) { rng.range(20, 120) } else { rng.below(6) };
                    d["body"] = json!((0..len).map(|_| rng.pick(STMTS).to_string()).collect::<Vec<_>>());
                    if d["ret"].as_array().map(|a| !a.is_empty()).unwrap_or(false) {
                        d["res"] = json!(rng.pick(VALUES).iter().map(|s| s.to_string()).collect::<Vec<_>>());
                    }
                }
            }
            2 => {
                d["k"] = json!("const");
                d["ext"] = json!(rng.chance(20));
                d["ty"] = ty(&mut rng);
                d["val"] = json!(rng.pick(VALUES).iter().map(|s| s.to_string()).collect::<Vec<_>>());
            }
            3 => {
                d["k"] = json!("struct");
                d["ext"] = json!(rng.chance(20));
                if rng.chance(15) {
                    d["opq"] = json!(true);
                } else {
                    d["mem"] = pairs(&mut rng, 8, "m");
                }
            }
            4 => {
                d["k"] = json!("word");
                d["ext"] = json!(rng.chance(20));
                d["size"] = json!(*rng.pick(&[1u64, 2, 4, 8, 16]));
                d["mem"] = pairs(&mut rng, 4, "m");
            }
            _ => {
                d["k"] = json!("import");
                d["pub"] = json!(false);
                d["name"] = json!(format!("lib{i}.pn"));
            }
        }
        decls.push(d);
    }
    decls
}

// ---------------------------------------------------------------------------------------------
// xmod (dimension audit): the dimensions `random_module` does not vary.  A generator of its own, so that the
// stream (and the recorded seeds) of `rmod` stay as they were.
// ---------------------------------------------------------------------------------------------
pub const XCLASSES: &[&str] = &[
    "tiny",        // 0 or 1 declaration of every kind x pub / private
    "thousand",    // 1000 small declarations, random visibility
    "alternating", // pub / private alternating 500 times
    "zones",       // one private zone at the very start / very end / covering everything / none at all
    "hugeprivate", // private functions with thousands of statements before public declarations (skip counter > 2^16)
    "hugepublic",  // public functions with thousands of statements between public declarations
    "rich",        // values, types, names and list lengths outside the model-checked vocabulary
    "flags",       // every combination of pub / extern / opaque on every kind of declaration
    "refstmts",    // statements with node references (blocks, ifs) inside public and private bodies
    "bigheader",   // 7000 public constants: the HEADER has more than 2^16 nodes (node numbers of the header cross 2^16)
];

const RICH_VALUES: &[&[&str]] = &[
    &["\"a<b&c>d\""],
    &["\"q\\\"q\""],
    &["\"it's </Value> ]]>\""],
    &["\"caf\u{e9}\""],
    &["\"\u{20ac}\""],
    &["\"one\" \"two\" \"three\""],
    &["'<'"],
    &["'&'"],
    &["'\"'"],
    &["'\\''"],
    &["'\\\\'"],
    &["[1, 2, 3]"],
    &["[]"],
    &["[[1, 2], [3, 4]]"],
    &["cast x as u8"],
    &["x as i64"],
    &["S { a: 1, b: x }"],
    &["f(1, x)"],
    &["|x|"],
    &["|:S|"],
    &["&x"],
    &["x.m"],
    &["x[1].m"],
    &["true"],
    &["0xFFu8"],
    &["340282366920938463463374607431768211455"],
    &["+", "\"s\"", "'c'"],
    &["*", "()", "+", "x", "1", "f(2)"],
    &["neg", "x.m"],
];
const RICH_TYPES: &[&[&str]] = &[
    &["i128"],
    &["char8"],
    &["[N]", "i32"],
    &["&", "[]", "&", "[4]", "S"],
    &["[4]", "[2]", "u8"],
    &["&", "&", "&", "&", "S"],
    &["[:]", "u8"],
    &["[65536]", "u8"],
];

fn dflt(name: &str) -> Value {
    json!({"k": "", "pub": false, "ext": false, "opq": false, "name": name, "params": [], "ret": [],
           "ty": [], "val": [], "mem": [], "size": 0, "body": [], "res": []})
}
fn sv(x: &[&str]) -> Value {
    json!(x.iter().map(|s| s.to_string()).collect::<Vec<_>>())
}

/// A small declaration of kind `kind` (0 fn, 1 head, 2 const, 3 struct, 4 word, 5 import).
fn small_decl(rng: &mut Rng, kind: usize, name: &str, is_pub: bool) -> Value {
    let mut d = dflt(name);
    d["pub"] = json!(is_pub);
    match kind {
        0 | 1 => {
            d["k"] = json!(if kind == 0 { "fn" } else { "head" });
            d["params"] = pairs(rng, 2, "p");
            if rng.chance(50) {
                d["ret"] = ty(rng);
            }
            if kind == 0 {
                d["body"] = json!((0..rng.below(3)).map(|_| rng.pick(STMTS).to_string()).collect::<Vec<_>>());
                if d["ret"].as_array().map(|a| !a.is_empty()).unwrap_or(false) {
                    d["res"] = sv(*rng.pick(VALUES));
                }
            }
        }
        2 => {
            d["k"] = json!("const");
            d["ty"] = ty(rng);
            d["val"] = sv(*rng.pick(VALUES));
        }
        3 => {
            d["k"] = json!("struct");
            d["mem"] = pairs(rng, 3, "m");
        }
        4 => {
            d["k"] = json!("word");
            d["size"] = json!(*rng.pick(&[1u64, 2, 4, 8, 16]));
            d["mem"] = pairs(rng, 2, "m");
        }
        _ => {
            d["k"] = json!("import");
            d["pub"] = json!(false);
            d["name"] = json!(format!("{name}.pn"));
        }
    }
    d
}

fn huge_fn(rng: &mut Rng, name: &str, is_pub: bool, stmts: usize, with_refs: bool) -> Value {
    let mut d = dflt(name);
    d["k"] = json!("fn");
    d["pub"] = json!(is_pub);
    d["params"] = pairs(rng, 3, "p");
    const K: &[&str] = &["var", "call", "loop", "goto"];
    const R: &[&str] = &["var", "block", "if", "ifelse", "set", "call", "goto"];
    // `v<i>` is declared by the `var` statement with the same index; the parser does not care
    d["body"] = json!((0..stmts).map(|_| if with_refs { rng.pick(R).to_string() } else { rng.pick(K).to_string() }).collect::<Vec<_>>());
    if rng.chance(50) {
        d["ret"] = ty(rng);
        d["res"] = sv(*rng.pick(VALUES));
    }
    d
}

/// (module, class, big).  `big`: too large for the algorithm model in TLC -- validated at rule level only.
pub fn extended_module(seed: u64, index: usize) -> (Vec<Value>, &'static str, bool) {
    let mut rng = Rng::new(seed, 0xC17E_0000 + index as u64);
    let class = XCLASSES[index % XCLASSES.len()];
    let variant = index / XCLASSES.len();
    let mut decls: Vec<Value> = Vec::new();
    let mut big = false;
    match class {
        "tiny" => {
            // variant 0: the empty module; then one declaration: kind x pub (12 shapes), repeated with other draws
            if variant > 0 {
                let v = variant - 1;
                decls.push(small_decl(&mut rng, v % 6, "only", (v / 6) % 2 == 0));
            }
        }
        "thousand" => {
            big = true;
            let pub_pct = *rng.pick(&[0usize, 10, 50, 90, 100]);
            for i in 0..1000 {
                let kind = rng.weighted(&[2, 30, 30, 15, 8, 8]);
                let p = rng.chance(pub_pct);
                decls.push(small_decl(&mut rng, kind, &format!("d{i}"), p));
            }
        }
        "alternating" => {
            big = true;
            let phase = variant % 2;
            for i in 0..1000 {
                let kind = *rng.pick(&[1usize, 2, 3, 1, 2, 0]);
                decls.push(small_decl(&mut rng, kind, &format!("d{i}"), i % 2 == phase));
            }
        }
        "zones" => {
            let n = rng.range(6, 60);
            let k = rng.range(1, n - 1);
            for i in 0..n {
                let p = match variant % 4 {
                    0 => i >= k,  // one private zone at the very start
                    1 => i < k,   // one private zone (left open) at the very end
                    2 => false,   // everything private
                    _ => true,    // no private declaration at all
                };
                let kind = rng.weighted(&[20, 15, 20, 15, 8, if p { 0 } else { 8 }]);
                decls.push(small_decl(&mut rng, kind, &format!("d{i}"), p));
            }
        }
        "hugeprivate" | "hugepublic" => {
            big = true;
            let huge_pub = class == "hugepublic";
            // ~4.5 nodes and ~4.3 tokens per statement: 5 x 4000 statements skip more than 2^16 nodes and push the
            // tokens of what follows beyond 2^16 as well
            let stmts = *rng.pick(&[4000usize, 4500, 5000]);
            let n_huge = 5;
            if rng.chance(50) {
                decls.push(small_decl(&mut rng, 2, "before", true));
            }
            for h in 0..n_huge {
                decls.push(huge_fn(&mut rng, &format!("huge{h}"), huge_pub, stmts, false));
                // what follows a huge skipped region must have its references moved by more than 2^16
                let kind = *rng.pick(&[0usize, 1, 2, 3, 4]);
                decls.push(small_decl(&mut rng, kind, &format!("after{h}"), true));
                if rng.chance(40) {
                    decls.push(small_decl(&mut rng, 2, &format!("hidden{h}"), false));
                }
            }
            let kind = *rng.pick(&[0usize, 2, 3]);
            let last_pub = rng.chance(70);
            decls.push(small_decl(&mut rng, kind, "last", last_pub));
        }
        "rich" => {
            let n = rng.range(4, 24);
            for i in 0..n {
                let p = rng.chance(55);
                let name = match rng.below(12) {
                    0 => "n".repeat(*rng.pick(&[255usize, 256, 257, 1000])),
                    1 => format!("{}_{i}", "long_name".repeat(40)),
                    _ => format!("d{i}"),
                };
                let mut d = dflt(&name);
                d["pub"] = json!(p);
                match rng.below(5) {
                    0 | 1 => {
                        d["k"] = json!("const");
                        d["ext"] = json!(rng.chance(15));
                        d["ty"] = if rng.chance(50) { sv(*rng.pick(RICH_TYPES)) } else { ty(&mut rng) };
                        d["val"] = sv(*rng.pick(RICH_VALUES));
                    }
                    2 => {
                        d["k"] = json!(if rng.chance(50) { "fn" } else { "head" });
                        d["ext"] = json!(rng.chance(15));
                        let np = *rng.pick(&[0usize, 1, 2, 40, 255, 256, 257]);
                        d["params"] = json!((0..np).map(|j| json!([format!("p{j}"), if rng.chance(30) { sv(*rng.pick(RICH_TYPES)) } else { ty(&mut rng) }])).collect::<Vec<_>>());
                        if rng.chance(60) {
                            d["ret"] = if rng.chance(50) { sv(*rng.pick(RICH_TYPES)) } else { ty(&mut rng) };
                        }
                        if d["k"] == "fn" {
                            d["body"] = json!((0..rng.below(5)).map(|_| rng.pick(STMTS).to_string()).collect::<Vec<_>>());
                            if d["ret"].as_array().map(|a| !a.is_empty()).unwrap_or(false) {
                                d["res"] = sv(*rng.pick(RICH_VALUES));
                            }
                        }
                    }
                    3 => {
                        d["k"] = json!("struct");
                        d["ext"] = json!(rng.chance(15));
                        let nm = *rng.pick(&[0usize, 1, 2, 30, 255, 256, 257]);
                        d["mem"] = json!((0..nm).map(|j| json!([format!("m{j}"), if rng.chance(30) { sv(*rng.pick(RICH_TYPES)) } else { ty(&mut rng) }])).collect::<Vec<_>>());
                    }
                    _ => {
                        d["k"] = json!("word");
                        d["size"] = json!(*rng.pick(&[1u64, 2, 4, 8, 16]));
                        d["mem"] = pairs(&mut rng, 6, "m");
                    }
                }
                decls.push(d);
            }
        }
        "bigheader" => {
            big = true;
            // `pub const d7: i32 = x;` is 8 tokens and 10 nodes
            let hidden_pct = *rng.pick(&[0usize, 3, 10]);
            for i in 0..7000 {
                let mut d = dflt(&format!("d{i}"));
                d["k"] = json!("const");
                d["pub"] = json!(!rng.chance(hidden_pct));
                d["ty"] = sv(&["i32"]);
                d["val"] = sv(if i % 3 == 0 { &["+", "x", "y"] } else { &["x"] });
                decls.push(d);
            }
            // the last declarations own lists (List.first / ListItem.next beyond 2^16 in the header)
            decls.push(small_decl(&mut rng, 3, "tail_struct", true));
            decls.push(small_decl(&mut rng, 1, "tail_head", true));
        }
        "flags" => {
            // all combinations, in a seeded order, each followed now and then by a plain declaration of the other visibility
            let mut combos: Vec<(usize, bool, bool, bool)> = Vec::new();
            for kind in 0..5 {
                for p in [false, true] {
                    for e in [false, true] {
                        combos.push((kind, p, e, false));
                        if kind == 3 {
                            combos.push((kind, p, e, true));
                        }
                    }
                }
            }
            for k in (1..combos.len()).rev() {
                let j = rng.below(k + 1);
                combos.swap(k, j);
            }
            for (i, (kind, p, e, o)) in combos.into_iter().enumerate() {
                let mut d = small_decl(&mut rng, kind, &format!("d{i}"), p);
                d["ext"] = json!(e);
                if o {
                    d["opq"] = json!(true);
                    d["mem"] = json!([]);
                }
                decls.push(d);
                if rng.chance(25) {
                    decls.push(small_decl(&mut rng, 5, &format!("lib{i}"), false));
                }
            }
        }
        _ => {
            // refstmts
            let n = rng.range(3, 12);
            for i in 0..n {
                let p = rng.chance(50);
                if rng.chance(60) {
                    let stmts = rng.range(1, 40);
                    decls.push(huge_fn(&mut rng, &format!("d{i}"), p, stmts, true));
                } else {
                    let kind = *rng.pick(&[1usize, 2, 3]);
                    decls.push(small_decl(&mut rng, kind, &format!("d{i}"), p));
                }
            }
        }
    }
    (decls, class, big)
}

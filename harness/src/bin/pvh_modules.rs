//! pvh_modules -- harness binary of the group "modules" (properties C11, C12).
#[path = "../modules/driver.rs"]
mod driver;
#[path = "../modules/graphs.rs"]
mod graphs;
#[path = "../modules/positions.rs"]
mod positions;
#[path = "../modules/perms.rs"]
mod perms;
#[path = "../modules/modsets.rs"]
mod modsets;
#[path = "../modules/splits.rs"]
mod splits;

use pvh::alpha;
use pvh::rng::Rng;
use pvh::util::{par_map, read_lines, write_lines};
use serde_json::{Value, json};

fn usage() -> ! {
    eprintln!("usage:\n  pvh_modules show <file.pn>...        compile the files as one program, print everything
  pvh_modules replay-graphs <cases.ndjson> <out.ndjson>
  pvh_modules show-graph <case-json>
  pvh_modules record-graphs <count> <seed> <out-prefix> <chunks> <max-n>
  pvh_modules replay-cells <cases.ndjson> <out.ndjson>
  pvh_modules show-cell <case-json>
  pvh_modules perm-one <seed> <index> <nperms> [verbose]
  pvh_modules record-perms <count> <seed> <out-prefix> <chunks> <nperms>
  pvh_modules replay-mods <cases.ndjson> <out.ndjson>
  pvh_modules show-mods <case-json>
  pvh_modules record-mods <count> <seed> <out-prefix> <chunks>
  pvh_modules split-one <seed> <index> <closed 0|1> [verbose]
  pvh_modules hist-one <seed> <index> [verbose]
  pvh_modules record-splits <nsplit> <nhist> <seed> <out-prefix> <chunks>");
    std::process::exit(2)
}

fn show(args: &[String]) {
    if std::env::var("PVH_LOUD").is_err() {
        alpha::install_quiet_panic_hook();
    }
    let files: Vec<(String, String)> = args
        .iter()
        .map(|p| {
            let name = std::path::Path::new(p).file_name().unwrap().to_string_lossy().to_string();
            (name, std::fs::read_to_string(p).expect("read source"))
        })
        .collect();
    if files.len() == 1 {
        let o = alpha::run_single(&files[0].1, &files[0].0, alpha::Upto::Ir, true);
        println!("{}", o.to_json());
        for e in &o.events {
            println!("  {e}");
        }
        if let Some(ir) = &o.ir {
            println!("lli: {:?}", alpha::run_lli(ir, 10));
        }
        return;
    }
    let o = driver::run_multi(&files, driver::Upto::Ir, true, true);
    println!("{}", o.to_json(false));
    for e in &o.events {
        println!("  {e}");
    }
    if let Some(ir) = &o.ir {
        if std::env::var("PVH_IR").is_ok() {
            println!("{ir}");
        }
        println!("lli: {:?}", alpha::run_lli(ir, 10));
    }
}

// ---------------------------------------------------------------------------------------------
// C11a: containment graphs
// ---------------------------------------------------------------------------------------------
fn graph_obs(g: &graphs::Graph, o: &alpha::Outcome) -> Value {
    let mut v = json!({
        "ok": o.ok,
        "stage": o.stage,
        // [code, declaration] -- line x holds declaration perm[x]
        "diags": o.diags.iter().map(|d| json!([d.code, g.perm.get(d.line.wrapping_sub(1)).copied().unwrap_or(0)])).collect::<Vec<_>>(),
    });
    if let Some(p) = &o.panic {
        v["panic"] = json!(p);
    }
    if o.silent_failure {
        v["silent"] = json!(true);
    }
    v
}

fn replay_graphs_inner(lines: &[String]) -> Vec<String> {
    par_map(lines, |_, line| {
        let case: Value = serde_json::from_str(line).expect("case json");
        let g = graphs::Graph::from_json(&case);
        let o = alpha::run_single(&g.render(), "case.pn", alpha::Upto::Resolve, false);
        graph_obs(&g, &o).to_string()
    })
}

/// Replays all cases in a child process.  If the child dies (stack overflow, segfault, abort in the code
/// under test) the cases are replayed again in smaller children down to single cases: the death of
/// the process is then the observation of that one case, not a tool error.
fn replay_graphs(args: &[String]) {
    if args.len() < 2 {
        usage();
    }
    alpha::install_quiet_panic_hook();
    if args.len() >= 3 && args[2] == "--inner" {
        write_lines(&args[1], &replay_graphs_inner(&read_lines(&args[0])));
        return;
    }
    let lines = read_lines(&args[0]);
    let results = replay_graphs_isolated(&lines, &args[1], 0);
    write_lines(&args[1], &results);
}

fn replay_graphs_isolated(lines: &[String], out_path: &str, depth: usize) -> Vec<String> {
    replay_isolated("replay-graphs", lines, out_path, depth)
}

const DIED: &str = "the compiler process died (signal / abort / stack overflow) on this input";

/// Generic form: `sub <in> <out> --inner` replays a file of cases in-process.
fn replay_isolated(sub: &str, lines: &[String], out_path: &str, depth: usize) -> Vec<String> {
    if lines.is_empty() {
        return Vec::new();
    }
    let inp = format!("{out_path}.part-{}-{depth}-{}.in", std::process::id(), lines.len());
    let outp = format!("{inp}.out");
    write_lines(&inp, lines);
    let ok = spawn_self(&[sub.to_string(), inp.clone(), outp.clone(), "--inner".to_string()]).is_ok();
    let res = if ok { read_lines(&outp) } else { Vec::new() };
    let _ = std::fs::remove_file(&inp);
    let _ = std::fs::remove_file(&outp);
    if ok && res.len() == lines.len() {
        return res;
    }
    if lines.len() == 1 {
        return vec![json!({"ok": false, "stage": "died", "diags": [], "modules": [], "panic": DIED}).to_string()];
    }
    // split: 16 parts at the top, halves below
    let parts = if depth == 0 { 16 } else { 2 };
    let size = lines.len().div_ceil(parts).max(1);
    let mut all = Vec::new();
    for chunk in lines.chunks(size) {
        all.extend(replay_isolated(sub, chunk, out_path, depth + 1));
    }
    all
}

fn show_graph(args: &[String]) {
    let case: Value = serde_json::from_str(&args[0]).expect("json");
    let g = graphs::Graph::from_json(&case);
    let src = g.render();
    for (i, l) in src.lines().enumerate() {
        println!("{:3} | {}", i + 1, l);
    }
    alpha::install_quiet_panic_hook();
    let o = alpha::run_single(&src, "case.pn", alpha::Upto::Resolve, true);
    println!("observed (diags are [code, declaration]): {}", graph_obs(&g, &o));
    for e in o.events.iter().filter(|e| e.contains("\"contain\"") || e.contains("\"depth\"")) {
        println!("  {e}");
    }
}

/// One recorded run: input (projected from the real parser), contain / depth events, outcome.
fn record_graph_one(seed: u64, i: usize, max_n: usize) -> Vec<String> {
    let mut rng = Rng::new(seed, 0xC11A_0000 + i as u64);
    let intended = graphs::random(&mut rng, max_n);
    let src = intended.render();
    let g = match graphs::project(&src) {
        Ok(g) => g,
        Err(e) => return vec![json!({"ev": "toolerror", "what": e, "src": src}).to_string()],
    };
    let mut input = g.to_json();
    input["ev"] = json!("input");
    input["prop"] = json!("C11a");
    let mut out = vec![input.to_string()];
    let o = alpha::run_single(&src, "case.pn", alpha::Upto::Resolve, true);
    for e in &o.events {
        let v: Value = match serde_json::from_str(e) {
            Ok(v) => v,
            Err(_) => continue,
        };
        match v["ev"].as_str() {
            Some("contain") => out.push(
                json!({"ev": "contain",
                       "a": graphs::node_of_name(v["container"].as_str().unwrap_or("")).unwrap_or(0),
                       "b": graphs::node_of_name(v["containee"].as_str().unwrap_or("")).unwrap_or(0),
                       "res": v["res"]})
                .to_string(),
            ),
            Some("depth") => out.push(
                json!({"ev": "depth",
                       "a": graphs::node_of_name(v["name"].as_str().unwrap_or("")).unwrap_or(0),
                       "s": v["structure"], "d": v["d"]})
                .to_string(),
            ),
            _ => (),
        }
    }
    if let Some(p) = &o.panic {
        out.push(json!({"ev": "crash", "msg": p}).to_string());
    } else {
        out.push(
            json!({"ev": "outcome", "ok": o.ok,
                   "diags": o.diags.iter().map(|d| json!({"code": d.code,
                        "node": g.perm.get(d.line.wrapping_sub(1)).copied().unwrap_or(0)})).collect::<Vec<_>>()})
            .to_string(),
        );
    }
    out
}

fn record_graphs(args: &[String]) {
    if args.len() < 5 {
        usage();
    }
    let count: usize = args[0].parse().unwrap();
    let seed: u64 = args[1].parse().unwrap();
    let prefix = &args[2];
    let chunks: usize = args[3].parse::<usize>().unwrap().max(1);
    let max_n: usize = args[4].parse().unwrap();
    alpha::install_quiet_panic_hook();
    if args.len() >= 8 && args[5] == "--range" {
        // inner form: one JSON array of lines per index
        let lo: usize = args[6].parse().unwrap();
        let hi: usize = args[7].parse().unwrap();
        let idx: Vec<usize> = (lo..hi).collect();
        let results = par_map(&idx, |_, i| json!(record_graph_one(seed, *i, max_n)).to_string());
        write_lines(prefix, &results);
        return;
    }
    let results = record_graphs_isolated(args, 0, count, seed, max_n, 0);
    let per = count.div_ceil(chunks).max(1);
    for (c, part) in results.chunks(per).enumerate() {
        let lines: Vec<String> = part.iter().flatten().cloned().collect();
        write_lines(&format!("{prefix}.{c}.ndjson"), &lines);
    }
}

/// Records the runs lo..hi in a child; if the child dies the range is split down to single runs, and a
/// run on which the compiler process dies is recorded as its input followed by a `crash` event.
fn record_graphs_isolated(args: &[String], lo: usize, hi: usize, seed: u64, max_n: usize, depth: usize) -> Vec<Vec<String>> {
    if lo >= hi {
        return Vec::new();
    }
    let tmp = format!("{}.range-{}-{lo}-{hi}", args[2], std::process::id());
    let mut a: Vec<String> = args[..5].to_vec();
    a[2] = tmp.clone();
    a.extend(["--range".to_string(), lo.to_string(), hi.to_string()]);
    let mut cmd = vec!["record-graphs".to_string()];
    cmd.extend(a);
    let ok = spawn_self(&cmd).is_ok();
    let res = if ok { read_lines(&tmp) } else { Vec::new() };
    let _ = std::fs::remove_file(&tmp);
    if ok && res.len() == hi - lo {
        return res
            .iter()
            .map(|l| serde_json::from_str::<Vec<String>>(l).expect("range output"))
            .collect();
    }
    if hi - lo == 1 {
        let mut rng = Rng::new(seed, 0xC11A_0000 + lo as u64);
        let src = graphs::random(&mut rng, max_n).render();
        return vec![match graphs::project(&src) {
            Ok(g) => {
                let mut input = g.to_json();
                input["ev"] = json!("input");
                input["prop"] = json!("C11a");
                vec![input.to_string(), json!({"ev": "crash", "msg": DIED}).to_string()]
            }
            Err(e) => vec![json!({"ev": "toolerror", "what": e, "src": src}).to_string()],
        }];
    }
    let parts = if depth == 0 { 16 } else { 2 };
    let size = (hi - lo).div_ceil(parts).max(1);
    let mut all = Vec::new();
    let mut x = lo;
    while x < hi {
        let y = (x + size).min(hi);
        all.extend(record_graphs_isolated(args, x, y, seed, max_n, depth + 1));
        x = y;
    }
    all
}

// ---------------------------------------------------------------------------------------------
// C11b: type x position cells
// ---------------------------------------------------------------------------------------------
fn cell_obs(o: &alpha::Outcome) -> Value {
    let mut v = json!({
        "ok": o.ok,
        "stage": o.stage,
        "diags": o.diags.iter().map(|d| json!([d.code, d.line])).collect::<Vec<_>>(),
    });
    if let Some(p) = &o.panic {
        v["panic"] = json!(p);
    }
    if o.silent_failure {
        v["silent"] = json!(true);
    }
    v
}

/// Compile one cell.  One file: the single-module pipeline; two files (`import:*` duplicates): the multi-module driver.
/// For the pair family every diagnostic carries the declaration it is located on: [code, line, 1 | 2 | 0].
fn cell_run(case: &Value) -> Value {
    let r = positions::render_all(case);
    if r.files.len() == 1 {
        let o = alpha::run_single(&r.files[0].1, "case.pn", alpha::Upto::Resolve, false);
        let mut v = cell_obs(&o);
        if r.first.0 > 0 {
            let which = |line: usize| if line >= r.first.0 && line <= r.first.1 { 1 } else if line >= r.second.0 && line <= r.second.1 { 2 } else { 0 };
            v["diags"] = json!(o.diags.iter().map(|d| json!([d.code, d.line, which(d.line)])).collect::<Vec<_>>());
        }
        return v;
    }
    let o = driver::run_multi(&r.files, driver::Upto::Resolve, false, true);
    let mut v = json!({
        "ok": o.ok,
        "stage": o.stage,
        "diags": o.modules.iter().flat_map(|m| m.diags.iter().map(|d| json!([d.code, d.line]))).collect::<Vec<_>>(),
    });
    if let Some(p) = &o.panic {
        v["panic"] = json!(p);
    }
    v
}

fn replay_cells(args: &[String]) {
    if args.len() < 2 {
        usage();
    }
    alpha::install_quiet_panic_hook();
    let lines = read_lines(&args[0]);
    if args.len() >= 3 && args[2] == "--inner" {
        let results = par_map(&lines, |_, line| {
            let case: Value = serde_json::from_str(line).expect("case json");
            cell_run(&case).to_string()
        });
        write_lines(&args[1], &results);
        return;
    }
    write_lines(&args[1], &replay_isolated("replay-cells", &lines, &args[1], 0));
}

fn show_cell(args: &[String]) {
    let case: Value = serde_json::from_str(&args[0]).expect("json");
    for (path, src) in &positions::render_all(&case).files {
        println!("---- {path}");
        for (i, l) in src.lines().enumerate() {
            println!("{:3} | {}", i + 1, l);
        }
    }
    alpha::install_quiet_panic_hook();
    println!("observed (diags are [code, line] or [code, line, declaration]): {}", cell_run(&case));
}

// ---------------------------------------------------------------------------------------------
// C11c: generated programs under permutations of their declarations
// ---------------------------------------------------------------------------------------------
fn perm_orders(seed: u64, i: usize, n: usize, nperms: usize) -> Vec<Vec<usize>> {
    let mut rng = Rng::new(seed, 0xC11C_8000 + i as u64);
    let mut orders: Vec<Vec<usize>> = vec![(1..=n).collect(), (1..=n).rev().collect()];
    while orders.len() < nperms.max(2) {
        orders.push(perms::shuffled(n, &mut rng));
    }
    orders.truncate(nperms.max(1));
    orders
}

/// Child process: compile and execute program i in `nperms` orders; one JSON line on stdout.
fn perm_one(args: &[String]) {
    let seed: u64 = args[0].parse().unwrap();
    let i: usize = args[1].parse().unwrap();
    let nperms: usize = args[2].parse().unwrap();
    let verbose = args.len() > 3;
    alpha::install_quiet_panic_hook();
    let p = perms::Program::generate(seed, i);
    let n = p.len();
    let identity: Vec<usize> = (1..=n).collect();
    let g = match graphs::project(&p.render(&identity)) {
        Ok(g) => g,
        Err(e) => {
            println!("{}", json!({"ev": "toolerror", "what": e, "src": p.render(&identity)}));
            return;
        }
    };
    let shared = p.shared_names(seed, i);
    let mut runs = Vec::new();
    for order in perm_orders(seed, i, n, nperms) {
        let src = p.render_shared(&order, &shared);
        if verbose {
            println!("---- order {order:?}\n{src}");
        }
        let o = alpha::run_single(&src, "case.pn", alpha::Upto::Ir, false);
        let mut run = json!({"order": order, "ok": o.ok, "out": "", "exit": -1,
                             "diags": o.diags.iter().map(|d| json!([d.code, d.line])).collect::<Vec<_>>()});
        if let Some(pn) = &o.panic {
            run["panic"] = json!(pn);
            run["ok"] = json!(false);
        }
        if let Some(ir) = &o.ir {
            match alpha::run_lli(ir, 10) {
                Ok((out, code)) => {
                    run["out"] = json!(out);
                    run["exit"] = json!(code);
                }
                Err(e) => {
                    run["out"] = json!(format!("<lli: {e}>"));
                    run["exit"] = json!(-2);
                }
            }
        }
        if verbose {
            println!("==> {run}");
        }
        runs.push(run);
    }
    let mut rec = g.to_json();
    rec["ev"] = json!("perms");
    rec["prog"] = json!(i);
    rec["seed"] = json!(seed);
    rec["runs"] = json!(runs);
    rec["shared"] = json!(shared.len());
    rec.as_object_mut().unwrap().remove("perm");
    rec.as_object_mut().unwrap().remove("ptr");
    println!("{rec}");
}

/// perm-sources <count> <seed> <nperms> <out.ndjson>: the programs of the permutation family (constants, structures and
/// functions that depend on each other, in several declaration orders) as cases of the pipeline checks (C02 / C03 / C13).
/// No verdict is attached: whatever the order, the compilation has to end in success or in a failure with a diagnostic.
fn perm_sources(args: &[String]) {
    use std::io::Write;
    let count: usize = args[0].parse().unwrap();
    let seed: u64 = args[1].parse().unwrap();
    let nperms: usize = args[2].parse().unwrap();
    let mut f = std::io::BufWriter::new(std::fs::File::create(&args[3]).expect("create"));
    for i in 0..count {
        let p = perms::Program::generate(seed, i);
        let n = p.len();
        let shared = p.shared_names(seed, i);
        for (k, order) in perm_orders(seed, i, n, nperms).iter().enumerate() {
            let src = p.render_shared(order, &shared);
            writeln!(f, "{}", json!({"id": format!("xperm{i}-{k}"), "kind": "xperm", "wasm": false,
                                     "origin": format!("permutation family {seed}/{i} order {k}"),
                                     "mods": [{"name": "perm.pn", "src": src}]})).unwrap();
        }
    }
    // every containment CYCLE of 2..5 declarations (structures only, constants only, alternating) in EVERY declaration order:
    // whatever the order, the compilation ends in a failure with a diagnostic
    fn orders(n: usize) -> Vec<Vec<usize>> {
        fn go(cur: &mut Vec<usize>, used: &mut Vec<bool>, out: &mut Vec<Vec<usize>>) {
            if cur.len() == used.len() {
                out.push(cur.clone());
                return;
            }
            for i in 0..used.len() {
                if !used[i] {
                    used[i] = true;
                    cur.push(i);
                    go(cur, used, out);
                    cur.pop();
                    used[i] = false;
                }
            }
        }
        let mut out = Vec::new();
        go(&mut Vec::new(), &mut vec![false; n], &mut out);
        out
    }
    for n in 2..=5usize {
        for flavour in ["structs", "constants", "mixed"] {
            // declaration i depends on declaration (i + 1) % n
            let decl = |i: usize| -> String {
                let j = (i + 1) % n;
                let is_struct = |k: usize| flavour == "structs" || (flavour == "mixed" && k % 2 == 0);
                match (is_struct(i), is_struct(j)) {
                    (true, true) => format!("struct Cy{i}\n{{\n\tinner: Cy{j},\n\ttag: u8,\n}}\n"),
                    (true, false) => format!("struct Cy{i}\n{{\n\tdata: [CY{j}]u8,\n}}\n"),
                    (false, true) => format!("const CY{i}: usize = |:Cy{j}| + 1;\n"),
                    (false, false) => format!("const CY{i}: usize = CY{j} + 1;\n"),
                }
            };
            for (k, order) in orders(n).iter().enumerate() {
                let mut src: String = order.iter().map(|&i| decl(i)).collect::<Vec<_>>().join("\n");
                src.push_str("\nfn main() -> i32\n{\n\treturn: 0\n}\n");
                writeln!(f, "{}", json!({"id": format!("xcycle-{flavour}-{n}-{k}"), "kind": "xcycle", "wasm": false,
                                         "origin": format!("cycle of {n} {flavour} order {order:?}"),
                                         "mods": [{"name": "cycle.pn", "src": src}]})).unwrap();
            }
        }
    }
    // the container graphs of C11 (constants and structures that contain each other, cyclic ones included, in a random
    // declaration order): twice as many as programs
    for i in 0..2 * count {
        let mut rng = Rng::new(seed, 0xC11A_0000 + i as u64);
        let g = graphs::random(&mut rng, 6);
        writeln!(f, "{}", json!({"id": format!("xgraph{i}"), "kind": "xgraph", "wasm": false,
                                 "origin": format!("container graph {seed}/{i}"),
                                 "mods": [{"name": "graph.pn", "src": g.render()}]})).unwrap();
    }
}

fn spawn_self(args: &[String]) -> Result<String, String> {
    let exe = std::env::current_exe().map_err(|e| e.to_string())?;
    let out = std::process::Command::new(exe).args(args).output().map_err(|e| e.to_string())?;
    if !out.status.success() {
        return Err(format!("child {:?}: {}", out.status, String::from_utf8_lossy(&out.stderr).chars().take(300).collect::<String>()));
    }
    Ok(String::from_utf8_lossy(&out.stdout).trim().to_string())
}

fn record_perms(args: &[String]) {
    if args.len() < 5 {
        usage();
    }
    let count: usize = args[0].parse().unwrap();
    let seed: u64 = args[1].parse().unwrap();
    let prefix = &args[2];
    let chunks: usize = args[3].parse::<usize>().unwrap().max(1);
    let nperms = &args[4];
    let idx: Vec<usize> = (0..count).collect();
    let results = par_map(&idx, |_, i| {
        match spawn_self(&["perm-one".to_string(), seed.to_string(), i.to_string(), nperms.clone()]) {
            Ok(line) if line.starts_with('{') => line,
            // the child died (abort inside LLVM, signal): that is an observation, not a tool error
            Ok(other) => json!({"ev": "perms", "prog": i, "seed": seed, "n": 0, "kind": [], "val": [], "runs": [], "died": other}).to_string(),
            Err(e) => json!({"ev": "perms", "prog": i, "seed": seed, "n": 0, "kind": [], "val": [], "runs": [], "died": e}).to_string(),
        }
    });
    let per = count.div_ceil(chunks).max(1);
    for (c, part) in results.chunks(per).enumerate() {
        write_lines(&format!("{prefix}.{c}.ndjson"), part);
    }
}

// ---------------------------------------------------------------------------------------------
// C12: module sets through expander::expand and the scoper
// ---------------------------------------------------------------------------------------------
fn replay_mods(args: &[String]) {
    if args.len() < 2 {
        usage();
    }
    alpha::install_quiet_panic_hook();
    let lines = read_lines(&args[0]);
    if args.len() >= 3 && args[2] == "--inner" {
        let results = par_map(&lines, |_, line| {
            let case: Value = serde_json::from_str(line).expect("case json");
            let mods = modsets::from_case(&case);
            modsets::observe(&mods, false).0.to_string()
        });
        write_lines(&args[1], &results);
        return;
    }
    write_lines(&args[1], &replay_isolated("replay-mods", &lines, &args[1], 0));
}

fn show_mods(args: &[String]) {
    let case: Value = serde_json::from_str(&args[0]).expect("json");
    let mods = if case.get("mods").is_some() { modsets::from_json(&case["mods"]) } else { modsets::from_case(&case) };
    let r = modsets::render(&mods, true);
    for (path, src) in &r.files {
        println!("---- {path}");
        for (i, l) in src.lines().enumerate() {
            println!("{:3} | {}", i + 1, l);
        }
    }
    alpha::install_quiet_panic_hook();
    let (obs, events) = modsets::observe(&mods, true);
    println!("observed: {obs}");
    for e in events.iter().filter(|e| e.contains("\"splice\"")) {
        println!("  {e}");
    }
}

fn record_mods_one(seed: u64, i: usize) -> Vec<String> {
    let mut rng = Rng::new(seed, 0xC12A_0000 + i as u64);
    let intended = modsets::random(&mut rng);
    let r = modsets::render(&intended, true);
    let mods = match modsets::project(&r.files) {
        Ok(m) => m,
        Err(e) => return vec![json!({"ev": "toolerror", "what": e, "files": r.files}).to_string()],
    };
    let mut out = vec![json!({"ev": "mods", "prop": "C12", "mods": modsets::to_json(&mods)}).to_string()];
    let (obs, events) = modsets::observe(&mods, true);
    for e in &events {
        if e.contains("\"ev\":\"splice\"") {
            out.push(e.clone());
        }
    }
    if let Some(p) = obs.get("panic") {
        out.push(json!({"ev": "crash", "msg": p}).to_string());
    } else {
        out.push(json!({"ev": "final", "ok": obs["ok"], "modules": obs["modules"]}).to_string());
    }
    out
}

fn record_mods(args: &[String]) {
    if args.len() < 4 {
        usage();
    }
    let count: usize = args[0].parse().unwrap();
    let seed: u64 = args[1].parse().unwrap();
    let prefix = &args[2];
    let chunks: usize = args[3].parse::<usize>().unwrap().max(1);
    alpha::install_quiet_panic_hook();
    let idx: Vec<usize> = (0..count).collect();
    let results = par_map(&idx, |_, i| record_mods_one(seed, *i));
    let per = count.div_ceil(chunks).max(1);
    for (c, part) in results.chunks(per).enumerate() {
        let lines: Vec<String> = part.iter().flatten().cloned().collect();
        write_lines(&format!("{prefix}.{c}.ndjson"), &lines);
    }
}

/// Child processes (a multi-module compile can abort inside LLVM): one JSON line on stdout.
///   split-one <seed> <i> <closed 0|1> [verbose]     spawns one grandchild per file order
///   split-run <seed> <i> <closed 0|1> <order,...>   one file order
///   hist-one <seed> <i> [verbose]
fn split_one(args: &[String]) {
    let seed: u64 = args[0].parse().unwrap();
    let i: usize = args[1].parse().unwrap();
    let closed = args[2] == "1";
    let verbose = args.len() > 3;
    alpha::install_quiet_panic_hook();
    let run_order = |order: &[usize]| -> Value {
        let o: Vec<String> = order.iter().map(|x| x.to_string()).collect();
        match spawn_self(&["split-run".to_string(), seed.to_string(), i.to_string(), args[2].clone(), o.join(",")]) {
            Ok(line) if line.starts_with('{') => serde_json::from_str(&line).expect("json of split-run"),
            Ok(other) | Err(other) => json!({"order": order, "ok": false, "out": "", "exit": -9, "diags": [], "lints": [],
                                             "died": other.chars().take(400).collect::<String>()}),
        }
    };
    println!("{}", splits::split_record(seed, i, closed, verbose, &run_order));
}

fn split_run(args: &[String]) {
    let seed: u64 = args[0].parse().unwrap();
    let i: usize = args[1].parse().unwrap();
    let closed = args[2] == "1";
    let order: Vec<usize> = args[3].split(',').map(|x| x.parse().unwrap()).collect();
    alpha::install_quiet_panic_hook();
    println!("{}", splits::split_run(seed, i, closed, &order));
}

fn hist_one(args: &[String]) {
    let seed: u64 = args[0].parse().unwrap();
    let i: usize = args[1].parse().unwrap();
    alpha::install_quiet_panic_hook();
    println!("{}", splits::hist_record(seed, i, args.len() > 2));
}

fn record_splits(args: &[String]) {
    if args.len() < 5 {
        usage();
    }
    let nsplit: usize = args[0].parse().unwrap();
    let nhist: usize = args[1].parse().unwrap();
    let seed: u64 = args[2].parse().unwrap();
    let prefix = &args[3];
    let chunks: usize = args[4].parse::<usize>().unwrap().max(1);
    // every split program in both partition modes (minimal, closed)
    let jobs: Vec<(bool, usize)> = (0..2 * nsplit).map(|i| (false, i)).chain((0..nhist).map(|i| (true, i))).collect();
    let results = par_map(&jobs, |_, (hist, i)| {
        let ev = if *hist { "hist" } else { "split" };
        let dead = |why: String| {
            let none = json!({"ok": false, "out": "", "exit": -9, "diags": [], "lints": [], "died": why.chars().take(300).collect::<String>()});
            let shared = if *hist { splits::hist_shared_structs(seed, *i) } else { Vec::new() };
            json!({"ev": ev, "prog": i, "seed": seed, "died": why, "single": none, "runs": [], "alone": none, "after": none,
                   "linked": none, "decls": [], "imports": [], "closed": false, "nmods": 0, "shared_structs": shared}).to_string()
        };
        let args: Vec<String> = if *hist {
            vec!["hist-one".to_string(), seed.to_string(), i.to_string()]
        } else {
            vec!["split-one".to_string(), seed.to_string(), (i / 2).to_string(), (i % 2).to_string()]
        };
        match spawn_self(&args) {
            Ok(line) if line.starts_with('{') => line,
            Ok(other) => dead(other),
            Err(e) => dead(e),
        }
    });
    let per = jobs.len().div_ceil(chunks).max(1);
    for (c, part) in results.chunks(per).enumerate() {
        write_lines(&format!("{prefix}.{c}.ndjson"), part);
    }
}

fn main() {
    let args: Vec<String> = std::env::args().skip(1).collect();
    if args.is_empty() {
        usage();
    }
    match args[0].as_str() {
        "show" => show(&args[1..]),
        "replay-graphs" => replay_graphs(&args[1..]),
        "show-graph" => show_graph(&args[1..]),
        "record-graphs" => record_graphs(&args[1..]),
        "replay-cells" => replay_cells(&args[1..]),
        "show-cell" => show_cell(&args[1..]),
        "perm-one" => perm_one(&args[1..]),
        "replay-mods" => replay_mods(&args[1..]),
        "show-mods" => show_mods(&args[1..]),
        "record-mods" => record_mods(&args[1..]),
        "split-one" => split_one(&args[1..]),
        "split-run" => split_run(&args[1..]),
        "hist-one" => hist_one(&args[1..]),
        "record-splits" => record_splits(&args[1..]),
        "record-perms" => record_perms(&args[1..]),
        "perm-sources" => perm_sources(&args[1..]),
        _ => usage(),
    }
}

//! pvh_types -- harness binary of the group `types` (C07 TypeRules, C08 Mutability).
use pvh::alpha;
use pvh::util::{par_map, read_lines, write_lines};
use serde_json::{Value, json};

#[path = "../types/ty.rs"]
mod ty;
#[path = "../types/c07.rs"]
mod c07;
#[path = "../types/c08.rs"]
mod c08;
#[path = "../types/ce.rs"]
mod ce;
#[path = "../types/facts.rs"]
mod facts;
#[path = "../types/gen07.rs"]
mod gen07;
/// run_single; with PVH_PREMODULE set the module is the SECOND module of a compilation (pvh::alpha::PREMODULE first)
fn run_cell_source(source: &str) -> alpha::Outcome {
    alpha::run_single(source, "case.pn", alpha::Upto::Resolve, false)
}

fn usage() -> ! {
    eprintln!(
        "usage:\n  pvh_types show <file.pn> [--ir] [--run]\n  pvh_types replay-c07 <cases.ndjson> <out.ndjson>\n  pvh_types show-c07 <cell-json>"
    );
    std::process::exit(2)
}

fn outcome_json(o: &alpha::Outcome) -> Value {
    let mut v = o.to_json();
    if let Some(p) = &o.panic {
        v["panic"] = json!(panic_signature(p));
    }
    v
}

thread_local! {
    static PANIC_AT: std::cell::RefCell<String> = const { std::cell::RefCell::new(String::new()) };
}

/// Quiet panic hook that remembers WHERE the panic was raised (file name and line), per thread.
fn install_locating_panic_hook() {
    std::panic::set_hook(Box::new(|info| {
        let at = info
            .location()
            .map(|l| format!("{}:{}", l.file().rsplit('/').next().unwrap_or(l.file()), l.line()))
            .unwrap_or_else(|| "unknown".to_string());
        PANIC_AT.with(|p| *p.borrow_mut() = at);
    }));
}

/// A stable signature of a panic: `<file>:<line>:<first words of the message>` (messages embed Debug
/// output of types and locations, so only a short alphanumeric prefix is kept).
pub fn panic_signature(msg: &str) -> String {
    let at = PANIC_AT.with(|p| p.borrow().clone());
    let m = msg.trim();
    let words: Vec<String> = m
        .split(|c: char| !c.is_ascii_alphanumeric())
        .filter(|w| !w.is_empty())
        .take(4)
        .map(|w| w.to_string())
        .collect();
    format!("{}:{}", if at.is_empty() { "unknown".to_string() } else { at }, words.join("-"))
}

fn show(args: &[String]) {
    if args.is_empty() {
        usage();
    }
    let source = std::fs::read_to_string(&args[0]).expect("read source");
    show_source(&source, args.iter().any(|a| a == "--ir" || a == "--run"), args.iter().any(|a| a == "--run"));
}

fn show_source(source: &str, with_ir: bool, run: bool) {
    install_locating_panic_hook();
    let upto = if with_ir { alpha::Upto::Ir } else { alpha::Upto::Resolve };
    let o = alpha::run_single(source, "case.pn", upto, false);
    for (i, l) in source.lines().enumerate() {
        println!("{:3} | {}", i + 1, l);
    }
    println!("outcome={}", o.to_json());
    if run {
        if let Some(ir) = &o.ir {
            println!("lli: {:?}", alpha::run_lli(ir, 10));
        }
    }
}

/// Debugging aid: run the stages by hand and print the poisons that survive each one.
fn stages(args: &[String]) {
    use penne::alpha::{analyzer, expander, resolver, scoper, typer};
    let source = std::fs::read_to_string(&args[0]).expect("read source");
    let declarations = alpha::parse(&source, "case.pn");
    let declarations = expander::expand_one("case.pn", declarations);
    let mut declarations = scoper::analyze(declarations);
    declarations.sort_by_key(|x| scoper::get_container_depth(x, u32::MAX));
    let mut typer = typer::Typer::default();
    let mut analyzer = analyzer::Analyzer::default();
    for d in &declarations {
        typer.forward_declare_structure(d);
    }
    let declarations: Vec<_> = declarations.into_iter().map(|x| typer.declare(x)).collect();
    for d in &declarations {
        analyzer.declare(d);
    }
    let grep = args.get(1).cloned().unwrap_or_else(|| "Poison".to_string());
    let dump = |stage: &str, d: &penne::alpha::common::Declaration| {
        let text = format!("{d:#?}");
        for (i, l) in text.lines().enumerate() {
            if l.contains(&grep) {
                println!("[{stage}] {i}: {}", l.trim());
            }
        }
    };
    for d in declarations {
        let d = typer.analyze(d);
        dump("typer", &d);
        let d = analyzer.analyze(d);
        dump("analyzer", &d);
        match resolver::resolve(d) {
            Ok(_) => println!("[resolver] ok"),
            Err(e) => println!("[resolver] codes {:?}", e.codes()),
        }
    }
}

fn replay_c07(args: &[String]) {
    if args.len() < 2 {
        usage();
    }
    let lines = read_lines(&args[0]);
    install_locating_panic_hook();
    let results = par_map(&lines, |i, line| {
        let case: Value = serde_json::from_str(line).expect("case json");
        let cell = c07::Cell::from_json(&case["c"]);
        let r = c07::render(&cell);
        let o = run_cell_source(&r.source);
        let mut v = outcome_json(&o);
        v["i"] = json!(i);
        v["line"] = json!(r.line);
        v["pre_line"] = json!(r.pre_line);
        v["key"] = json!(cell.key());
        v.to_string()
    });
    write_lines(&args[1], &results);
}

fn codes_json(diags: &[alpha::Diag]) -> Value {
    json!(diags.iter().map(|d| json!([d.code, d.line])).collect::<Vec<_>>())
}

fn pn_files(dir: &str, out: &mut Vec<String>) {
    let Ok(rd) = std::fs::read_dir(dir) else { return };
    let mut entries: Vec<_> = rd.filter_map(|e| e.ok()).map(|e| e.path()).collect();
    entries.sort();
    for p in entries {
        if p.is_dir() {
            pn_files(p.to_str().unwrap(), out);
        } else if p.extension().map(|e| e == "pn").unwrap_or(false) {
            out.push(p.to_str().unwrap().to_string());
        }
    }
}

/// One recorded unit: trace lines and (id, source) pairs for the side file.
struct Recorded {
    lines: Vec<String>,
    sources: Vec<String>,
}

fn record_generated(seed: u64, i: usize, statements: usize, mutants: usize) -> Recorded {
    let mut g = gen07::Gen::new(seed, i as u64);
    let program = g.program(statements, 3);
    // a SECOND function with a body of its own (same function heads), before `t` in every other module
    let mut g2 = gen07::Gen::new(seed ^ 0x2F2F, i as u64);
    g2.funcs = program.funcs.clone();
    let second = g2.program((statements / 2).max(3), 3);
    let second_first = i % 2 == 1;
    let (source, _, _) = program.render_module(Some(&second), second_first);
    let mut lines = Vec::new();
    let mut sources = vec![json!({"id": i, "mut": -1, "source": source}).to_string()];
    let r = facts::resolve_source(&source, "gen.pn");
    let mut rec = json!({"ev": "prog", "kind": "gen", "id": i, "name": format!("gen-{seed}-{i}"), "ok": r.ok, "codes": codes_json(&r.diags)});
    if let Some(p) = &r.panic {
        rec["panic"] = json!(panic_signature(p));
    }
    if r.silent {
        rec["silent"] = json!(true);
    }
    lines.push(rec.to_string());
    if r.ok {
        let mut w = facts::Walker::new();
        w.walk(&r.declarations);
        for f in w.facts {
            let mut f = f;
            f["id"] = json!(i);
            lines.push(f.to_string());
        }
    }
    let nsites = gen07::count_sites(&program, &g.vars);
    let nsites2 = gen07::count_sites(&second, &g2.vars);
    let mut rng = pvh::rng::Rng::new(seed ^ 0x5151, i as u64);
    for k in 0..mutants {
        // every third mutant edits the second function
        let in_second = k % 3 == 2;
        let (msource, line, m) = if in_second {
            let target = rng.below(nsites2.max(1));
            let Some(m) = gen07::mutate(&second, &g2.vars, target, &mut rng) else { continue };
            let (msource, _, (at, ret_line)) = program.render_module(Some(&m.program), second_first);
            let line = if m.stmt < at.len() { at[m.stmt] } else { ret_line };
            (msource, line, m)
        } else {
            let target = rng.below(nsites.max(1));
            let Some(m) = gen07::mutate(&program, &g.vars, target, &mut rng) else { continue };
            let (msource, (at, ret_line), _) = m.program.render_module(Some(&second), second_first);
            let line = if m.stmt < at.len() { at[m.stmt] } else { ret_line };
            (msource, line, m)
        };
        let o = alpha::run_single(&msource, "mut.pn", alpha::Upto::Resolve, false);
        let at_line: Vec<u16> = o.diags.iter().filter(|d| d.line == line).map(|d| d.code).collect();
        let place = if in_second { if second_first { "u-before-t" } else { "u-after-t" } } else if second_first { "t-after-u" } else { "t-before-u" };
        let mut rec = json!({"ev": "mut", "id": i, "mut": k, "edit": m.edit, "c": m.cell.to_json(), "key": m.cell.key(), "line": line,
                             "fn": place, "ok": o.ok, "codes": at_line, "all": codes_json(&o.diags)});
        if let Some(p) = &o.panic {
            rec["panic"] = json!(panic_signature(p));
        }
        if o.silent_failure {
            rec["silent"] = json!(true);
        }
        lines.push(rec.to_string());
        sources.push(json!({"id": i, "mut": k, "source": msource}).to_string());
    }
    Recorded { lines, sources }
}

fn record_corpus_file(path: &str, id: usize) -> Recorded {
    let source = std::fs::read_to_string(path).unwrap_or_default();
    let r = facts::resolve_source(&source, "corpus.pn");
    let mut rec = json!({"ev": "prog", "kind": "corpus", "id": id, "name": path, "ok": r.ok, "codes": codes_json(&r.diags)});
    if let Some(p) = &r.panic {
        rec["panic"] = json!(panic_signature(p));
    }
    if r.silent {
        rec["silent"] = json!(true);
    }
    let mut lines = vec![rec.to_string()];
    if r.ok {
        let mut w = facts::Walker::new();
        w.walk(&r.declarations);
        for f in w.facts {
            let mut f = f;
            f["id"] = json!(id);
            lines.push(f.to_string());
        }
        if w.unprojected > 0 {
            lines.push(json!({"ev": "note", "id": id, "unprojected": w.unprojected}).to_string());
        }
    }
    Recorded { lines, sources: vec![json!({"id": id, "mut": -1, "source": path}).to_string()] }
}

/// record-c07 <count> <seed> <out-prefix> <chunks> <statements> <mutants> [corpus dirs...]
fn record_c07(args: &[String]) {
    if args.len() < 6 {
        usage();
    }
    let count: usize = args[0].parse().unwrap();
    let seed: u64 = args[1].parse().unwrap();
    let prefix = &args[2];
    let chunks: usize = args[3].parse::<usize>().unwrap().max(1);
    let statements: usize = args[4].parse().unwrap();
    let mutants: usize = args[5].parse().unwrap();
    install_locating_panic_hook();
    let mut corpus = Vec::new();
    for d in &args[6..] {
        pn_files(d, &mut corpus);
    }
    enum Job {
        Gen(usize),
        Corpus(usize, String),
    }
    let mut jobs: Vec<Job> = (0..count).map(Job::Gen).collect();
    for (i, f) in corpus.into_iter().enumerate() {
        jobs.push(Job::Corpus(1_000_000 + i, f));
    }
    let results = par_map(&jobs, |_, j| match j {
        Job::Gen(i) => record_generated(seed, *i, statements, mutants),
        Job::Corpus(id, f) => record_corpus_file(f, *id),
    });
    let per = results.len().div_ceil(chunks).max(1);
    let mut sources = Vec::new();
    for (c, part) in results.chunks(per).enumerate() {
        let mut lines = Vec::new();
        for r in part {
            lines.extend(r.lines.iter().cloned());
            sources.extend(r.sources.iter().cloned());
        }
        write_lines(&format!("{prefix}.{c}.ndjson"), &lines);
    }
    write_lines(&format!("{prefix}.sources.ndjson"), &sources);
}

/// show-gen <seed> <i> <statements> [target]: print a generated program (or its mutant at a site)
fn show_gen(args: &[String]) {
    let seed: u64 = args[0].parse().unwrap();
    let i: usize = args[1].parse().unwrap();
    let statements: usize = args[2].parse().unwrap();
    let mut g = gen07::Gen::new(seed, i as u64);
    let program = g.program(statements, 3);
    let (source, _, _) = program.render();
    println!("sites: {}", gen07::count_sites(&program, &g.vars));
    if let Some(t) = args.get(3) {
        let mut rng = pvh::rng::Rng::new(7, 7);
        if let Some(m) = gen07::mutate(&program, &g.vars, t.parse().unwrap(), &mut rng) {
            let (ms, at, rl) = m.program.render();
            println!("edit {} cell {} line {}", m.edit, m.cell.key(), if m.stmt < at.len() { at[m.stmt] } else { rl });
            show_source(&ms, false, false);
            return;
        }
    }
    show_source(&source, false, false);
}

fn replay_c08(args: &[String]) {
    if args.len() < 2 {
        usage();
    }
    let lines = read_lines(&args[0]);
    install_locating_panic_hook();
    let results = par_map(&lines, |i, line| {
        let case: Value = serde_json::from_str(line).expect("case json");
        let cell = c08::Cell::from_case(&case);
        let r = c08::render(&cell);
        let o = run_cell_source(&r.source);
        let mut v = outcome_json(&o);
        v["i"] = json!(i);
        v["line"] = json!(r.line);
        v["pre_line"] = json!(r.pre_line);
        v["key"] = json!(cell.key());
        v.to_string()
    });
    write_lines(&args[1], &results);
}

fn show_c08(args: &[String]) {
    let case: Value = serde_json::from_str(&args[0]).expect("json");
    let cell = c08::Cell::from_case(&case);
    let r = c08::render(&cell);
    println!("cell: {}   (construct on line {}, illegal neighbour on line {})", cell.key(), r.line, r.pre_line);
    show_source(&r.source, false, false);
}

/// exec-one: source on stdin -> {"ir": bool, "stdout": .., "status": ..} (compile may abort the process)
fn exec_one() {
    use std::io::Read;
    let mut source = String::new();
    std::io::stdin().read_to_string(&mut source).expect("stdin");
    install_locating_panic_hook();
    let o = alpha::run_single(&source, "case.pn", alpha::Upto::Ir, false);
    let mut v = outcome_json(&o);
    if let Some(ir) = &o.ir {
        match alpha::run_lli(ir, 10) {
            Ok((stdout, status)) => {
                v["stdout"] = json!(stdout);
                v["status"] = json!(status);
            }
            Err(e) => v["lli_error"] = json!(e),
        }
    }
    println!("{v}");
}

fn exec_in_child(source: &str) -> Value {
    use std::io::Write;
    use std::process::{Command, Stdio};
    let exe = std::env::current_exe().expect("current exe");
    let mut child = Command::new(exe).arg("exec-one").stdin(Stdio::piped()).stdout(Stdio::piped()).stderr(Stdio::piped()).spawn().expect("spawn child");
    child.stdin.as_mut().unwrap().write_all(source.as_bytes()).expect("write child");
    drop(child.stdin.take());
    let out = child.wait_with_output().expect("wait child");
    let text = String::from_utf8_lossy(&out.stdout).to_string();
    match serde_json::from_str::<Value>(text.trim()) {
        Ok(v) if out.status.success() => v,
        _ => {
            let err = String::from_utf8_lossy(&out.stderr).to_string();
            let first = err.lines().find(|l| !l.trim().is_empty()).unwrap_or("").to_string();
            json!({"crash": true, "status": out.status.code(), "stderr": first})
        }
    }
}

/// run-ce <cases.ndjson> <out.ndjson>: compile every program of the CallEffects family; execute the accepted ones
fn run_ce(args: &[String]) {
    if args.len() < 2 {
        usage();
    }
    let lines = read_lines(&args[0]);
    install_locating_panic_hook();
    let results = par_map(&lines, |i, line| {
        let case: Value = serde_json::from_str(line).expect("case json");
        let ps = ce::params(&case);
        let pv = ce::variant(&case);
        let source = ce::render_pv(&ps, &pv);
        let o = alpha::run_single(&source, "case.pn", alpha::Upto::Resolve, false);
        let mut v = json!({"ev": "run", "i": i, "key": ce::key_pv(&ps, &pv), "prog": case["prog"], "pv": pv, "ok": o.ok,
                           "codes": o.diags.iter().map(|d| d.code).collect::<Vec<_>>()});
        if let Some(p) = &o.panic {
            v["panic"] = json!(panic_signature(p));
        }
        if o.silent_failure {
            v["silent"] = json!(true);
        }
        if o.ok {
            let r = exec_in_child(&source);
            if r.get("crash").is_some() {
                v["crash"] = json!(format!("{}", r["stderr"].as_str().unwrap_or("")));
                v["lines"] = json!([]);
            } else {
                let stdout = r["stdout"].as_str().unwrap_or("");
                let parsed: Vec<Value> = stdout.lines().map(|l| ce::parse_line(l).map(|x| json!(x)).unwrap_or(json!([]))).collect();
                v["lines"] = json!(parsed);
                v["status"] = r["status"].clone();
                if r.get("panic").is_some() {
                    v["panic"] = r["panic"].clone();
                }
            }
        } else {
            v["lines"] = json!([]);
        }
        v.to_string()
    });
    write_lines(&args[1], &results);
}

/// gen-ce <count> <seed> <out.ndjson>: random programs of the CallEffects family with 3..4 parameters
/// (beyond the exhaustive bound of MC_CallEffects); the address markers are the needed ones, or one off.
fn gen_ce(args: &[String]) {
    let count: usize = args[0].parse().unwrap();
    let seed: u64 = args[1].parse().unwrap();
    let kinds = ["value", "word", "aview", "sview", "sptr", "ptr", "pptr"];
    let ways = ["none", "read", "copy", "write", "forward"];
    let mut lines = Vec::new();
    for i in 0..count {
        let mut rng = pvh::rng::Rng::new(seed ^ 0xCE, i as u64);
        let n = rng.range(3, 4);
        let mut prog = Vec::new();
        for _ in 0..n {
            let kd = *rng.pick(&kinds);
            let needed = match kd {
                "sptr" | "ptr" => 1,
                "pptr" => 2,
                _ => 0,
            };
            // mostly legal ways so that most programs are executed
            let way = if kd == "aview" && rng.chance(15) {
                // hand the view on to an extern function taking `&[]i32` (must be rejected)
                if rng.chance(50) { "xfwd" } else { "xfwdamp" }
            } else if rng.chance(70) {
                match kd {
                    "sptr" | "ptr" | "pptr" => *rng.pick(&ways),
                    _ => *rng.pick(&ways[..3]),
                }
            } else {
                *rng.pick(&ways)
            };
            let amp = if rng.chance(92) { needed } else { rng.below(3) };
            let sc = *rng.pick(&ty::STMT_CONTEXTS);
            prog.push(json!({"kd": kd, "way": way, "amp": amp, "sc": sc}));
        }
        // (a generator of its own, so that the draws above stay what they were) the program variant
        let mut vrng = pvh::rng::Rng::new(seed ^ 0xCE7, i as u64);
        let pv = if vrng.chance(40) { *vrng.pick(&["mainfirst", "twice", "mainfirst_twice"]) } else { "" };
        lines.push(json!({"prog": prog, "pv": pv}).to_string());
    }
    write_lines(&args[2], &lines);
}

fn show_ce(args: &[String]) {
    let case: Value = serde_json::from_str(&args[0]).expect("json");
    let ps = ce::params(&case);
    let pv = ce::variant(&case);
    let source = ce::render_pv(&ps, &pv);
    println!("program: {}", ce::key_pv(&ps, &pv));
    show_source(&source, false, false);
    let r = exec_in_child(&source);
    println!("execution: {r}");
}

fn show_c07(args: &[String]) {
    if args.is_empty() {
        usage();
    }
    let case: Value = serde_json::from_str(&args[0]).expect("json");
    let cell = c07::Cell::from_json(if case.get("c").is_some() { &case["c"] } else { &case });
    let r = c07::render(&cell);
    println!("cell: {}   (construct on line {}, ill-typed neighbour on line {})", cell.key(), r.line, r.pre_line);
    show_source(&r.source, false, false);
}

fn main() {
    let args: Vec<String> = std::env::args().skip(1).collect();
    if args.is_empty() {
        usage();
    }
    match args[0].as_str() {
        "show" => show(&args[1..]),
        "stages" => stages(&args[1..]),
        "replay-c07" => replay_c07(&args[1..]),
        "show-c07" => show_c07(&args[1..]),
        "record-c07" => record_c07(&args[1..]),
        "replay-c08" => replay_c08(&args[1..]),
        "exec-one" => exec_one(),
        "run-ce" => run_ce(&args[1..]),
        "gen-ce" => gen_ce(&args[1..]),
        "show-ce" => show_ce(&args[1..]),
        "show-c08" => show_c08(&args[1..]),
        "show-gen" => show_gen(&args[1..]),
        _ => usage(),
    }
}

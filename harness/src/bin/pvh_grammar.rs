//! pvh_grammar -- harness of the `grammar` group (C16: faithful parse tree, C20: rebuild round trip).
//!
//!   replay CASES OUT K SEED       every TLC-derived module in K layouts through both parsers
//!   roundtrip CASES OUT SEED      parse -> rebuild -> parse -> rebuild (first generation)
//!   record CASES OUT K SEED       token stream of the real delta lexer + preorder of the real delta tree
//!   corpus LIST OUT               the same observations for source files
//!   show CASE LAYOUT SEED         human-readable replay of one case
//!   render / project-delta / project-alpha / rebuild   single-file helpers
#[path = "../grammar/alphaproj.rs"]
mod alphaproj;
#[path = "../grammar/caseline.rs"]
mod caseline;
#[path = "../grammar/flatten.rs"]
mod flatten;
#[path = "../grammar/pstr.rs"]
mod pstr;
#[path = "../grammar/render.rs"]
mod render;
#[path = "../grammar/xml.rs"]
mod xml;

use penne::alpha::rebuilder::{Indentation, rebuild};
use penne::delta::lexer::BaseToken;
use pvh::util::{par_map, read_lines, write_lines};
use serde_json::{Value, json};
use std::cell::RefCell;

thread_local! {
    static LAST_PANIC: RefCell<String> = const { RefCell::new(String::new()) };
}

fn install_panic_hook() {
    std::panic::set_hook(Box::new(|info| {
        let msg = if let Some(s) = info.payload().downcast_ref::<&str>() {
            s.to_string()
        } else if let Some(s) = info.payload().downcast_ref::<String>() {
            s.clone()
        } else {
            "panic".to_string()
        };
        let loc = info.location().map(|l| format!("{}:{}", l.file(), l.line())).unwrap_or_default();
        LAST_PANIC.with(|p| *p.borrow_mut() = format!("{msg} @ {loc}"));
    }));
}

fn caught<T>(f: impl FnOnce() -> T + std::panic::UnwindSafe) -> Result<T, String> {
    match std::panic::catch_unwind(f) {
        Ok(v) => Ok(v),
        Err(_) => Err(LAST_PANIC.with(|p| p.borrow().clone())),
    }
}

// ---------------------------------------------------------------------------------------------
// second generation
// ---------------------------------------------------------------------------------------------
fn delta_token_list(tokens: &penne::delta::lexer::tokens::Tokens, src: &str) -> Vec<Value> {
    let base = tokens.base_tokens();
    let mut out = Vec::new();
    if base.is_empty() {
        return out;
    }
    let mut id = tokens.first_token_id();
    for (i, t) in base.iter().enumerate() {
        if i > 0 {
            tokens.advance(&mut id);
        }
        if *t == BaseToken::EndOfSource {
            continue;
        }
        let span = tokens.get_location(id).span;
        let text = src.get(span).unwrap_or("?");
        let vap = tokens.get_value_type_and_payload(id);
        let payload = tokens.get_integer_payload(vap.payload_id());
        use BaseToken::*;
        let v = match t {
            Fn | Var | Const | If | Goto | Loop | Return | Else | Cast | As | Import | Pub | Extern | Struct | Word8 | Word16 | Word32 | Word64
            | Word128 => json!({"k": "kw", "s": text}),
            ValueTypeKeyword => json!({"k": "ty", "s": text}),
            Identifier => json!({"k": "id", "s": text}),
            Builtin => json!({"k": "bi", "s": text.trim_end_matches('!')}),
            NakedDecimal | BitInteger => json!({"k": "int", "v": payload.map(|p| p.to_string()), "suffix": ""}),
            SuffixedInteger => {
                let ty = format!("{:?}", vap.value_type());
                json!({"k": "int", "v": payload.map(|p| p.to_string()), "suffix": xml::prim_name(&ty).unwrap_or("?")})
            }
            CharLiteral => json!({"k": "char", "v": payload.map(|p| p as u64)}),
            BoolLiteral => json!({"k": "bool", "v": payload == Some(1)}),
            StringLiteral => {
                let inner = if text.len() >= 2 { &text[1..text.len() - 1] } else { "" };
                match pstr::decode(inner) {
                    Ok(b) => json!({"k": "str", "bytes": b}),
                    Err(e) => json!({"k": "str", "undecodable": e}),
                }
            }
            Error => json!({"k": "error", "s": text}),
            EndOfSource => unreachable!(),
            _ => json!({"k": "p", "s": text}),
        };
        out.push(v);
    }
    out
}

/// lex -> parse -> errors -> as_xml -> projection.  `want_tokens`/`want_xml` add the raw observations.
fn run_delta(src: &str, want_tokens: bool, want_xml: bool) -> Value {
    let src_owned = src.to_string();
    let r = caught(move || {
        let src = src_owned.as_str();
        let mut out = json!({});
        let tokens = penne::delta::lexer::lex(src.as_bytes(), "m.pn");
        if want_tokens {
            out["toks"] = Value::Array(delta_token_list(&tokens, src));
        }
        if let Some(errors) = tokens.errors() {
            out["o"] = json!("rejected");
            out["stage"] = json!("lex");
            out["codes"] = json!(errors.codes());
            return out;
        }
        LAST_PANIC.with(|p| *p.borrow_mut() = String::new());
        let tree = match std::panic::catch_unwind(|| penne::delta::parser::parse(&tokens)) {
            Ok(t) => t,
            Err(_) => {
                out["o"] = json!("panic");
                out["stage"] = json!("parse");
                out["panic"] = json!(LAST_PANIC.with(|p| p.borrow().clone()));
                return out;
            }
        };
        if let Some(errors) = tree.errors(&tokens) {
            out["o"] = json!("rejected");
            out["stage"] = json!("parse");
            out["codes"] = json!(errors.codes());
            return out;
        }
        let lines: Vec<String> = match std::panic::catch_unwind(std::panic::AssertUnwindSafe(|| tree.as_xml(&tokens, src).collect())) {
            Ok(l) => l,
            Err(_) => {
                out["o"] = json!("panic");
                out["stage"] = json!("xml");
                out["panic"] = json!(LAST_PANIC.with(|p| p.borrow().clone()));
                return out;
            }
        };
        if want_xml {
            out["xml"] = json!(lines);
        }
        let doc = xml::read(&lines);
        let mut proj = xml::DeltaProj::new();
        let t = proj.module(&doc.root);
        let mut wf = doc.issues;
        wf.extend(proj.issues);
        wf.sort();
        wf.dedup();
        out["o"] = json!("ok");
        out["tree"] = t;
        out["wf"] = json!(wf);
        out
    });
    match r {
        Ok(v) => v,
        Err(msg) => json!({"o": "panic", "stage": "lex", "panic": msg}),
    }
}

// ---------------------------------------------------------------------------------------------
// first generation
// ---------------------------------------------------------------------------------------------
fn alpha_parse(src: &str) -> Vec<penne::alpha::common::Declaration> {
    let tokens = penne::alpha::lexer::lex(src, "m.pn");
    penne::alpha::parser::parse(tokens)
}

fn alpha_project(decls: &[penne::alpha::common::Declaration]) -> Value {
    let mut p = alphaproj::AlphaProj::new();
    let t = p.module(decls);
    if !p.codes.is_empty() {
        return json!({"o": "rejected", "codes": p.codes});
    }
    let mut out = json!({"o": "ok", "tree": t});
    if !p.issues.is_empty() {
        out["issues"] = json!(p.issues);
    }
    out
}

fn run_alpha(src: &str) -> Value {
    let s = src.to_string();
    match caught(move || alpha_project(&alpha_parse(&s))) {
        Ok(v) => v,
        Err(msg) => json!({"o": "panic", "panic": msg}),
    }
}

const INDENT: Indentation = Indentation { value: "\t", amount: 0 };

/// parse -> rebuild -> parse -> rebuild
fn run_roundtrip(src: &str) -> Value {
    let s = src.to_string();
    let r = caught(move || {
        let d0 = alpha_parse(&s);
        let p0 = alpha_project(&d0);
        if p0["o"] != "ok" {
            return json!({"o": "rejected0", "codes": p0["codes"]});
        }
        let text1 = match rebuild(&d0, &INDENT) {
            Ok(t) => t,
            Err(e) => return json!({"o": "rebuild-failed", "error": e.to_string(), "t0": p0["tree"]}),
        };
        let d1 = alpha_parse(&text1);
        let p1 = alpha_project(&d1);
        let mut out = json!({"o": "ok", "t0": p0["tree"], "text1": text1});
        if p1["o"] != "ok" {
            out["o"] = json!("rejected1");
            out["codes"] = p1["codes"].clone();
            return out;
        }
        if p1["tree"] == p0["tree"] {
            out["t1"] = json!("=t0");
        } else {
            out["t1"] = p1["tree"].clone();
        }
        match rebuild(&d1, &INDENT) {
            Ok(text2) => {
                if text2 == text1 {
                    out["stable"] = json!(true);
                } else {
                    out["stable"] = json!(false);
                    out["text2"] = json!(text2);
                }
            }
            Err(e) => {
                out["stable"] = json!(false);
                out["text2_error"] = json!(e.to_string());
            }
        }
        out
    });
    match r {
        Ok(v) => v,
        Err(msg) => json!({"o": "panic", "panic": msg}),
    }
}

// ---------------------------------------------------------------------------------------------
// commands
// ---------------------------------------------------------------------------------------------
fn usage() -> ! {
    eprintln!(
        "usage: pvh_grammar replay CASES OUT K SEED | roundtrip CASES OUT SEED | record CASES OUT K SEED | corpus LIST OUT |\n       show CASE LAYOUT SEED | render TOKS SEED STREAM LAYOUT | project-delta FILE | project-alpha FILE | rebuild FILE | tokens FILE"
    );
    std::process::exit(2)
}

/// Self-test of the crash isolation (checks/grammar_common.py pvh_cases): the process aborts on the case with this number.
fn test_crash_id() -> Option<u64> {
    static ID: std::sync::OnceLock<Option<u64>> = std::sync::OnceLock::new();
    *ID.get_or_init(|| std::env::var("PVH_GRAMMAR_TEST_CRASH_ID").ok().and_then(|x| x.parse().ok()))
}

fn case_source(case: &Value, seed: u64, layout: u64) -> Result<String, String> {
    if let Some(id) = test_crash_id() {
        if case.get("id").and_then(|i| i.as_u64()) == Some(id) {
            std::process::abort();
        }
    }
    if let Some(s) = case.get("src").and_then(|s| s.as_str()) {
        return Ok(s.to_string());
    }
    let toks = case.get("toks").and_then(|t| t.as_array()).ok_or("case without toks")?;
    let id = case.get("id").and_then(|i| i.as_u64()).unwrap_or(0);
    render::render(toks, seed, id, layout)
}

/// Like `pvh::util::par_map`, but thread t takes the items t, t + n, t + 2n, ...: the heavy cases (the scaled family, the wide and
/// deep cells) stand next to each other at the end of the case file and would otherwise all fall to the last thread.
fn par_map_strided<T: Sync, R: Send>(inputs: &[T], f: impl Fn(usize, &T) -> R + Sync) -> Vec<R> {
    let n = std::env::var("PVH_THREADS").ok().and_then(|x| x.parse::<usize>().ok()).unwrap_or(12).max(1);
    let mut parts: Vec<Vec<R>> = Vec::new();
    std::thread::scope(|s| {
        let handles: Vec<_> = (0..n)
            .map(|t| {
                let f = &f;
                s.spawn(move || inputs.iter().enumerate().skip(t).step_by(n).map(|(i, x)| f(i, x)).collect::<Vec<R>>())
            })
            .collect();
        for h in handles {
            parts.push(h.join().expect("worker thread panicked"));
        }
    });
    let mut iters: Vec<_> = parts.into_iter().map(|p| p.into_iter()).collect();
    let mut out = Vec::with_capacity(inputs.len());
    for i in 0..inputs.len() {
        out.push(iters[i % n].next().expect("strided result"));
    }
    out
}

/// Runs `f` over the lines of `input` in batches (bounded memory), in order, appending to `output`.
fn stream(input: &str, output: &str, f: impl Fn(&Value) -> String + Sync) {
    use std::io::{BufRead, Write};
    let reader = std::io::BufReader::new(std::fs::File::open(input).unwrap_or_else(|e| {
        eprintln!("cannot open {input}: {e}");
        std::process::exit(2)
    }));
    let mut out = std::io::BufWriter::new(std::fs::File::create(output).expect("create output file"));
    let mut batch: Vec<String> = Vec::new();
    let mut flush = |batch: &mut Vec<String>| {
        // the expected tree is not needed here and may nest deeper than serde_json reads (see caseline.rs)
        let lines = par_map_strided(batch, |_, l| match serde_json::from_str::<Value>(&caseline::without_key(l, "tree")) {
            Ok(case) => f(&case),
            Err(e) => json!({"toolerror": format!("bad case line: {e}")}).to_string(),
        });
        for l in lines {
            writeln!(out, "{l}").unwrap();
        }
        batch.clear();
    };
    for line in reader.lines() {
        let line = line.unwrap();
        if line.trim().is_empty() {
            continue;
        }
        batch.push(line);
        if batch.len() >= 24000 {
            flush(&mut batch);
        }
    }
    flush(&mut batch);
}

fn strip_same(first: &Value, other: Value) -> Value {
    if &other == first { json!("=") } else { other }
}

fn replay(args: &[String]) {
    let k: u64 = args[2].parse().unwrap();
    let seed: u64 = args[3].parse().unwrap();
    stream(&args[0], &args[1], |case| {
        let mut out = json!({"id": case["id"]});
        let mut ds = Vec::new();
        let mut als = Vec::new();
        // k seeded random layouts, then one of the three systematic layouts (render.rs: nothing between the tokens and no
        // end of line at the end of the file / a comment in every gap / an end of line in every gap), in turn by case number
        let special = render::SPECIAL + case["id"].as_u64().unwrap_or(0) % render::N_SPECIAL;
        for layout in (0..k).chain(std::iter::once(special)) {
            let src = match case_source(case, seed, layout) {
                Ok(s) => s,
                Err(e) => return json!({"id": case["id"], "toolerror": e}).to_string(),
            };
            let d = run_delta(&src, false, false);
            let a = run_alpha(&src);
            // the alpha observation is abbreviated when it is an accepted tree identical to delta's
            let a = if a["o"] == "ok" && d["o"] == "ok" && a["tree"] == d["tree"] && a.get("issues").is_none() { json!("=d") } else { a };
            ds.push(d);
            als.push(a);
        }
        let d0 = ds[0].clone();
        let a0 = als[0].clone();
        out["d"] = Value::Array(ds.into_iter().enumerate().map(|(i, d)| if i == 0 { d } else { strip_same(&d0, d) }).collect());
        out["a"] = Value::Array(als.into_iter().enumerate().map(|(i, a)| if i == 0 { a } else { strip_same(&a0, a) }).collect());
        out.to_string()
    });
}

fn roundtrip(args: &[String]) {
    let seed: u64 = args[2].parse().unwrap();
    stream(&args[0], &args[1], |case| {
        let src = match case_source(case, seed, 0) {
            Ok(s) => s,
            Err(e) => return json!({"id": case["id"], "toolerror": e}).to_string(),
        };
        let mut r = run_roundtrip(&src);
        r["id"] = case["id"].clone();
        // keep the output small: the texts are only needed when something is off
        if r["o"] == "ok" && r["t1"] == "=t0" && r["stable"] == true {
            r.as_object_mut().unwrap().remove("text1");
        }
        r.to_string()
    });
}

fn record_one(id: &Value, src: &str) -> Value {
    let d = run_delta(src, true, false);
    let mut out = json!({"id": id, "o": d["o"]});
    if let Some(t) = d.get("toks") {
        out["toks"] = t.clone();
    }
    if d["o"] == "ok" {
        out["pre"] = Value::Array(flatten::module(&d["tree"]));
        out["wf"] = d["wf"].clone();
    } else {
        for key in ["panic", "codes", "stage"] {
            if let Some(v) = d.get(key) {
                out[key] = v.clone();
            }
        }
    }
    out
}

fn record(args: &[String]) {
    let k: u64 = args[2].parse().unwrap();
    let seed: u64 = args[3].parse().unwrap();
    stream(&args[0], &args[1], |case| {
        // one random layout per case, never the plain one
        let layout = 1 + (case["id"].as_u64().unwrap_or(0) % k.max(1));
        match case_source(case, seed, layout) {
            Ok(src) => {
                let mut r = record_one(&case["id"], &src);
                r["layout"] = json!(layout);
                r.to_string()
            }
            Err(e) => json!({"id": case["id"], "toolerror": e}).to_string(),
        }
    });
}

fn corpus(args: &[String]) {
    let files = read_lines(&args[0]);
    let lines = par_map(&files, |i, path| {
        let src = match std::fs::read_to_string(path) {
            Ok(s) => s,
            Err(e) => return json!({"file": path, "unreadable": e.to_string()}).to_string(),
        };
        let d = run_delta(&src, false, false);
        let a = run_alpha(&src);
        let rt = run_roundtrip(&src);
        let rec = record_one(&json!(i), &src);
        json!({"file": path, "d": d, "a": a, "rt": rt, "rec": rec}).to_string()
    });
    write_lines(&args[1], &lines);
}

fn show(args: &[String]) {
    let case: Value = if std::path::Path::new(&args[0]).exists() {
        serde_json::from_str(&caseline::without_key(&std::fs::read_to_string(&args[0]).unwrap(), "tree")).unwrap()
    } else {
        serde_json::from_str(&caseline::without_key(&args[0], "tree")).unwrap()
    };
    let layout: u64 = args[1].parse().unwrap();
    let seed: u64 = args[2].parse().unwrap();
    let src = case_source(&case, seed, layout).unwrap_or_else(|e| {
        eprintln!("{e}");
        std::process::exit(2)
    });
    println!("--- source (layout {layout}) ---\n{src}\n--- second generation ---");
    let d = run_delta(&src, false, true);
    if let Some(x) = d.get("xml").and_then(|x| x.as_array()) {
        for l in x {
            println!("{}", l.as_str().unwrap_or(""));
        }
    }
    let mut d2 = d.clone();
    d2.as_object_mut().unwrap().remove("xml");
    println!("{}", serde_json::to_string(&d2).unwrap());
    println!("--- first generation ---\n{}", serde_json::to_string(&run_alpha(&src)).unwrap());
    println!("--- rebuild round trip ---\n{}", serde_json::to_string_pretty(&run_roundtrip(&src)).unwrap());
}

fn main() {
    install_panic_hook();
    let args: Vec<String> = std::env::args().skip(1).collect();
    if args.is_empty() {
        usage();
    }
    let rest = &args[1..];
    let file = |i: usize| -> String {
        std::fs::read_to_string(rest.get(i).unwrap_or_else(|| usage())).unwrap_or_else(|e| {
            eprintln!("{e}");
            std::process::exit(2)
        })
    };
    match args[0].as_str() {
        "replay" if rest.len() == 4 => replay(rest),
        "roundtrip" if rest.len() == 3 => roundtrip(rest),
        "record" if rest.len() == 4 => record(rest),
        "corpus" if rest.len() == 2 => corpus(rest),
        "show" if rest.len() == 3 => show(rest),
        "render" if rest.len() == 4 => {
            let toks: Value = serde_json::from_str(&file(0)).unwrap();
            let toks = toks.get("toks").cloned().unwrap_or(toks);
            match render::render(toks.as_array().unwrap(), rest[1].parse().unwrap(), rest[2].parse().unwrap(), rest[3].parse().unwrap()) {
                Ok(s) => print!("{s}"),
                Err(e) => {
                    eprintln!("{e}");
                    std::process::exit(2)
                }
            }
        }
        "project-delta" if rest.len() == 1 => println!("{}", serde_json::to_string(&run_delta(&file(0), false, true)).unwrap()),
        "project-alpha" if rest.len() == 1 => println!("{}", serde_json::to_string(&run_alpha(&file(0))).unwrap()),
        "rebuild" if rest.len() == 1 => println!("{}", serde_json::to_string_pretty(&run_roundtrip(&file(0))).unwrap()),
        "tokens" if rest.len() == 1 => println!("{}", serde_json::to_string(&run_delta(&file(0), true, false)["toks"]).unwrap()),
        _ => usage(),
    }
}

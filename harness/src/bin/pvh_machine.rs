//! Harness binary of the Machine group (C01, C10): renders abstract programs, compiles them with the
//! real compiler (each compilation in a child process: LLVM's verifier aborts on broken IR), runs the
//! IR with lli (the path `penne run` uses) and reports stdout / exit status.
#[path = "../machine/render.rs"]
mod render;
#[path = "../machine/gen.rs"]
mod gen_programs;
#[path = "../modules/driver.rs"]
#[allow(dead_code)]
mod driver;

use pvh::alpha;
use pvh::util::{par_map, read_lines, write_lines};
use serde_json::{Value, json};
use std::io::{Read, Write};
use std::process::{Command, Stdio};

fn usage() -> ! {
    eprintln!("usage:\n  pvh_machine run <programs.ndjson> <out.ndjson> <layouts> <seed>\n  pvh_machine gen <count> <seed> <out.ndjson> [size]\n  pvh_machine compile-one   (source on stdin)\n  pvh_machine show <program-json>");
    std::process::exit(2)
}

fn compile_one() {
    let mut src = String::new();
    std::io::stdin().read_to_string(&mut src).unwrap();
    alpha::install_quiet_panic_hook();
    let o = alpha::run_single(&src, "prog.pn", alpha::Upto::Ir, false);
    let mut v = o.to_json();
    if let Some(ir) = &o.ir {
        v["ir"] = json!(ir);
    }
    println!("{v}");
}

/// compile in a child process; returns the child's JSON or a crash record.  A time-out (the box may be heavily
/// loaded) and a kill from outside (signal, nothing on stderr: LLVM's abort and Rust's stack overflow both write
/// there) are tried again, the time-out with a much longer limit: only what persists is an observation about penne.
fn compile_isolated(source: &str) -> Value {
    let mut r = compile_isolated_once(source, 20);
    for attempt in 0..2 {
        let timed_out = r["crash"] == "timeout";
        let killed = r["crash"] == "signal" && r["stderr"].as_str().map(|s| s.trim().is_empty()).unwrap_or(true);
        if !timed_out && !killed {
            break;
        }
        std::thread::sleep(std::time::Duration::from_millis(200));
        r = compile_isolated_once(source, if attempt == 0 { 120 } else { 300 });
    }
    r
}

fn compile_isolated_once(source: &str, limit_s: u64) -> Value {
    compile_child_once("compile-one", source, limit_s)
}

fn compile_child_once(mode: &str, source: &str, limit_s: u64) -> Value {
    compile_child_env(mode, source, limit_s, false)
}

/// second_module: the child compiles pvh::alpha::PREMODULE first, through the same Compiler (PVH_PREMODULE)
fn compile_child_env(mode: &str, source: &str, limit_s: u64, second_module: bool) -> Value {
    // the running image, even if the file was replaced by a rebuild meanwhile (`current_exe()` would then name
    // a deleted file and the wrapper would fail with status 127)
    let exe = format!("/proc/{}/exe", std::process::id());
    let child = Command::new("timeout")
        .arg(limit_s.to_string())
        .arg(exe)
        .arg(mode)
        .envs(if second_module { vec![("PVH_PREMODULE", "1")] } else { Vec::new() })
        .stdin(Stdio::piped())
        .stdout(Stdio::piped())
        .stderr(Stdio::piped())
        .spawn();
    let mut child = match child {
        Ok(c) => c,
        Err(e) => return json!({"toolerror": format!("spawn: {e}")}),
    };
    child.stdin.take().unwrap().write_all(source.as_bytes()).ok();
    let out = child.wait_with_output().unwrap();
    match out.status.code() {
        Some(0) => serde_json::from_slice(&out.stdout).unwrap_or(json!({"toolerror": "bad child output"})),
        Some(124) => json!({"crash": "timeout"}),
        // the wrapper itself failed (125), or the command could not be run (126, 127): the machinery, not penne
        Some(c @ (125 | 126 | 127)) => json!({"toolerror": format!("timeout wrapper exit {c}: {}", String::from_utf8_lossy(&out.stderr).chars().take(300).collect::<String>())}),
        Some(c) => json!({"crash": format!("exit {c}"), "stderr": String::from_utf8_lossy(&out.stderr).chars().take(400).collect::<String>()}),
        None => json!({"crash": "signal", "stderr": String::from_utf8_lossy(&out.stderr).chars().take(400).collect::<String>()}),
    }
}

/// The canonical text of a program (one declaration after the other, nothing indented) split over two files: `lib.pn`
/// holds every declaration but `main`, each marked `pub`; `main.pn` imports it (docs/features.md "Imports": all function
/// signatures, structures and constants marked pub).  None if the text has no `main` or nothing else.
fn split_sources(canonical: &str, main_first: bool) -> Option<Vec<(String, String)>> {
    let starts = |l: &str| {
        l.starts_with("fn ") || l.starts_with("struct ") || l.starts_with("const ")
            || ["word8 ", "word16 ", "word32 ", "word64 ", "word128 "].iter().any(|w| l.starts_with(w))
    };
    let mut chunks: Vec<Vec<&str>> = Vec::new();
    for line in canonical.lines() {
        if starts(line) || chunks.is_empty() {
            chunks.push(Vec::new());
        }
        chunks.last_mut().unwrap().push(line);
    }
    // (dimension audit) The split marks every function of lib.pn `pub`, i.e. exports its name as a symbol.  A program whose
    // functions are named like C library functions (the random generator uses such names on purpose: private functions have
    // symbols of their own) would then export `write`, `exit`, `malloc`, ... and clash with the C library itself: that clash is
    // the program's, not the compiler's.  Such programs are not split.
    const C_NAMES: [&str; 12] = ["write", "snprintf", "abort", "memcpy", "memset", "printf", "exit", "malloc", "strlen", "entry", "puts", "trap"];
    if chunks.iter().any(|c| C_NAMES.iter().any(|n| c[0].starts_with(&format!("fn {n}(")))) {
        return None;
    }
    let mut lib = String::new();
    let mut main = String::from("import \"lib.pn\";\n");
    let (mut n_lib, mut n_main) = (0, 0);
    // main_first: constants that only `main` mentions stay in main.pn (private), and main.pn is compiled first
    let is_word = |text: &str, name: &str| {
        text.match_indices(name).any(|(at, _)| {
            let before = text[..at].chars().next_back();
            let after = text[at + name.len()..].chars().next();
            !before.map(|c| c.is_alphanumeric() || c == '_').unwrap_or(false) && !after.map(|c| c.is_alphanumeric() || c == '_').unwrap_or(false)
        })
    };
    if main_first {
        // constants nobody mentions: a private constant that is never used changes nothing in its own module and nothing
        // at all in another module ("compiling one module never changes the result for another except through its imports")
        for (k, (t, v)) in [("i32", "12345i32"), ("u8", "77u8"), ("i64", "-99i64"), ("bool", "true"), ("usize", "4242usize"), ("i8", "-7i8"), ("u64", "31337u64"), ("i16", "-1234i16")]
            .iter()
            .enumerate()
        {
            main.push_str(&format!("const zz_unused_{k}: {t} = {v};\n"));
        }
    }
    let others: String = chunks.iter().filter(|c| !c[0].starts_with("fn main(")).map(|c| c.join("\n")).collect::<Vec<_>>().join("\n");
    for c in &chunks {
        if main_first && c[0].starts_with("const ") {
            let name = c[0]["const ".len()..].split(':').next().unwrap_or("").trim();
            let elsewhere = others.replacen(&c.join("\n"), "", 1);
            if !name.is_empty() && !is_word(&elsewhere, name) {
                main.push_str(&c.join("\n"));
                main.push('\n');
                continue;
            }
        }
        if c[0].starts_with("fn main(") {
            main.push_str(&c.join("\n"));
            main.push('\n');
            n_main += 1;
        } else if starts(c[0]) {
            lib.push_str("pub ");
            lib.push_str(&c.join("\n"));
            lib.push('\n');
            n_lib += 1;
        } else {
            return None;
        }
    }
    if n_main != 1 || n_lib == 0 {
        return None;
    }
    if main_first {
        Some(vec![("main.pn".to_string(), main), ("lib.pn".to_string(), lib)])
    } else {
        // the library first: it is compiled before the module that uses it
        Some(vec![("lib.pn".to_string(), lib), ("main.pn".to_string(), main)])
    }
}

fn compile_split_child() {
    let mut text = String::new();
    std::io::stdin().read_to_string(&mut text).unwrap();
    let v: Value = serde_json::from_str(&text).expect("files json");
    let files: Vec<(String, String)> = v["files"].as_array().unwrap().iter()
        .map(|f| (f[0].as_str().unwrap().to_string(), f[1].as_str().unwrap().to_string())).collect();
    alpha::install_quiet_panic_hook();
    let o = driver::run_multi(&files, driver::Upto::Ir, false, false);
    let diags: Vec<Value> = o.modules.iter().flat_map(|m| m.diags.iter().map(|d| json!([d.code, d.line, d.file]))).collect();
    let lints: Vec<Value> = o.modules.iter().flat_map(|m| m.lints.iter().map(|d| json!([d.code, d.line, d.file]))).collect();
    let mut out = json!({"ok": o.ok && o.panic.is_none(), "diags": diags, "lints": lints});
    if let Some(p) = &o.panic {
        out["panic"] = json!(p);
    }
    if let Some(ir) = &o.ir {
        out["ir"] = json!(ir);
    }
    println!("{out}");
}

fn run_source(source: &str) -> Value {
    run_compiled(compile_isolated(source))
}

/// the program as the SECOND module of its compilation (after pvh::alpha::PREMODULE), executed
fn run_source_second(source: &str) -> Value {
    let mut r = compile_child_env("compile-one", source, 20, true);
    if r["crash"] == "timeout" {
        r = compile_child_env("compile-one", source, 300, true);
    }
    run_compiled(r)
}

/// the program split over two files (see split_sources), compiled as `penne lib.pn main.pn` does and executed
fn run_split(files: &[(String, String)]) -> Value {
    let payload = json!({"files": files.iter().map(|(n, s)| json!([n, s])).collect::<Vec<_>>()}).to_string();
    let mut r = compile_child_once("compile-split", &payload, 20);
    for attempt in 0..2 {
        let timed_out = r["crash"] == "timeout";
        let killed = r["crash"] == "signal" && r["stderr"].as_str().map(|s| s.trim().is_empty()).unwrap_or(true);
        if !timed_out && !killed {
            break;
        }
        std::thread::sleep(std::time::Duration::from_millis(200));
        r = compile_child_once("compile-split", &payload, if attempt == 0 { 120 } else { 300 });
    }
    run_compiled(r)
}

fn run_compiled(c: Value) -> Value {
    if c.get("toolerror").is_some() || c.get("crash").is_some() {
        return c;
    }
    if c["ok"] != json!(true) {
        return json!({"rejected": true, "diags": c["diags"], "panic": c.get("panic")});
    }
    let ir = c["ir"].as_str().unwrap_or("");
    // A program that crashes inside lli leaves LLVM's stack dump on stderr.  A signal with an empty stderr is a kill
    // from outside (OOM killer, another process' cleanup): not an observation about the program -- run it again.
    let mut outcome = alpha::run_lli(ir, 10);
    for _ in 0..3 {
        match &outcome {
            Err(e) if e.trim_end() == "signal; stderr=" => {
                std::thread::sleep(std::time::Duration::from_millis(200));
                outcome = alpha::run_lli(ir, 10);
            }
            _ => break,
        }
    }
    if let Err(e) = &outcome {
        if e.trim_end() == "signal; stderr=" {
            return json!({"toolerror": "lli was killed by a signal from outside four times in a row"});
        }
    }
    match outcome {
        Ok((stdout, code)) => json!({"stdout": stdout, "exit": code, "lints": c["lints"]}),
        // lli could not be started / waited for: the machinery, not the program
        Err(e) if e.starts_with("spawn lli") || e.starts_with("wait lli") => json!({"toolerror": e}),
        Err(e) => json!({"lli": e}),
    }
}

fn run(args: &[String]) {
    if args.len() < 4 {
        usage();
    }
    let lines = read_lines(&args[0]);
    let layouts: usize = args[2].parse().unwrap();
    let seed: u64 = args[3].parse().unwrap();
    let results = par_map(&lines, |i, line| {
        let p: Value = serde_json::from_str(line).expect("program json");
        let mut rs = Vec::new();
        let canonical = render::program(&p, &mut render::Layout::canonical());
        for j in 0..layouts.max(1) {
            let src = if j == 0 {
                canonical.clone()
            } else {
                render::program(&p, &mut render::Layout::random(seed, (i * 31 + j) as u64))
            };
            let mut r = run_source(&src);
            r["layout"] = json!(j);
            if j > 0 && (r.get("stdout") != rs.first().and_then(|x: &Value| x.get("stdout")) || r.get("exit") != rs.first().and_then(|x: &Value| x.get("exit"))) {
                r["source"] = json!(src);
            }
            rs.push(r);
        }
        // one more variant for every PVH_SECOND_EVERY-th program: the canonical text as the second module of a compilation
        if let Some(n) = std::env::var("PVH_SECOND_EVERY").ok().and_then(|x| x.parse::<usize>().ok()) {
            if n > 0 && i % n == 0 {
                let mut r = run_source_second(&canonical);
                r["layout"] = json!(layouts.max(1) + 1);
                r["second_module"] = json!(true);
                rs.push(r);
            }
        }
        // one more variant: the same program split over two files (skipped with PVH_NO_SPLIT=1)
        if std::env::var("PVH_NO_SPLIT").is_err() {
            if let Some(files) = split_sources(&canonical, i % 2 == 1) {
                let mut r = run_split(&files);
                r["layout"] = json!(layouts.max(1));
                r["split"] = json!(true);
                if r.get("stdout") != rs.first().and_then(|x: &Value| x.get("stdout")) || r.get("exit") != rs.first().and_then(|x: &Value| x.get("exit")) {
                    r["source"] = json!(files.iter().map(|(n, s)| format!("//// {n}\n{s}")).collect::<Vec<_>>().join("\n"));
                }
                rs.push(r);
            }
        }
        json!({"i": i, "source": canonical, "results": rs}).to_string()
    });
    write_lines(&args[1], &results);
}

fn main() {
    let args: Vec<String> = std::env::args().skip(1).collect();
    if args.is_empty() {
        usage();
    }
    match args[0].as_str() {
        "compile-one" => compile_one(),
        "compile-split" => compile_split_child(),
        "run" => run(&args[1..]),
        "run-src" => {
            // each input line: {"src": "<penne source>"}; output: the result record of run_source
            let lines = read_lines(&args[1]);
            let results = par_map(&lines, |i, line| {
                let v: Value = serde_json::from_str(line).expect("json");
                let mut r = run_source(v["src"].as_str().unwrap_or(""));
                r["i"] = json!(i);
                r.to_string()
            });
            write_lines(&args[2], &results);
        }
        "run-files" => {
            // each input line: {"files": [[name, source], ...]} in the order of the command line; output: the result record
            // of run_split (compiled in a child as `penne a.pn b.pn ...` does, executed)
            let lines = read_lines(&args[1]);
            let results = par_map(&lines, |i, line| {
                let v: Value = serde_json::from_str(line).expect("json");
                let files: Vec<(String, String)> = v["files"].as_array().map(|a| a.iter()
                    .map(|f| (f[0].as_str().unwrap_or("").to_string(), f[1].as_str().unwrap_or("").to_string())).collect()).unwrap_or_default();
                let mut r = run_split(&files);
                r["i"] = json!(i);
                r.to_string()
            });
            write_lines(&args[2], &results);
        }
        "gen" => {
            if args.len() < 4 {
                usage();
            }
            let count: usize = args[1].parse().unwrap();
            let seed: u64 = args[2].parse().unwrap();
            let size: usize = args.get(4).and_then(|x| x.parse().ok()).unwrap_or(1);
            let progs: Vec<String> = (0..count).map(|i| gen_programs::program(seed, i as u64, size).to_string()).collect();
            write_lines(&args[3], &progs);
        }
        "sources" => {
            // sources <count> <seed> <out.ndjson>: the generated programs as cases of the pipeline checks (C02 / C03 / C13):
            // every generated program is well-formed, so its compilation has to end in success (expect.t = "valid")
            let count: usize = args[1].parse().unwrap();
            let seed: u64 = args[2].parse().unwrap();
            let cases: Vec<String> = (0..count)
                .map(|i| {
                    let p = gen_programs::program(seed, i as u64, 1 + i % 2);
                    let src = if i % 3 == 0 {
                        render::program(&p, &mut render::Layout::canonical())
                    } else {
                        render::program(&p, &mut render::Layout::random(seed, i as u64))
                    };
                    json!({"id": format!("xmachine{i}"), "kind": "xmachine", "wasm": false, "origin": format!("machine program {seed}/{i}"),
                           "mods": [{"name": "prog.pn", "src": src}], "expect": {"t": "valid"}})
                    .to_string()
                })
                .collect();
            write_lines(&args[3], &cases);
        }
        "show" => {
            // show <program-json | @file> [layout-seed layout-stream]
            let text = if let Some(path) = args[1].strip_prefix('@') { std::fs::read_to_string(path).expect("file") } else { args[1].clone() };
            let p: Value = serde_json::from_str(&text).expect("json");
            let src = if args.len() >= 4 {
                render::program(&p, &mut render::Layout::random(args[2].parse().unwrap(), args[3].parse().unwrap()))
            } else {
                render::program(&p, &mut render::Layout::canonical())
            };
            println!("{src}");
            println!("{}", run_source(&src));
        }
        _ => usage(),
    }
}

//! Harness binary of the Machine group (C01, C10): renders abstract programs, compiles them with the
//! real compiler (each compilation in a child process: LLVM's verifier aborts on broken IR), runs the
//! IR with lli (the path `penne run` uses) and reports stdout / exit status.
#[path = "../machine/render.rs"]
mod render;
#[path = "../machine/gen.rs"]
mod gen_programs;

use pvh::alpha;
use pvh::util::{par_map, read_lines, write_lines};
use serde_json::{Value, json};
use std::io::{Read, Write};
use std::process::{Command, Stdio};

fn usage() -> ! {
    eprintln!("usage:\n  pvh_machine run <programs.ndjson> <out.ndjson> <layouts> <seed>\n  pvh_machine gen <count> <seed> <out.ndjson> [size]\n  pvh_machine compile-one   (source on stdin)\n  pvh_machine show <program-json>");
    std::process::exit(2)
}

fn compile_one() {
    let mut src = String::new();
    std::io::stdin().read_to_string(&mut src).unwrap();
    alpha::install_quiet_panic_hook();
    let o = alpha::run_single(&src, "prog.pn", alpha::Upto::Ir, false);
    let mut v = o.to_json();
    if let Some(ir) = &o.ir {
        v["ir"] = json!(ir);
    }
    println!("{v}");
}

/// compile in a child process; returns the child's JSON or a crash record.  A time-out (the box may be heavily
/// loaded) and a kill from outside (signal, nothing on stderr: LLVM's abort and Rust's stack overflow both write
/// there) are tried again, the time-out with a much longer limit: only what persists is an observation about penne.
fn compile_isolated(source: &str) -> Value {
    let mut r = compile_isolated_once(source, 20);
    for attempt in 0..2 {
        let timed_out = r["crash"] == "timeout";
        let killed = r["crash"] == "signal" && r["stderr"].as_str().map(|s| s.trim().is_empty()).unwrap_or(true);
        if !timed_out && !killed {
            break;
        }
        std::thread::sleep(std::time::Duration::from_millis(200));
        r = compile_isolated_once(source, if attempt == 0 { 120 } else { 300 });
    }
    r
}

fn compile_isolated_once(source: &str, limit_s: u64) -> Value {
    // the running image, even if the file was replaced by a rebuild meanwhile (`current_exe()` would then name
    // a deleted file and the wrapper would fail with status 127)
    let exe = format!("/proc/{}/exe", std::process::id());
    let child = Command::new("timeout")
        .arg(limit_s.to_string())
        .arg(exe)
        .arg("compile-one")
        .stdin(Stdio::piped())
        .stdout(Stdio::piped())
        .stderr(Stdio::piped())
        .spawn();
    let mut child = match child {
        Ok(c) => c,
        Err(e) => return json!({"toolerror": format!("spawn: {e}")}),
    };
    child.stdin.take().unwrap().write_all(source.as_bytes()).ok();
    let out = child.wait_with_output().unwrap();
    match out.status.code() {
        Some(0) => serde_json::from_slice(&out.stdout).unwrap_or(json!({"toolerror": "bad child output"})),
        Some(124) => json!({"crash": "timeout"}),
        // the wrapper itself failed (125), or the command could not be run (126, 127): the machinery, not penne
        Some(c @ (125 | 126 | 127)) => json!({"toolerror": format!("timeout wrapper exit {c}: {}", String::from_utf8_lossy(&out.stderr).chars().take(300).collect::<String>())}),
        Some(c) => json!({"crash": format!("exit {c}"), "stderr": String::from_utf8_lossy(&out.stderr).chars().take(400).collect::<String>()}),
        None => json!({"crash": "signal", "stderr": String::from_utf8_lossy(&out.stderr).chars().take(400).collect::<String>()}),
    }
}

fn run_source(source: &str) -> Value {
    let c = compile_isolated(source);
    if c.get("toolerror").is_some() || c.get("crash").is_some() {
        return c;
    }
    if c["ok"] != json!(true) {
        return json!({"rejected": true, "diags": c["diags"], "panic": c.get("panic")});
    }
    let ir = c["ir"].as_str().unwrap_or("");
    // A program that crashes inside lli leaves LLVM's stack dump on stderr.  A signal with an empty stderr is a kill
    // from outside (OOM killer, another process' cleanup): not an observation about the program -- run it again.
    let mut outcome = alpha::run_lli(ir, 10);
    for _ in 0..3 {
        match &outcome {
            Err(e) if e.trim_end() == "signal; stderr=" => {
                std::thread::sleep(std::time::Duration::from_millis(200));
                outcome = alpha::run_lli(ir, 10);
            }
            _ => break,
        }
    }
    if let Err(e) = &outcome {
        if e.trim_end() == "signal; stderr=" {
            return json!({"toolerror": "lli was killed by a signal from outside four times in a row"});
        }
    }
    match outcome {
        Ok((stdout, code)) => json!({"stdout": stdout, "exit": code, "lints": c["lints"]}),
        // lli could not be started / waited for: the machinery, not the program
        Err(e) if e.starts_with("spawn lli") || e.starts_with("wait lli") => json!({"toolerror": e}),
        Err(e) => json!({"lli": e}),
    }
}

fn run(args: &[String]) {
    if args.len() < 4 {
        usage();
    }
    let lines = read_lines(&args[0]);
    let layouts: usize = args[2].parse().unwrap();
    let seed: u64 = args[3].parse().unwrap();
    let results = par_map(&lines, |i, line| {
        let p: Value = serde_json::from_str(line).expect("program json");
        let mut rs = Vec::new();
        let canonical = render::program(&p, &mut render::Layout::canonical());
        for j in 0..layouts.max(1) {
            let src = if j == 0 {
                canonical.clone()
            } else {
                render::program(&p, &mut render::Layout::random(seed, (i * 31 + j) as u64))
            };
            let mut r = run_source(&src);
            r["layout"] = json!(j);
            if j > 0 && (r.get("stdout") != rs.first().and_then(|x: &Value| x.get("stdout")) || r.get("exit") != rs.first().and_then(|x: &Value| x.get("exit"))) {
                r["source"] = json!(src);
            }
            rs.push(r);
        }
        json!({"i": i, "source": canonical, "results": rs}).to_string()
    });
    write_lines(&args[1], &results);
}

fn main() {
    let args: Vec<String> = std::env::args().skip(1).collect();
    if args.is_empty() {
        usage();
    }
    match args[0].as_str() {
        "compile-one" => compile_one(),
        "run" => run(&args[1..]),
        "run-src" => {
            // each input line: {"src": "<penne source>"}; output: the result record of run_source
            let lines = read_lines(&args[1]);
            let results = par_map(&lines, |i, line| {
                let v: Value = serde_json::from_str(line).expect("json");
                let mut r = run_source(v["src"].as_str().unwrap_or(""));
                r["i"] = json!(i);
                r.to_string()
            });
            write_lines(&args[2], &results);
        }
        "gen" => {
            if args.len() < 4 {
                usage();
            }
            let count: usize = args[1].parse().unwrap();
            let seed: u64 = args[2].parse().unwrap();
            let size: usize = args.get(4).and_then(|x| x.parse().ok()).unwrap_or(1);
            let progs: Vec<String> = (0..count).map(|i| gen_programs::program(seed, i as u64, size).to_string()).collect();
            write_lines(&args[3], &progs);
        }
        "show" => {
            // show <program-json | @file> [layout-seed layout-stream]
            let text = if let Some(path) = args[1].strip_prefix('@') { std::fs::read_to_string(path).expect("file") } else { args[1].clone() };
            let p: Value = serde_json::from_str(&text).expect("json");
            let src = if args.len() >= 4 {
                render::program(&p, &mut render::Layout::random(args[2].parse().unwrap(), args[3].parse().unwrap()))
            } else {
                render::program(&p, &mut render::Layout::canonical())
            };
            println!("{src}");
            println!("{}", run_source(&src));
        }
        _ => usage(),
    }
}

//! Harness binary of the `cinterop` group (C01, family "Interoperability with C"): renders a program of
//! spec/CInterop.tla as Penne source plus the C translation unit of its foreign instances (fixed templates,
//! harness/src/cinterop/clib.rs), compiles the Penne part with the real compiler (child process), the C part with
//! clang-14, and runs the result through the tool chains
//!   lli      llvm-link-14 of both IR files, lli-14 (the path `penne run` uses, with the C part linked in as IR)
//!   native0  clang-14 -O0 on the Penne IR (what `penne build` does: the IR is piped into clang), clang-14 -O1 -c on
//!            the C file, linked by clang-14, executed
//!   native1  the same with -O1 on the Penne IR
//! and reports stdout / exit status per chain.
#[path = "../machine/render.rs"]
#[allow(dead_code)]
mod render;
#[path = "../cinterop/clib.rs"]
mod clib;
#[path = "../cinterop/xrender.rs"]
mod xrender;
#[path = "../cinterop/xgen.rs"]
mod xgen;

use pvh::alpha;
use pvh::util::{par_map, read_lines, write_lines};
use serde_json::{Value, json};
use std::io::{Read, Write};
use std::path::{Path, PathBuf};
use std::process::{Command, Stdio};

fn usage() -> ! {
    eprintln!(
        "usage:\n  pvh_cinterop run <programs.ndjson> <out.ndjson> <layouts> <seed> <chains: lli,native0,native1>\n  \
         pvh_cinterop compile <sources.ndjson> <out.ndjson>      (lines {{\"src\": ...}}: compile only)\n  \
         pvh_cinterop gen <count> <seed> <out.ndjson> <library-table.json>\n  pvh_cinterop show <program-json | @file> [chains]\n  pvh_cinterop compile-one   (source on stdin)"
    );
    std::process::exit(2)
}

fn compile_one() {
    let mut src = String::new();
    std::io::stdin().read_to_string(&mut src).unwrap();
    alpha::install_quiet_panic_hook();
    let o = alpha::run_single(&src, "prog.pn", alpha::Upto::Ir, false);
    let mut v = o.to_json();
    if let Some(ir) = &o.ir {
        v["ir"] = json!(ir);
    }
    println!("{v}");
}

struct Ran {
    /// the signal that ended the process, if one did
    signal: Option<i32>,
    code: Option<i32>,
    stdout: String,
    stderr: String,
    timed_out: bool,
    spawn_error: Option<String>,
}

/// run a command with a time limit (enforced here: a program may itself exit with 124)
fn run_cmd(cmd: &mut Command, stdin: Option<&str>, limit_s: u64) -> Ran {
    cmd.stdin(if stdin.is_some() { Stdio::piped() } else { Stdio::null() }).stdout(Stdio::piped()).stderr(Stdio::piped());
    let mut child = match cmd.spawn() {
        Ok(c) => c,
        Err(e) => return Ran { signal: None, code: None, stdout: String::new(), stderr: String::new(), timed_out: false, spawn_error: Some(e.to_string()) },
    };
    if let Some(text) = stdin {
        let mut si = child.stdin.take().unwrap();
        let _ = si.write_all(text.as_bytes());
    }
    let mut so = child.stdout.take().unwrap();
    let mut se = child.stderr.take().unwrap();
    let t1 = std::thread::spawn(move || {
        let mut b = Vec::new();
        let _ = (&mut so).take(8 << 20).read_to_end(&mut b);
        let _ = std::io::copy(&mut so, &mut std::io::sink());
        b
    });
    let t2 = std::thread::spawn(move || {
        let mut b = Vec::new();
        let _ = (&mut se).take(1 << 16).read_to_end(&mut b);
        let _ = std::io::copy(&mut se, &mut std::io::sink());
        b
    });
    let deadline = std::time::Instant::now() + std::time::Duration::from_secs(limit_s);
    let mut timed_out = false;
    let status = loop {
        match child.try_wait() {
            Ok(Some(st)) => break Some(st),
            Ok(None) => {
                if std::time::Instant::now() > deadline {
                    let _ = child.kill();
                    let _ = child.wait();
                    timed_out = true;
                    break None;
                }
                std::thread::sleep(std::time::Duration::from_millis(2));
            }
            Err(_) => break None,
        }
    };
    Ran {
        signal: status.and_then(|s| std::os::unix::process::ExitStatusExt::signal(&s)),
        code: status.and_then(|s| s.code()),
        stdout: String::from_utf8_lossy(&t1.join().unwrap_or_default()).to_string(),
        stderr: String::from_utf8_lossy(&t2.join().unwrap_or_default()).to_string(),
        timed_out,
        spawn_error: None,
    }
}

/// a tool of the chain (clang, llvm-link): its failure is a failure of the machinery unless the input came from penne
/// -- the caller decides; a kill from outside or a time-out under load is tried again
fn tool(cmd: &str, args: &[&str], limit_s: u64) -> Result<(), String> {
    let mut last = String::new();
    for attempt in 0..3 {
        let r = run_cmd(Command::new(cmd).args(args), None, limit_s * (1 + 3 * attempt));
        if let Some(e) = r.spawn_error {
            return Err(format!("spawn {cmd}: {e}"));
        }
        if r.code == Some(0) {
            return Ok(());
        }
        last = format!("{cmd} {}: {}", if r.timed_out { "timed out".to_string() } else { format!("exit {:?}", r.code) }, r.stderr.chars().take(600).collect::<String>());
        let killed_outside = matches!(r.signal, Some(9) | Some(15)) && !r.timed_out && r.stderr.trim().is_empty();
        if !(r.timed_out || killed_outside) {
            break;
        }
    }
    Err(last)
}

/// run the final program of a chain: stdout / exit, or what went wrong
fn execute(cmd: &str, args: &[&str]) -> Value {
    for _ in 0..3 {
        let r = run_cmd(Command::new(cmd).args(args), None, 20);
        if let Some(e) = r.spawn_error {
            return json!({"toolerror": format!("spawn {cmd}: {e}")});
        }
        if r.timed_out {
            return json!({"hang": true});
        }
        match r.code {
            Some(c) => return json!({"stdout": r.stdout, "exit": c, "stderr": r.stderr.chars().take(300).collect::<String>()}),
            None => {
                // SIGKILL / SIGTERM come from outside (the box is shared: OOM killer, another agent's cleanup): again.
                // SIGSEGV, SIGILL, SIGBUS, SIGFPE, SIGABRT, SIGTRAP are the program's own doing: an observation.
                if matches!(r.signal, Some(9) | Some(15)) && r.stderr.trim().is_empty() {
                    std::thread::sleep(std::time::Duration::from_millis(200));
                    continue;
                }
                return json!({"signal": r.signal, "stdout": r.stdout, "stderr": r.stderr.chars().take(300).collect::<String>()});
            }
        }
    }
    json!({"toolerror": format!("{cmd} was killed (SIGKILL / SIGTERM) three times in a row")})
}

fn compile_isolated(source: &str) -> Value {
    let exe = format!("/proc/{}/exe", std::process::id());
    let mut last = json!({"toolerror": "compile child did not run"});
    for limit in [30u64, 120, 300] {
        let r = run_cmd(Command::new(&exe).arg("compile-one"), Some(source), limit);
        if let Some(e) = r.spawn_error {
            return json!({"toolerror": format!("spawn: {e}")});
        }
        if r.code == Some(0) {
            return serde_json::from_str(&r.stdout).unwrap_or(json!({"toolerror": "bad child output"}));
        }
        let killed_outside = matches!(r.signal, Some(9) | Some(15)) && !r.timed_out && r.stderr.trim().is_empty();
        last = if r.timed_out {
            json!({"crash": "timeout"})
        } else if let Some(c) = r.code {
            json!({"crash": format!("exit {c}"), "stderr": r.stderr.chars().take(400).collect::<String>()})
        } else {
            json!({"crash": "signal", "stderr": r.stderr.chars().take(400).collect::<String>()})
        };
        if !(r.timed_out || killed_outside) {
            break;
        }
    }
    last
}

/// what the IR says about calling conventions and linkage: per function symbol the convention and linkage of its
/// `define` / `declare`, and the conventions of the call instructions that name it
fn ir_facts(ir: &str) -> Value {
    fn cc_of(tokens: &str) -> String {
        for t in tokens.split_whitespace() {
            if t == "fastcc" || t == "coldcc" || t == "tailcc" || t == "swiftcc" || t == "ghccc" || t == "webkit_jscc" || t == "anyregcc"
                || t == "preserve_mostcc" || t == "preserve_allcc" || (t.starts_with("cc") && t[2..].chars().all(|c| c.is_ascii_digit()) && t.len() > 2)
                || (t.ends_with("cc") && t.contains('_'))
            {
                return t.to_string();
            }
        }
        "ccc".to_string()
    }
    fn name_after_at(rest: &str) -> Option<String> {
        let at = rest.find('@')?;
        let tail = &rest[at + 1..];
        let end = tail.find('(')?;
        let n = tail[..end].trim_matches('"');
        if n.chars().all(|c| c.is_ascii_alphanumeric() || c == '_' || c == '.') { Some(n.to_string()) } else { None }
    }
    let mut fns = serde_json::Map::new();
    let mut calls: std::collections::BTreeMap<String, std::collections::BTreeSet<String>> = Default::default();
    for line in ir.lines() {
        let l = line.trim_start();
        if l.starts_with("define ") || l.starts_with("declare ") {
            let kind = if l.starts_with("define ") { "define" } else { "declare" };
            if let (Some(at), Some(n)) = (l.find('@'), name_after_at(l)) {
                let head = &l[..at];
                let linkage = if head.split_whitespace().any(|t| t == "private") { "private" } else if head.split_whitespace().any(|t| t == "internal") { "internal" } else { "external" };
                fns.insert(n, json!({"kind": kind, "cc": cc_of(head), "linkage": linkage}));
            }
        } else if let Some(pos) = l.find("call ") {
            let rest = &l[pos + 5..];
            // (a varargs call names the function type first: `call i32 (i8*, ...) @snprintf(`)
            if let (Some(at), Some(n)) = (rest.find('@'), name_after_at(rest)) {
                calls.entry(n).or_default().insert(cc_of(&rest[..at].split('(').next().unwrap_or("")));
            }
        }
    }
    json!({"fns": fns, "calls": calls})
}

fn p(dir: &Path, name: &str) -> String {
    dir.join(name).to_string_lossy().to_string()
}

/// Penne source + C source through the chains; -> {"compile": ..., "chains": {name: outcome}}
fn run_pair(dir: &Path, penne: &str, csrc: &str, chains: &[String]) -> Value {
    let c = compile_isolated(penne);
    if c.get("toolerror").is_some() {
        return c;
    }
    if c.get("crash").is_some() {
        return json!({"compile": {"crash": c["crash"], "stderr": c["stderr"]}});
    }
    if c["ok"] != json!(true) {
        return json!({"compile": {"rejected": true, "diags": c["diags"], "panic": c.get("panic")}});
    }
    std::fs::create_dir_all(dir).expect("work dir");
    std::fs::write(dir.join("a.ll"), c["ir"].as_str().unwrap_or("")).expect("write a.ll");
    std::fs::write(dir.join("c.c"), csrc).expect("write c.c");
    let mut out = serde_json::Map::new();
    // the C part is ours: if clang refuses it, the machinery is wrong
    let want_native = chains.iter().any(|x| x.starts_with("native"));
    if want_native {
        if let Err(e) = tool("clang-14", &["-O1", "-c", &p(dir, "c.c"), "-o", &p(dir, "c.o")], 60) {
            return json!({"toolerror": format!("the C translation unit does not compile: {e}")});
        }
    }
    for chain in chains {
        let r = match chain.as_str() {
            "lli" => {
                if let Err(e) = tool("clang-14", &["-O1", "-S", "-emit-llvm", &p(dir, "c.c"), "-o", &p(dir, "c.ll")], 60) {
                    return json!({"toolerror": format!("the C translation unit does not compile: {e}")});
                }
                match tool("llvm-link-14", &["-suppress-warnings", &p(dir, "a.ll"), &p(dir, "c.ll"), "-S", "-o", &p(dir, "all.ll")], 60) {
                    // the IR penne wrote does not link with the C part (mismatching declarations, invalid IR): an observation
                    Err(e) => json!({"link": e}),
                    Ok(()) => execute("lli-14", &[&p(dir, "all.ll")]),
                }
            }
            "native0" | "native1" => {
                let opt = if chain == "native0" { "-O0" } else { "-O1" };
                let obj = format!("a{}.o", &chain[6..]);
                let exe = format!("prog{}", &chain[6..]);
                match tool("clang-14", &[opt, "-Wno-override-module", "-c", &p(dir, "a.ll"), "-o", &p(dir, &obj)], 60) {
                    Err(e) => json!({"link": e}),
                    Ok(()) => match tool("clang-14", &[&p(dir, &obj), &p(dir, "c.o"), "-o", &p(dir, &exe)], 60) {
                        Err(e) => json!({"link": e}),
                        Ok(()) => execute(&p(dir, &exe), &[]),
                    },
                }
            }
            other => json!({"toolerror": format!("unknown chain {other}")}),
        };
        if r.get("toolerror").is_some() {
            return r;
        }
        out.insert(chain.clone(), r);
    }
    json!({"compile": {"ok": true, "lints": c["lints"]}, "chains": out, "ir": ir_facts(c["ir"].as_str().unwrap_or(""))})
}

fn work_root() -> PathBuf {
    let root = std::env::var("CINTEROP_WORK").unwrap_or_else(|_| "/verif/work".to_string());
    PathBuf::from(root).join(format!("cinterop-run-{}", std::process::id()))
}

fn run_program(i: usize, prog: &Value, layouts: usize, seed: u64, chains: &[String], root: &Path) -> Value {
    let canonical = xrender::program(prog, &mut render::Layout::canonical());
    let csrc = clib::source(&prog["foreign"]);
    let dir = root.join(format!("p{i}"));
    let mut rs = Vec::new();
    for j in 0..layouts.max(1) {
        let src = if j == 0 { canonical.clone() } else { xrender::program(prog, &mut render::Layout::random(seed, (i * 31 + j) as u64)) };
        // layout variants run through the first chain only: formatting cannot change the result
        let ch: Vec<String> = if j == 0 { chains.to_vec() } else { chains.iter().take(1).cloned().collect() };
        let mut r = run_pair(&dir, &src, &csrc, &ch);
        r["layout"] = json!(j);
        if j > 0 {
            r["source"] = json!(src);
        }
        rs.push(r);
    }
    if std::env::var("CINTEROP_KEEP").is_err() {
        let _ = std::fs::remove_dir_all(&dir);
    }
    json!({"i": i, "source": canonical, "csource": csrc, "results": rs})
}

fn main() {
    let args: Vec<String> = std::env::args().skip(1).collect();
    if args.is_empty() {
        usage();
    }
    match args[0].as_str() {
        "compile-one" => compile_one(),
        "run" => {
            if args.len() < 5 {
                usage();
            }
            let lines = read_lines(&args[1]);
            let layouts: usize = args[3].parse().unwrap();
            let seed: u64 = args[4].parse().unwrap();
            // (no chain: compile only)
            let chains: Vec<String> = args.get(5).map(|x| x.as_str()).unwrap_or("").split(',').filter(|x| !x.is_empty()).map(|x| x.to_string()).collect();
            let root = work_root();
            let results = par_map(&lines, |i, line| {
                let prog: Value = serde_json::from_str(line).expect("program json");
                run_program(i, &prog, layouts, seed, &chains, &root).to_string()
            });
            let _ = std::fs::remove_dir_all(&root);
            write_lines(&args[2], &results);
        }
        "compile" => {
            let lines = read_lines(&args[1]);
            let results = par_map(&lines, |i, line| {
                let v: Value = serde_json::from_str(line).expect("json");
                let mut c = compile_isolated(v["src"].as_str().unwrap_or(""));
                if let Some(o) = c.as_object_mut() {
                    o.remove("ir");
                }
                c["i"] = json!(i);
                c.to_string()
            });
            write_lines(&args[2], &results);
        }
        "gen" => {
            if args.len() < 4 {
                usage();
            }
            let count: usize = args[1].parse().unwrap();
            let seed: u64 = args[2].parse().unwrap();
            let table = xgen::load_table(args.get(4).map(|x| x.as_str()).unwrap_or_else(|| usage()));
            let progs: Vec<String> = (0..count).map(|i| xgen::program(seed, i as u64, &table).to_string()).collect();
            write_lines(&args[3], &progs);
        }
        "show" => {
            let text = if let Some(path) = args[1].strip_prefix('@') { std::fs::read_to_string(path).expect("file") } else { args[1].clone() };
            let prog: Value = serde_json::from_str(&text).expect("json");
            let chains: Vec<String> = args.get(2).map(|x| x.as_str()).unwrap_or("lli,native0,native1").split(',').map(|x| x.to_string()).collect();
            let root = work_root();
            let r = run_program(0, &prog, 1, 0, &chains, &root);
            let _ = std::fs::remove_dir_all(&root);
            println!("{}", r["source"].as_str().unwrap_or(""));
            println!("/* ---- C ---- */\n{}", r["csource"].as_str().unwrap_or(""));
            println!("{}", serde_json::to_string_pretty(&r["results"]).unwrap());
        }
        _ => usage(),
    }
}

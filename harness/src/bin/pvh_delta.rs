//! pvh_delta -- harness of the second-generation front end (properties C15, C17).
//!
//!   pvh_delta run <cases.ndjson> <out.ndjson> [--events] [--xml] [--timeout S]
//!        supervisor: every case in an isolated child (`worker`), crashes/timeouts recorded per case
//!   pvh_delta worker <cases.ndjson> <from> <to> [--events] [--xml]
//!   pvh_delta show '<case json>'
//!        print the input a descriptor denotes and run it in-process
//!   pvh_delta corpus
//!        list the corpus files (their order defines the index of `corpus` / `mut` descriptors)

#[path = "../delta/case.rs"]
mod case;
#[path = "../delta/edge.rs"]
mod edge;
#[path = "../delta/inputs.rs"]
mod inputs;
#[path = "../delta/module.rs"]
mod module;
#[path = "../delta/run.rs"]
mod run;
#[path = "../delta/scoper_ext.rs"]
mod scoper_ext;
#[path = "../delta/worker.rs"]
mod worker;
#[path = "../delta/xml.rs"]
mod xml;

fn usage() -> ! {
    eprintln!(
        "usage:\n  pvh_delta run <cases.ndjson> <out.ndjson> [--events] [--xml] [--timeout S]\n  pvh_delta worker <cases.ndjson> <from> <to> [--events] [--xml]\n  pvh_delta show <case-json>\n  pvh_delta corpus"
    );
    std::process::exit(2)
}

fn opts(args: &[String]) -> worker::Opts {
    let mut o = worker::Opts { events: false, xml: false, timeout_s: 10 };
    let mut i = 0;
    while i < args.len() {
        match args[i].as_str() {
            "--events" => o.events = true,
            "--xml" => o.xml = true,
            "--timeout" => {
                i += 1;
                o.timeout_s = args.get(i).and_then(|x| x.parse().ok()).unwrap_or(10);
            }
            _ => {}
        }
        i += 1;
    }
    o
}

fn main() {
    let args: Vec<String> = std::env::args().skip(1).collect();
    if args.is_empty() {
        usage();
    }
    match args[0].as_str() {
        "run" if args.len() >= 3 => worker::supervise(&args[1], &args[2], &opts(&args[3..])),
        "worker" if args.len() >= 4 => {
            let from: usize = args[2].parse().unwrap_or(0);
            let to: usize = args[3].parse().unwrap_or(0);
            worker::worker_main(&args[1], from, to, &opts(&args[4..]));
        }
        "scoper" if args.len() >= 3 => scoper_ext::run(&args[1], &args[2]),
        "show" if args.len() >= 2 => {
            let case: serde_json::Value = serde_json::from_str(&args[1]).expect("case json");
            case::show(&case);
        }
        "corpus" => {
            for f in inputs::corpus_files(&worker::repo_dir()) {
                println!("{f}");
            }
        }
        _ => usage(),
    }
}

//! pvh_pipeline -- harness binary of the `pipeline` group (C02 C03 C13 C18).
//!
//!   gen    <out.ndjson> <seed> <n_mut> <n_soup> <n_nest> <n_fault> <n_multi> [<n_line> <n_struct> <extra 0|1>]
//!   render-flat <items.ndjson> <cases.ndjson>     statement-placement bodies -> cases
//!   worker [--ir-dir D]              cases on stdin, events on stdout (flushed per event)
//!   run    <cases.ndjson> <events.ndjson> [--ir-dir D] [--timeout S] [--batch N]
//!   fresh  <cases.ndjson> <runs.ndjson> <k> [--ir-dir D]     every case k times, one process each
//!   show   <case.json>
//!
//! `run` is the parent: it feeds batches of cases to isolated `worker` children.  A panic is caught
//! in the child and logged as the event `panic`; an abort inside LLVM, a segfault, a stack overflow
//! or a hang kills the child -- the parent knows from the flushed events which case was running,
//! re-runs that case alone in a fresh child (a hang gets a longer limit) and only then records
//! `crash{signal}` / `hang`, and restarts the batch after it.

#[path = "../pipeline/drive.rs"]
mod drive;
#[path = "../pipeline/gen.rs"]
mod r#gen;

use serde_json::{Value, json};
use std::io::{BufRead, Read, Write};
use std::process::{Command, Stdio};
use std::sync::atomic::{AtomicUsize, Ordering};
use std::sync::mpsc;
use std::time::Duration;

fn usage() -> ! {
    eprintln!("usage: pvh_pipeline gen|worker|run|fresh|show ... (see the head of harness/src/bin/pvh_pipeline.rs)");
    std::process::exit(2)
}

fn flag_value(args: &[String], name: &str) -> Option<String> {
    args.iter().position(|a| a == name).and_then(|i| args.get(i + 1).cloned())
}

fn panic_message(e: Box<dyn std::any::Any + Send>) -> String {
    if let Some(s) = e.downcast_ref::<&str>() {
        s.to_string()
    } else if let Some(s) = e.downcast_ref::<String>() {
        s.clone()
    } else {
        "panic".to_string()
    }
}

// ------------------------------------------------------------------------------------------
// worker (child process)
// ------------------------------------------------------------------------------------------
fn worker(args: &[String]) {
    let ir_dir = flag_value(args, "--ir-dir").map(std::path::PathBuf::from);
    let mut input = String::new();
    std::io::stdin().read_to_string(&mut input).expect("read stdin");
    // the location of a panic is part of the observation (typer.rs:2909 ...)
    std::panic::set_hook(Box::new(|info| {
        let loc = info.location().map(|l| format!("{}:{}", l.file(), l.line())).unwrap_or_default();
        LAST_PANIC_AT.with(|c| *c.borrow_mut() = loc);
    }));
    let stdout = std::io::stdout();
    for line in input.lines() {
        if line.trim().is_empty() {
            continue;
        }
        let v: Value = match serde_json::from_str(line) {
            Ok(v) => v,
            Err(e) => {
                eprintln!("bad case line: {e}");
                std::process::exit(3);
            }
        };
        let case = drive::CaseIn::from_json(&v);
        let mut emit = |ev: Value| {
            let mut out = stdout.lock();
            writeln!(out, "{ev}").unwrap();
            out.flush().unwrap();
        };
        let r = std::panic::catch_unwind(std::panic::AssertUnwindSafe(|| {
            let mut sink = drive::Sink { emit: &mut emit, ir_dir: ir_dir.as_deref() };
            // self-test of the isolation machinery (kinds no generator produces)
            match case.kind.as_str() {
                "selftest:hang" => {
                    (sink.emit)(json!({"ev": "input", "id": case.id, "kind": case.kind, "wasm": false, "n": 1, "mods": []}));
                    loop {
                        std::thread::sleep(std::time::Duration::from_secs(1));
                    }
                }
                "selftest:abort" => {
                    (sink.emit)(json!({"ev": "input", "id": case.id, "kind": case.kind, "wasm": false, "n": 1, "mods": []}));
                    std::process::abort();
                }
                "selftest:panic" => {
                    (sink.emit)(json!({"ev": "input", "id": case.id, "kind": case.kind, "wasm": false, "n": 1, "mods": []}));
                    panic!("selftest panic");
                }
                _ => {}
            }
            drive::run_case(&case, &mut sink);
        }));
        if let Err(e) = r {
            let at = LAST_PANIC_AT.with(|c| c.borrow().clone());
            let mut out = stdout.lock();
            writeln!(out, "{}", json!({"ev": "panic", "msg": panic_message(e), "at": at})).unwrap();
            out.flush().unwrap();
        }
    }
}

thread_local! {
    static LAST_PANIC_AT: std::cell::RefCell<String> = const { std::cell::RefCell::new(String::new()) };
}

// ------------------------------------------------------------------------------------------
// parent
// ------------------------------------------------------------------------------------------
#[derive(Debug)]
enum Death {
    Clean,
    Signal(i32, String),
    Exit(i32, String),
    Hang(u64),
}

struct ChildRun {
    /// events per started case, in order
    events: Vec<Vec<String>>,
    death: Death,
}

fn is_terminal(line: &str) -> bool {
    line.starts_with("{\"ev\":\"outcome\"") || line.starts_with("{\"ev\":\"internal\"") || line.starts_with("{\"ev\":\"panic\"")
        || line.contains("\"ev\":\"outcome\"") || line.contains("\"ev\":\"internal\"") || line.contains("\"ev\":\"panic\"")
}

fn is_input(line: &str) -> bool {
    line.contains("\"ev\":\"input\"")
}

/// Run one child over `cases`; stop reading when it dies or stays silent for `limit`.
fn run_child(cases: &[&str], ir_dir: Option<&str>, limit: Duration, stderr_path: &std::path::Path) -> ChildRun {
    let exe = std::env::current_exe().expect("current_exe");
    let mut cmd = Command::new(exe);
    cmd.arg("worker");
    if let Some(d) = ir_dir {
        cmd.arg("--ir-dir").arg(d);
    }
    let errf = std::fs::File::create(stderr_path).expect("stderr file");
    let mut child = cmd
        .stdin(Stdio::piped())
        .stdout(Stdio::piped())
        .stderr(Stdio::from(errf))
        .spawn()
        .expect("spawn worker");
    {
        let mut stdin = child.stdin.take().unwrap();
        for c in cases {
            // a child that died early closes the pipe: ignore, the exit status tells
            let _ = stdin.write_all(c.as_bytes());
            let _ = stdin.write_all(b"\n");
        }
    }
    let stdout = child.stdout.take().unwrap();
    let (tx, rx) = mpsc::channel::<String>();
    let reader = std::thread::spawn(move || {
        let r = std::io::BufReader::new(stdout);
        for line in r.lines() {
            match line {
                Ok(l) => {
                    if tx.send(l).is_err() {
                        break;
                    }
                }
                Err(_) => break,
            }
        }
    });
    let mut events: Vec<Vec<String>> = Vec::new();
    let mut hang = false;
    loop {
        match rx.recv_timeout(limit) {
            Ok(line) => {
                if is_input(&line) {
                    events.push(Vec::new());
                }
                if let Some(last) = events.last_mut() {
                    last.push(line);
                }
            }
            Err(mpsc::RecvTimeoutError::Timeout) => {
                hang = true;
                let _ = child.kill();
                break;
            }
            Err(mpsc::RecvTimeoutError::Disconnected) => break,
        }
    }
    let status = child.wait().expect("wait");
    let _ = reader.join();
    let tail = std::fs::read(stderr_path)
        .map(|b| {
            let s = String::from_utf8_lossy(&b).to_string();
            let n = s.len().saturating_sub(1500);
            let mut k = n;
            while !s.is_char_boundary(k) {
                k += 1;
            }
            s[k..].to_string()
        })
        .unwrap_or_default();
    use std::os::unix::process::ExitStatusExt;
    let death = if hang {
        Death::Hang(limit.as_secs())
    } else if let Some(sig) = status.signal() {
        Death::Signal(sig, tail)
    } else if status.code() != Some(0) {
        Death::Exit(status.code().unwrap_or(-1), tail)
    } else {
        Death::Clean
    };
    ChildRun { events, death }
}

fn case_complete(evs: &[String]) -> bool {
    evs.last().map(|l| is_terminal(l)).unwrap_or(false)
}

fn death_event(d: &Death, confirmed_alone: bool) -> Value {
    match d {
        Death::Signal(sig, tail) => {
            let what = if tail.contains("has overflowed its stack") {
                "stack overflow"
            } else if tail.contains("LLVM ERROR") || tail.contains("Broken module") || tail.contains("verif") {
                "abort inside LLVM"
            } else if *sig == 11 {
                "segmentation fault"
            } else {
                "killed by signal"
            };
            json!({"ev": "crash", "signal": sig, "what": what, "stderr": tail, "alone": confirmed_alone})
        }
        Death::Exit(code, tail) => json!({"ev": "crash", "signal": 0, "exit": code, "what": "worker exited", "stderr": tail, "alone": confirmed_alone}),
        Death::Hang(secs) => json!({"ev": "hang", "secs": secs, "alone": confirmed_alone}),
        Death::Clean => json!({"ev": "crash", "signal": 0, "what": "worker stopped without an outcome", "alone": confirmed_alone}),
    }
}

/// Run a batch to the end, isolating every case that kills its child.
fn run_batch(cases: &[&str], ir_dir: Option<&str>, limit: Duration, stderr_path: &std::path::Path, notes: &mut Vec<Value>) -> Vec<Vec<String>> {
    let mut out: Vec<Vec<String>> = Vec::with_capacity(cases.len());
    let mut from = 0;
    while from < cases.len() {
        let run = run_child(&cases[from..], ir_dir, limit, stderr_path);
        let mut done = 0;
        for evs in &run.events {
            if case_complete(evs) {
                out.push(evs.clone());
                done += 1;
            } else {
                break;
            }
        }
        from += done;
        if from >= cases.len() {
            break;
        }
        // the child stopped at cases[from]: with or without partial events
        let partial: Vec<String> = run.events.get(done).cloned().unwrap_or_default();
        // confirm alone in a fresh process; a hang gets six times the limit
        let solo_limit = match run.death {
            Death::Hang(_) => limit * 6,
            _ => limit * 2,
        };
        let solo = run_child(&cases[from..from + 1], ir_dir, solo_limit, stderr_path);
        let solo_evs = solo.events.first().cloned().unwrap_or_default();
        if case_complete(&solo_evs) {
            // not reproducible in a process of its own: not a finding about the compiler as the CLI
            // runs it; keep the solo observation and leave a note
            notes.push(json!({"note": "batch-only", "index": from, "death_in_batch": format!("{:?}", run.death).chars().take(300).collect::<String>()}));
            out.push(solo_evs);
        } else {
            let mut evs = if solo_evs.is_empty() { partial } else { solo_evs };
            if evs.is_empty() {
                // the child died before the input event: synthesize it so that the trace names the case
                let v: Value = serde_json::from_str(cases[from]).unwrap_or(json!({}));
                evs.push(json!({"ev": "input", "id": v["id"], "kind": v["kind"], "wasm": v["wasm"], "n": v["mods"].as_array().map(|a| a.len()).unwrap_or(0), "mods": []}).to_string());
            }
            evs.push(death_event(&solo.death, true).to_string());
            out.push(evs);
        }
        from += 1;
    }
    out
}

fn read_cases(path: &str) -> Vec<String> {
    pvh::util::read_lines(path)
}

fn run(args: &[String]) {
    if args.len() < 2 {
        usage();
    }
    let cases = read_cases(&args[0]);
    let out_path = args[1].clone();
    let ir_dir = flag_value(args, "--ir-dir");
    if let Some(d) = &ir_dir {
        std::fs::create_dir_all(d).expect("ir dir");
    }
    let limit = Duration::from_secs(flag_value(args, "--timeout").and_then(|s| s.parse().ok()).unwrap_or(10));
    let batch: usize = flag_value(args, "--batch").and_then(|s| s.parse().ok()).unwrap_or(250);
    let nthreads = pvh::util::threads().max(1);
    let nbatches = cases.len().div_ceil(batch);
    let next = AtomicUsize::new(0);
    let results: std::sync::Mutex<Vec<Option<Vec<Vec<String>>>>> = std::sync::Mutex::new((0..nbatches).map(|_| None).collect());
    let all_notes: std::sync::Mutex<Vec<Value>> = std::sync::Mutex::new(Vec::new());
    std::thread::scope(|s| {
        for slot in 0..nthreads {
            let cases = &cases;
            let next = &next;
            let results = &results;
            let all_notes = &all_notes;
            let ir_dir = ir_dir.clone();
            let out_path = out_path.clone();
            s.spawn(move || {
                let stderr_path = std::path::PathBuf::from(format!("{out_path}.stderr.{slot}"));
                loop {
                    let b = next.fetch_add(1, Ordering::SeqCst);
                    if b >= nbatches {
                        break;
                    }
                    let lo = b * batch;
                    let hi = ((b + 1) * batch).min(cases.len());
                    let slice: Vec<&str> = cases[lo..hi].iter().map(|s| s.as_str()).collect();
                    let mut notes = Vec::new();
                    let r = run_batch(&slice, ir_dir.as_deref(), limit, &stderr_path, &mut notes);
                    for n in notes.iter_mut() {
                        n["index"] = json!(lo + n["index"].as_u64().unwrap_or(0) as usize);
                    }
                    all_notes.lock().unwrap().extend(notes);
                    results.lock().unwrap()[b] = Some(r);
                }
                let _ = std::fs::remove_file(&stderr_path);
            });
        }
    });
    let results = results.into_inner().unwrap();
    let mut f = std::io::BufWriter::new(std::fs::File::create(&out_path).expect("create events file"));
    let mut n_cases = 0;
    let mut n_events = 0;
    for r in results.into_iter().flatten() {
        for evs in r {
            n_cases += 1;
            for l in evs {
                n_events += 1;
                writeln!(f, "{l}").unwrap();
            }
        }
    }
    f.flush().unwrap();
    let notes = all_notes.into_inner().unwrap();
    println!("{}", json!({"cases": n_cases, "events": n_events, "expected": cases.len(), "notes": notes}));
    if n_cases != cases.len() {
        eprintln!("internal error: {} cases in, {} out", cases.len(), n_cases);
        std::process::exit(3);
    }
}

/// every case k times, each run in a process of its own (fresh RandomState keys)
fn fresh(args: &[String]) {
    if args.len() < 3 {
        usage();
    }
    let cases = read_cases(&args[0]);
    let out_path = args[1].clone();
    let k: usize = args[2].parse().expect("k");
    let ir_dir = flag_value(args, "--ir-dir");
    let limit = Duration::from_secs(20);
    let idx: Vec<usize> = (0..cases.len()).collect();
    let out_path2 = out_path.clone();
    let results = pvh::util::par_map(&idx, |_, &i| {
        let mut lines = Vec::new();
        let stderr_path = std::path::PathBuf::from(format!("{out_path2}.stderr.{i}"));
        for r in 1..=k {
            let run = run_child(&[cases[i].as_str()], ir_dir.as_deref(), limit, &stderr_path);
            let evs = run.events.first().cloned().unwrap_or_default();
            lines.push(summarize_run(&cases[i], r, &evs, &run.death));
        }
        let _ = std::fs::remove_file(&stderr_path);
        lines
    });
    let mut f = std::io::BufWriter::new(std::fs::File::create(&out_path).expect("create runs file"));
    for ls in results {
        for l in ls {
            writeln!(f, "{l}").unwrap();
        }
    }
}

/// one line per run: verdict, diagnostic list, lint list, IR text hashes
fn summarize_run(case_line: &str, r: usize, evs: &[String], death: &Death) -> String {
    let case: Value = serde_json::from_str(case_line).unwrap_or(json!({}));
    let mut irh: Vec<Value> = Vec::new();
    let mut end = json!({"t": "none"});
    let mut diags = json!([]);
    let mut lints = json!([]);
    for l in evs {
        let v: Value = match serde_json::from_str(l) {
            Ok(v) => v,
            Err(_) => continue,
        };
        match v["ev"].as_str().unwrap_or("") {
            "generate" | "link" => irh.push(v["irh"].clone()),
            "outcome" => {
                end = json!({"t": if v["ok"].as_bool().unwrap_or(false) { "success" } else { "failure" }});
                diags = v["diags"].clone();
                lints = v["lints"].clone();
            }
            "panic" => end = json!({"t": "panic", "at": v["at"]}),
            "internal" => end = json!({"t": "internal", "at": v["at"]}),
            _ => {}
        }
    }
    if end["t"] == "none" {
        end = match death {
            Death::Hang(_) => json!({"t": "hang"}),
            Death::Signal(s, _) => json!({"t": "crash", "signal": s}),
            _ => json!({"t": "crash", "signal": 0}),
        };
    }
    json!({"ev": "run", "id": case["id"], "r": r, "end": end, "diags": diags, "lints": lints, "irh": irh}).to_string()
}

fn show(args: &[String]) {
    let text = std::fs::read_to_string(&args[0]).expect("read case");
    let v: Value = serde_json::from_str(&text).expect("json");
    let v = if v.get("detail").is_some() && v["detail"].get("case").is_some() { v["detail"]["case"].clone() } else { v };
    let case = drive::CaseIn::from_json(&v);
    for m in &case.mods {
        println!("---- {} ({} bytes)", m.name, m.src.len());
        for (i, l) in m.src.lines().enumerate().take(400) {
            println!("{:4} | {}", i + 1, l);
        }
    }
    let line = v.to_string();
    let stderr_path = std::env::temp_dir().join(format!("pvh-pipeline-show-{}", std::process::id()));
    let run = run_child(&[line.as_str()], None, Duration::from_secs(60), &stderr_path);
    for evs in &run.events {
        for l in evs {
            let short: String = l.chars().take(600).collect();
            println!("{short}");
        }
    }
    println!("child: {:?}", run.death);
    let _ = std::fs::remove_file(stderr_path);
}

fn main() {
    let args: Vec<String> = std::env::args().skip(1).collect();
    if args.is_empty() {
        usage();
    }
    match args[0].as_str() {
        "gen" => {
            if args.len() < 8 {
                usage();
            }
            let root = std::env::var("PENNE_REPO").unwrap_or_else(|_| "/repo".to_string());
            let mut n: Vec<usize> = args[3..].iter().map(|x| x.parse().expect("count")).collect();
            n.resize(8, 0);
            let cases = r#gen::generate(std::path::Path::new(&root), args[2].parse().expect("seed"), n[0], n[1], n[2], n[3], n[4], n[5], n[6], n[7]);
            let mut f = std::io::BufWriter::new(std::fs::File::create(&args[1]).expect("create"));
            for c in &cases {
                writeln!(f, "{c}").unwrap();
            }
            println!("{}", json!({"cases": cases.len()}));
        }
        "render-flat" => {
            // statement-placement bodies (token kinds of spec/Placement.tla, already turned into items):
            // {"id", "b": [items]} -> a case whose single module is the rendered function
            if args.len() < 3 {
                usage();
            }
            let mut f = std::io::BufWriter::new(std::fs::File::create(&args[2]).expect("create"));
            for line in pvh::util::read_lines(&args[1]) {
                let v: Value = serde_json::from_str(&line).expect("json");
                let items: Vec<pvh::flat::Item> = v["b"]
                    .as_array()
                    .map(|a| a.iter().map(|x| pvh::flat::Item::parse(x.as_str().unwrap_or(""))).collect())
                    .unwrap_or_default();
                let r = pvh::flat::render(&items, &[], &[]);
                let origin: Vec<String> = items.iter().map(|i| i.to_string()).collect();
                writeln!(f, "{}", json!({"id": v["id"], "kind": "place", "wasm": false, "origin": origin.join(" "),
                                         "mods": [{"name": "place.pn", "src": r.source}]})).unwrap();
            }
        }
        "worker" => worker(&args[1..]),
        "run" => run(&args[1..]),
        "fresh" => fresh(&args[1..]),
        "show" => show(&args[1..]),
        _ => usage(),
    }
}

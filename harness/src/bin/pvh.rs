
use pvh::util::{par_map, read_lines};
use pvh::{alpha, flat, flatgen};
use serde_json::{Value, json};
use std::io::Write;

fn usage() -> ! {
    eprintln!(
        "usage:\n  pvh replay-flat <cases.ndjson> <out.ndjson> [--ir]\n  pvh record-flat <prop> <count> <seed> <out-prefix> <chunks>\n  pvh show-flat <items-json>"
    );
    std::process::exit(2)
}

fn strs(v: &Value) -> Vec<String> {
    v.as_array().map(|a| a.iter().map(|x| x.as_str().unwrap_or("").to_string()).collect()).unwrap_or_default()
}

fn flat_case_source(case: &Value) -> flat::Rendered {
    let items: Vec<flat::Item> = strs(&case["b"]).iter().map(|s| flat::Item::parse(s)).collect();
    // "layout": dimensions of the rendering that are no part of the rule (flat::Layout)
    let mut lay = flat::Layout::from_json(&case["layout"]);
    lay.decoy = strs(&case["decoy"]);
    flat::render_layout(&items, &strs(&case["consts"]), &strs(&case["params"]), &lay)
}

fn replay_flat(args: &[String]) {
    if args.len() < 2 {
        usage();
    }
    let with_ir = args.iter().any(|a| a == "--ir");
    let lines = read_lines(&args[0]);
    alpha::install_quiet_panic_hook();
    let results = par_map(&lines, |i, line| {
        let case: Value = serde_json::from_str(line).expect("case json");
        let r = flat_case_source(&case);
        let upto = if with_ir { alpha::Upto::Ir } else { alpha::Upto::Resolve };
        // PVH_FLAT_JOINED: the whole module on ONE source line (comments cut off): line breaks are no part of any rule
        let source = if std::env::var("PVH_FLAT_JOINED").is_ok() {
            r.source.lines().map(|l| l.split("//").next().unwrap_or("").trim()).filter(|l| !l.is_empty()).collect::<Vec<_>>().join(" ") + "\n"
        } else {
            r.source.clone()
        };
        let o = alpha::run_single(&source, "case.pn", upto, false);
        let mut v = o.to_json();
        v["i"] = json!(i);
        v["off"] = json!(r.off);
        v["cl"] = json!(r.const_lines);
        v["pl"] = json!(r.param_lines);
        v.to_string()
    });
    let mut f = std::io::BufWriter::new(std::fs::File::create(&args[1]).expect("create out"));
    for r in results {
        writeln!(f, "{r}").unwrap();
    }
}

fn show_flat(args: &[String]) {
    let case: Value = serde_json::from_str(&args[0]).expect("json");
    let case = if case.is_array() { json!({"b": case}) } else { case };
    let r = flat_case_source(&case);
    for (i, l) in r.source.lines().enumerate() {
        println!("{:3} | {}", i + 1, l);
    }
    alpha::install_quiet_panic_hook();
    let o = alpha::run_single(&r.source, "case.pn", alpha::Upto::Ir, true);
    println!("off={} outcome={}", r.off, o.to_json());
    for e in &o.events {
        println!("  {e}");
    }
}

fn record_flat(args: &[String]) {
    if args.len() < 5 {
        usage();
    }
    let prop = args[0].as_str();
    let count: usize = args[1].parse().unwrap();
    let seed: u64 = args[2].parse().unwrap();
    let prefix = &args[3];
    let chunks: usize = args[4].parse::<usize>().unwrap().max(1);
    alpha::install_quiet_panic_hook();
    let idx: Vec<usize> = (0..count).collect();
    let results = par_map(&idx, |_, i| flatgen::record_one(prop, seed, *i));
    let per = count.div_ceil(chunks).max(1);
    for (c, part) in results.chunks(per).enumerate() {
        let path = format!("{prefix}.{c}.ndjson");
        let mut f = std::io::BufWriter::new(std::fs::File::create(&path).expect("create trace"));
        for lines in part {
            for l in lines {
                writeln!(f, "{l}").unwrap();
            }
        }
    }
}

fn main() {
    let args: Vec<String> = std::env::args().skip(1).collect();
    if args.is_empty() {
        usage();
    }
    match args[0].as_str() {
        "replay-flat" => replay_flat(&args[1..]),
        "record-flat" => record_flat(&args[1..]),
        "show-flat" => show_flat(&args[1..]),
        _ => usage(),
    }
}

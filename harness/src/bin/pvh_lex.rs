//! pvh_lex -- harness of the lexical properties C14 (both lexers against spec/PenneLex.tla),
//! C19 (token fuzzer) and C09 (literals).
#[path = "../lex/fuzzrun.rs"]
mod fuzzrun;
#[path = "../lex/gen.rs"]
mod lexgen;
#[path = "../lex/litgen.rs"]
mod litgen;
#[path = "../lex/litrun.rs"]
mod litrun;
#[path = "../lex/obs.rs"]
mod obs;

use pvh::util::{par_map, read_lines};
use serde_json::{Value, json};
use std::io::Write;

fn usage() -> ! {
    eprintln!(
        "usage:\n  pvh_lex replay <texts.ndjson> <obs.ndjson>      one JSON byte array per line -> one observation per line\n  pvh_lex record <count> <seed> <out-prefix> <chunks>   random texts, both lexers -> <out-prefix>.<c>.ndjson for Trace_Lex\n  pvh_lex fuzz <runs> <seed> <summary.ndjson> <trace-prefix> <chunks> <windows-per-run> <window-bytes>   C19: seeded runs of the token fuzzer (sizes 1..64 KB)\n  pvh_lex fuzz-one <run-seed> <kb>\n  pvh_lex lit <programs.ndjson> <out.ndjson>      C09: compile / run literal programs\n  pvh_lex lit-record <programs> <literals-per-program> <seed> <out-prefix> <chunks>\n  pvh_lex show <json-byte-array>"
    );
    std::process::exit(2)
}

fn replay(args: &[String]) {
    if args.len() < 2 {
        usage();
    }
    let lines = read_lines(&args[0]);
    pvh::alpha::install_quiet_panic_hook();
    let results = par_map(&lines, |_, line| {
        let v: Value = serde_json::from_str(line).expect("text json");
        // dimension audit: {"parts": [[bytes, copies], ...]} = a scaled text (spec/MC_LexBig.tla), built here
        if let Some(parts) = v.get("parts").and_then(|p| p.as_array()) {
            let mut s: Vec<u8> = Vec::new();
            for part in parts {
                let unit = obs::bytes_of(&part[0]);
                for _ in 0..part[1].as_u64().unwrap_or(0) {
                    s.extend_from_slice(&unit);
                }
            }
            return obs::observe(&s).to_string();
        }
        let s = obs::bytes_of(if v.is_array() { &v } else { &v["s"] });
        obs::observe(&s).to_string()
    });
    let mut f = std::io::BufWriter::new(std::fs::File::create(&args[1]).expect("create out"));
    for r in results {
        writeln!(f, "{r}").unwrap();
    }
}

/// One recording per (text, generation): what the real lexer returned.
fn recording(g: &str, s: &[u8], o: &Value, full: bool) -> String {
    let t = match o.get("panic") {
        Some(p) => json!([["Panic", 0, 0, 0, 0, 0, [], p, []]]),
        None => o["t"].clone(),
    };
    json!({"g": g, "s": s, "full": full, "t": t}).to_string()
}

fn record(args: &[String]) {
    if args.len() < 4 {
        usage();
    }
    let count: usize = args[0].parse().unwrap();
    let seed: u64 = args[1].parse().unwrap();
    let prefix = &args[2];
    let chunks: usize = args[3].parse::<usize>().unwrap().max(1);
    pvh::alpha::install_quiet_panic_hook();
    let idx: Vec<usize> = (0..count).collect();
    let results = par_map(&idx, |_, i| {
        let mut r = pvh::rng::Rng::new(seed, 0x1e8 + *i as u64);
        let bytes: Vec<u8> = if r.chance(25) {
            lexgen::arbitrary_bytes(&mut r)
        } else {
            let n = if r.chance(20) { r.range(40, 120) } else { r.range(1, 30) };
            let eol = r.weighted(&[70, 15, 15]);
            lexgen::token_soup(&mut r, n, eol).into_bytes()
        };
        let o = obs::observe(&bytes);
        let mut lines = vec![recording("delta", &bytes, &o["d"], true)];
        if let Some(a) = o.get("a") {
            lines.push(recording("alpha", &bytes, a, true));
        }
        lines
    });
    let per = count.div_ceil(chunks).max(1);
    for (c, part) in results.chunks(per).enumerate() {
        let path = format!("{prefix}.{c}.ndjson");
        let mut f = std::io::BufWriter::new(std::fs::File::create(&path).expect("create trace"));
        for lines in part {
            for l in lines {
                writeln!(f, "{l}").unwrap();
            }
        }
    }
    // dimension audit: long soups (10..70 KB, thousands of lines; a generator of their own), recorded as line-aligned
    // WINDOWS with rebased offsets and line numbers -> <prefix>.big.<c>.ndjson (three random windows, the end of the
    // text, the neighbourhood of the offsets 2^12 and 2^16)
    let nbig: usize = args.get(4).map(|x| x.parse().unwrap()).unwrap_or(0);
    let idx: Vec<usize> = (0..nbig).collect();
    let results = par_map(&idx, |_, i| {
        let mut r = pvh::rng::Rng::new(seed, 0xb16_0000 + *i as u64);
        let n = r.range(1500, 7000);
        let eol = r.weighted(&[50, 25, 25]);
        let text = if *i == 0 {
            // the first long text counts: 70 000 lines `<k> 0x<k> <k>u32`, i.e. 210 000 integer payloads, 140 000 of
            // them distinct (payload tables beyond 2^16 entries; the windows show whether token k still has value k)
            let mut t = String::new();
            for k in 0..70_000u32 {
                t.push_str(&format!("{k} 0x{k:x} {k}u32\n"));
            }
            t
        } else {
            lexgen::long_soup(&mut r, n, eol)
        };
        // every sixth long text gets 12 arbitrary bytes (then it is, as a rule, not UTF-8: second generation only);
        // windows are also cut around them
        let mut raw: Vec<u8> = text.into_bytes();
        let mut hits: Vec<usize> = Vec::new();
        if *i % 6 == 5 && !raw.is_empty() {
            for _ in 0..12 {
                let at = r.below(raw.len());
                raw[at] = r.next() as u8;
                hits.push(at);
            }
        }
        let bytes: &[u8] = &raw;
        let o = obs::observe(bytes);
        let empty = vec![];
        let dt = o["d"]["t"].as_array().unwrap_or(&empty);
        let at = o["a"]["t"].as_array().unwrap_or(&empty);
        if o["d"].get("panic").is_some() || o.get("a").map(|a| a.get("panic").is_some()).unwrap_or(false) {
            // a panic is an observation: recorded whole (TLC rejects it)
            let mut v = vec![recording("delta", bytes, &o["d"], true)];
            if let Some(a) = o.get("a") {
                v.push(recording("alpha", bytes, a, true));
            }
            return v;
        }
        let ls = fuzzrun::line_starts_of(bytes);
        let mut spans = Vec::new();
        for _ in 0..3 {
            let ws = ls[r.below(ls.len())];
            if ws < bytes.len() {
                spans.push((ws, fuzzrun::window_end(&ls, ws, 700, bytes.len())));
            }
        }
        spans.extend(fuzzrun::fixed_windows(&ls, 700, bytes.len()));
        for h in hits.iter().take(4) {
            let ws = *ls.iter().rev().find(|s| **s <= h.saturating_sub(200)).unwrap_or(&0);
            // (the window ends at the first line start behind both ws + 500 and the arbitrary byte)
            spans.push((ws, fuzzrun::window_end(&ls, ws, 500usize.max(*h + 1 - ws), bytes.len())));
        }
        fuzzrun::cut_windows(bytes, dt, at, &spans, false, &json!({"big": *i, "len": bytes.len()}))
    });
    let per = nbig.div_ceil(chunks).max(1);
    for (c, part) in results.chunks(per).enumerate() {
        let path = format!("{prefix}.big.{c}.ndjson");
        let mut f = std::io::BufWriter::new(std::fs::File::create(&path).expect("create trace"));
        for lines in part {
            for l in lines {
                writeln!(f, "{l}").unwrap();
            }
        }
    }
}

fn fuzz(args: &[String]) {
    if args.len() < 7 {
        usage();
    }
    let runs: usize = args[0].parse().unwrap();
    let seed: u64 = args[1].parse().unwrap();
    let chunks: usize = args[4].parse::<usize>().unwrap().max(1);
    let windows: usize = args[5].parse().unwrap();
    let window_len: usize = args[6].parse().unwrap();
    let big_sizes: Option<Vec<usize>> =
        args.get(7).map(|x| x.split(',').filter(|y| !y.is_empty()).map(|y| y.parse().unwrap()).collect());
    let fixed_every: usize = args.get(8).map(|x| x.parse().unwrap()).unwrap_or(1).max(1);
    pvh::alpha::install_quiet_panic_hook();
    let idx: Vec<usize> = (0..runs).collect();
    let results = par_map(&idx, |_, i| {
        // sizes 1..=64 KB: every size once, then three quarters of the runs at 1 KB (where the END of the output --
        // the last token against the requested size -- is the largest part of the text), one eighth at 2..4 KB, one
        // eighth anywhere
        let kb = if *i < 64 {
            *i + 1
        } else {
            match i % 8 {
                0 => 1 + (i * 37 + (seed as usize) * 11) % 64,
                4 => 2 + (i / 8) % 3,
                _ => 1,
            }
        };
        // dimension audit: the LAST runs ask for sizes beyond 64 KB (argument 8: e.g. "128,256")
        let kb = match &big_sizes {
            Some(sizes) if *i + sizes.len() >= runs && runs > 64 + sizes.len() => sizes[*i + sizes.len() - runs],
            _ => kb,
        };
        let run_seed = seed.wrapping_mul(1_000_003).wrapping_add(*i as u64);
        // argument 9: the windows at fixed places (end of the output, powers of two) only in every n-th run
        fuzzrun::run_one_with(run_seed, kb, windows, window_len, *i % fixed_every == 0 || kb > 64)
    });
    let mut f = std::io::BufWriter::new(std::fs::File::create(&args[2]).expect("create summary"));
    for r in &results {
        writeln!(f, "{}", r.summary).unwrap();
    }
    let per = runs.div_ceil(chunks).max(1);
    for (c, part) in results.chunks(per).enumerate() {
        let path = format!("{}.{c}.ndjson", args[3]);
        let mut f = std::io::BufWriter::new(std::fs::File::create(&path).expect("create trace"));
        for r in part {
            for l in &r.recordings {
                writeln!(f, "{l}").unwrap();
            }
        }
    }
}

/// C09: compile (and run) literal programs.  Input lines {"src": text, "run": bool}; output lines
/// {"ok", "diags": [[code, line]...], "lints": [[code, line]...], "stdout", "exit", "panic"?, "lli"?}
fn lit(args: &[String]) {
    if args.len() < 2 {
        usage();
    }
    let lines = read_lines(&args[0]);
    pvh::alpha::install_quiet_panic_hook();
    let results = par_map(&lines, |_, line| {
        let v: Value = serde_json::from_str(line).expect("program json");
        let src = v["src"].as_str().unwrap_or("");
        let run = v["run"].as_bool().unwrap_or(false);
        // dimension audit: {"mods": [[name, source], ...]} = a program of several modules; {"raw": true} = the
        // standard output is reported as it is ("stdout_hex"), not converted to text; {"timeout": seconds}
        let raw = v["raw"].as_bool().unwrap_or(false);
        let timeout = v["timeout"].as_u64().unwrap_or(20);
        if let Some(mods) = v["mods"].as_array() {
            let files: Vec<(String, String)> = mods
                .iter()
                .map(|m| (m[0].as_str().unwrap_or("m.pn").to_string(), m[1].as_str().unwrap_or("").to_string()))
                .collect();
            let o = litrun::run_multi(&files);
            let mut out = o.to_json();
            if run {
                if let Some(ir) = &o.ir {
                    match litrun::run_lli_raw(ir, timeout, 64 << 20) {
                        Ok((stdout, code)) => {
                            out["stdout_hex"] = json!(litrun::hex(&stdout));
                            out["exit"] = json!(code);
                        }
                        Err(e) => out["lli"] = json!(e),
                    }
                }
            }
            return out.to_string();
        }
        if raw {
            let o = pvh::alpha::run_single(src, "case.pn", if run { pvh::alpha::Upto::Ir } else { pvh::alpha::Upto::Resolve }, false);
            let mut out = o.to_json();
            if let Some(ir) = &o.ir {
                match litrun::run_lli_raw(ir, timeout, 64 << 20) {
                    Ok((stdout, code)) => {
                        out["stdout_hex"] = json!(litrun::hex(&stdout));
                        out["exit"] = json!(code);
                    }
                    Err(e) => out["lli"] = json!(e),
                }
            }
            return out.to_string();
        }
        let upto = if run { pvh::alpha::Upto::Ir } else { pvh::alpha::Upto::Resolve };
        let o = pvh::alpha::run_single(src, "case.pn", upto, false);
        let mut out = o.to_json();
        if run {
            if let Some(ir) = &o.ir {
                match pvh::alpha::run_lli(ir, 20) {
                    Ok((stdout, code)) => {
                        out["stdout"] = json!(stdout);
                        out["exit"] = json!(code);
                    }
                    Err(e) => {
                        out["lli"] = json!(e);
                    }
                }
            }
        }
        out.to_string()
    });
    let mut f = std::io::BufWriter::new(std::fs::File::create(&args[1]).expect("create out"));
    for r in results {
        writeln!(f, "{r}").unwrap();
    }
}

/// C09 impl -> spec: <programs> programs of <n> random literals each -> <prefix>.<c>.ndjson
fn lit_record(args: &[String]) {
    if args.len() < 5 {
        usage();
    }
    let programs: usize = args[0].parse().unwrap();
    let n: usize = args[1].parse().unwrap();
    let seed: u64 = args[2].parse().unwrap();
    let prefix = &args[3];
    let chunks: usize = args[4].parse::<usize>().unwrap().max(1);
    pvh::alpha::install_quiet_panic_hook();
    let idx: Vec<usize> = (0..programs).collect();
    let results = par_map(&idx, |_, i| litgen::record_program(seed, *i, n));
    let per = programs.div_ceil(chunks).max(1);
    for (c, part) in results.chunks(per).enumerate() {
        let path = format!("{prefix}.{c}.ndjson");
        let mut f = std::io::BufWriter::new(std::fs::File::create(&path).expect("create trace"));
        for lines in part {
            for l in lines {
                writeln!(f, "{l}").unwrap();
            }
        }
    }
}

fn fuzz_one(args: &[String]) {
    if args.len() < 2 {
        usage();
    }
    let seed: u64 = args[0].parse().unwrap();
    let kb: usize = args[1].parse().unwrap();
    pvh::alpha::install_quiet_panic_hook();
    let r = fuzzrun::run_one(seed, kb, 0, 0);
    let mut s = r.summary.clone();
    s.as_object_mut().unwrap().remove("adj");
    println!("{}", serde_json::to_string_pretty(&s).unwrap());
}

/// C19, the real entry point: `fuzz-file <file written by penne fuzz tokens --kb N --out-dir D> <kb> <summary-out> <trace-out> <window-bytes>`
fn fuzz_file(args: &[String]) {
    if args.len() < 5 {
        usage();
    }
    let kb: usize = args[1].parse().unwrap();
    let window_len: usize = args[4].parse().unwrap();
    pvh::alpha::install_quiet_panic_hook();
    let (text, status) = match std::fs::read(&args[0]) {
        Ok(t) => (t, "ok".to_string()),
        Err(e) => (Vec::new(), format!("no output file: {e}")),
    };
    let r = fuzzrun::analyze(&text, status, 0, kb, 1, window_len);
    std::fs::write(&args[2], format!("{}\n", r.summary)).expect("write summary");
    let mut f = std::io::BufWriter::new(std::fs::File::create(&args[3]).expect("create trace"));
    for l in &r.recordings {
        writeln!(f, "{l}").unwrap();
    }
}

fn show(args: &[String]) {
    let v: Value = serde_json::from_str(&args[0]).expect("json byte array");
    let s = obs::bytes_of(&v);
    println!("text: {:?}", String::from_utf8_lossy(&s));
    pvh::alpha::install_quiet_panic_hook();
    let o = obs::observe(&s);
    for g in ["a", "d"] {
        if let Some(x) = o.get(g) {
            println!("{}:", if g == "a" { "alpha (offsets in characters)" } else { "delta (offsets in bytes)" });
            if let Some(p) = x.get("panic") {
                println!("   PANIC {p}");
            }
            for it in x["t"].as_array().unwrap_or(&vec![]) {
                println!("   {it}");
            }
        }
    }
}

fn main() {
    let args: Vec<String> = std::env::args().skip(1).collect();
    if args.is_empty() {
        usage();
    }
    match args[0].as_str() {
        "replay" => replay(&args[1..]),
        "record" => record(&args[1..]),
        "fuzz" => fuzz(&args[1..]),
        "fuzz-one" => fuzz_one(&args[1..]),
        "fuzz-file" => fuzz_file(&args[1..]),
        "lit" => lit(&args[1..]),
        "lit-record" => lit_record(&args[1..]),
        "show" => show(&args[1..]),
        _ => usage(),
    }
}

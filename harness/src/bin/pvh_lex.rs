//! pvh_lex -- harness of the lexical properties C14 (both lexers against spec/PenneLex.tla),
//! C19 (token fuzzer) and C09 (literals).
#[path = "../lex/fuzzrun.rs"]
mod fuzzrun;
#[path = "../lex/gen.rs"]
mod lexgen;
#[path = "../lex/litgen.rs"]
mod litgen;
#[path = "../lex/obs.rs"]
mod obs;

use pvh::util::{par_map, read_lines};
use serde_json::{Value, json};
use std::io::Write;

fn usage() -> ! {
    eprintln!(
        "usage:\n  pvh_lex replay <texts.ndjson> <obs.ndjson>      one JSON byte array per line -> one observation per line\n  pvh_lex record <count> <seed> <out-prefix> <chunks>   random texts, both lexers -> <out-prefix>.<c>.ndjson for Trace_Lex\n  pvh_lex fuzz <runs> <seed> <summary.ndjson> <trace-prefix> <chunks> <windows-per-run> <window-bytes>   C19: seeded runs of the token fuzzer (sizes 1..64 KB)\n  pvh_lex fuzz-one <run-seed> <kb>\n  pvh_lex lit <programs.ndjson> <out.ndjson>      C09: compile / run literal programs\n  pvh_lex lit-record <programs> <literals-per-program> <seed> <out-prefix> <chunks>\n  pvh_lex show <json-byte-array>"
    );
    std::process::exit(2)
}

fn replay(args: &[String]) {
    if args.len() < 2 {
        usage();
    }
    let lines = read_lines(&args[0]);
    pvh::alpha::install_quiet_panic_hook();
    let results = par_map(&lines, |_, line| {
        let v: Value = serde_json::from_str(line).expect("text json");
        let s = obs::bytes_of(if v.is_array() { &v } else { &v["s"] });
        obs::observe(&s).to_string()
    });
    let mut f = std::io::BufWriter::new(std::fs::File::create(&args[1]).expect("create out"));
    for r in results {
        writeln!(f, "{r}").unwrap();
    }
}

/// One recording per (text, generation): what the real lexer returned.
fn recording(g: &str, s: &[u8], o: &Value, full: bool) -> String {
    let t = match o.get("panic") {
        Some(p) => json!([["Panic", 0, 0, 0, 0, 0, [], p, []]]),
        None => o["t"].clone(),
    };
    json!({"g": g, "s": s, "full": full, "t": t}).to_string()
}

fn record(args: &[String]) {
    if args.len() < 4 {
        usage();
    }
    let count: usize = args[0].parse().unwrap();
    let seed: u64 = args[1].parse().unwrap();
    let prefix = &args[2];
    let chunks: usize = args[3].parse::<usize>().unwrap().max(1);
    pvh::alpha::install_quiet_panic_hook();
    let idx: Vec<usize> = (0..count).collect();
    let results = par_map(&idx, |_, i| {
        let mut r = pvh::rng::Rng::new(seed, 0x1e8 + *i as u64);
        let bytes: Vec<u8> = if r.chance(25) {
            lexgen::arbitrary_bytes(&mut r)
        } else {
            let n = if r.chance(20) { r.range(40, 120) } else { r.range(1, 30) };
            let eol = r.weighted(&[70, 15, 15]);
            lexgen::token_soup(&mut r, n, eol).into_bytes()
        };
        let o = obs::observe(&bytes);
        let mut lines = vec![recording("delta", &bytes, &o["d"], true)];
        if let Some(a) = o.get("a") {
            lines.push(recording("alpha", &bytes, a, true));
        }
        lines
    });
    let per = count.div_ceil(chunks).max(1);
    for (c, part) in results.chunks(per).enumerate() {
        let path = format!("{prefix}.{c}.ndjson");
        let mut f = std::io::BufWriter::new(std::fs::File::create(&path).expect("create trace"));
        for lines in part {
            for l in lines {
                writeln!(f, "{l}").unwrap();
            }
        }
    }
}

fn fuzz(args: &[String]) {
    if args.len() < 7 {
        usage();
    }
    let runs: usize = args[0].parse().unwrap();
    let seed: u64 = args[1].parse().unwrap();
    let chunks: usize = args[4].parse::<usize>().unwrap().max(1);
    let windows: usize = args[5].parse().unwrap();
    let window_len: usize = args[6].parse().unwrap();
    pvh::alpha::install_quiet_panic_hook();
    let idx: Vec<usize> = (0..runs).collect();
    let results = par_map(&idx, |_, i| {
        // sizes 1..=64 KB: every size once, then three quarters of the runs at 1 KB (where the END of the output --
        // the last token against the requested size -- is the largest part of the text), one eighth at 2..4 KB, one
        // eighth anywhere
        let kb = if *i < 64 {
            *i + 1
        } else {
            match i % 8 {
                0 => 1 + (i * 37 + (seed as usize) * 11) % 64,
                4 => 2 + (i / 8) % 3,
                _ => 1,
            }
        };
        let run_seed = seed.wrapping_mul(1_000_003).wrapping_add(*i as u64);
        fuzzrun::run_one(run_seed, kb, windows, window_len)
    });
    let mut f = std::io::BufWriter::new(std::fs::File::create(&args[2]).expect("create summary"));
    for r in &results {
        writeln!(f, "{}", r.summary).unwrap();
    }
    let per = runs.div_ceil(chunks).max(1);
    for (c, part) in results.chunks(per).enumerate() {
        let path = format!("{}.{c}.ndjson", args[3]);
        let mut f = std::io::BufWriter::new(std::fs::File::create(&path).expect("create trace"));
        for r in part {
            for l in &r.recordings {
                writeln!(f, "{l}").unwrap();
            }
        }
    }
}

/// C09: compile (and run) literal programs.  Input lines {"src": text, "run": bool}; output lines
/// {"ok", "diags": [[code, line]...], "lints": [[code, line]...], "stdout", "exit", "panic"?, "lli"?}
fn lit(args: &[String]) {
    if args.len() < 2 {
        usage();
    }
    let lines = read_lines(&args[0]);
    pvh::alpha::install_quiet_panic_hook();
    let results = par_map(&lines, |_, line| {
        let v: Value = serde_json::from_str(line).expect("program json");
        let src = v["src"].as_str().unwrap_or("");
        let run = v["run"].as_bool().unwrap_or(false);
        let upto = if run { pvh::alpha::Upto::Ir } else { pvh::alpha::Upto::Resolve };
        let o = pvh::alpha::run_single(src, "case.pn", upto, false);
        let mut out = o.to_json();
        if run {
            if let Some(ir) = &o.ir {
                match pvh::alpha::run_lli(ir, 20) {
                    Ok((stdout, code)) => {
                        out["stdout"] = json!(stdout);
                        out["exit"] = json!(code);
                    }
                    Err(e) => {
                        out["lli"] = json!(e);
                    }
                }
            }
        }
        out.to_string()
    });
    let mut f = std::io::BufWriter::new(std::fs::File::create(&args[1]).expect("create out"));
    for r in results {
        writeln!(f, "{r}").unwrap();
    }
}

/// C09 impl -> spec: <programs> programs of <n> random literals each -> <prefix>.<c>.ndjson
fn lit_record(args: &[String]) {
    if args.len() < 5 {
        usage();
    }
    let programs: usize = args[0].parse().unwrap();
    let n: usize = args[1].parse().unwrap();
    let seed: u64 = args[2].parse().unwrap();
    let prefix = &args[3];
    let chunks: usize = args[4].parse::<usize>().unwrap().max(1);
    pvh::alpha::install_quiet_panic_hook();
    let idx: Vec<usize> = (0..programs).collect();
    let results = par_map(&idx, |_, i| litgen::record_program(seed, *i, n));
    let per = programs.div_ceil(chunks).max(1);
    for (c, part) in results.chunks(per).enumerate() {
        let path = format!("{prefix}.{c}.ndjson");
        let mut f = std::io::BufWriter::new(std::fs::File::create(&path).expect("create trace"));
        for lines in part {
            for l in lines {
                writeln!(f, "{l}").unwrap();
            }
        }
    }
}

fn fuzz_one(args: &[String]) {
    if args.len() < 2 {
        usage();
    }
    let seed: u64 = args[0].parse().unwrap();
    let kb: usize = args[1].parse().unwrap();
    pvh::alpha::install_quiet_panic_hook();
    let r = fuzzrun::run_one(seed, kb, 0, 0);
    let mut s = r.summary.clone();
    s.as_object_mut().unwrap().remove("adj");
    println!("{}", serde_json::to_string_pretty(&s).unwrap());
}

fn show(args: &[String]) {
    let v: Value = serde_json::from_str(&args[0]).expect("json byte array");
    let s = obs::bytes_of(&v);
    println!("text: {:?}", String::from_utf8_lossy(&s));
    pvh::alpha::install_quiet_panic_hook();
    let o = obs::observe(&s);
    for g in ["a", "d"] {
        if let Some(x) = o.get(g) {
            println!("{}:", if g == "a" { "alpha (offsets in characters)" } else { "delta (offsets in bytes)" });
            if let Some(p) = x.get("panic") {
                println!("   PANIC {p}");
            }
            for it in x["t"].as_array().unwrap_or(&vec![]) {
                println!("   {it}");
            }
        }
    }
}

fn main() {
    let args: Vec<String> = std::env::args().skip(1).collect();
    if args.is_empty() {
        usage();
    }
    match args[0].as_str() {
        "replay" => replay(&args[1..]),
        "record" => record(&args[1..]),
        "fuzz" => fuzz(&args[1..]),
        "fuzz-one" => fuzz_one(&args[1..]),
        "lit" => lit(&args[1..]),
        "lit-record" => lit_record(&args[1..]),
        "show" => show(&args[1..]),
        _ => usage(),
    }
}

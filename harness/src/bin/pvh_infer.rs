//! pvh_infer -- harness binary of the group `infer` (type inference; spec/Inference.tla, bound to C01 / C07).
//!   replay <cases.ndjson> <out.ndjson>   each line {"p": <program, exchange format with erasures>, "x": <execute?>}:
//!                                         render, compile with the real front end, project the resolved types of
//!                                         the unannotated declarations / naked literals; with "x" also generate IR in
//!                                         a child process and run it with lli
//!   erase <programs.ndjson> <out.ndjson> <seed> <max-sites>   seeded erasure of annotations / suffixes
//!   show <program-json | @file> [--run]
//!   compile-one                           (source on stdin; child of replay)
#[path = "../infer/render.rs"]
mod render;
#[path = "../infer/project.rs"]
mod project;
#[path = "../infer/erase.rs"]
mod erase;

use pvh::alpha;
use pvh::util::{par_map, read_lines, write_lines};
use serde_json::{Value, json};
use std::io::{Read, Write};
use std::process::{Command, Stdio};

fn usage() -> ! {
    eprintln!("usage:\n  pvh_infer replay <cases.ndjson> <out.ndjson>\n  pvh_infer erase <programs.ndjson> <out.ndjson> <seed> <max-sites>\n  pvh_infer show <program-json | @file> [--run]");
    std::process::exit(2)
}

thread_local! {
    static PANIC_AT: std::cell::RefCell<String> = const { std::cell::RefCell::new(String::new()) };
}

fn install_locating_panic_hook() {
    std::panic::set_hook(Box::new(|info| {
        let at = info
            .location()
            .map(|l| format!("{}:{}", l.file().rsplit('/').next().unwrap_or(l.file()), l.line()))
            .unwrap_or_else(|| "unknown".to_string());
        PANIC_AT.with(|p| *p.borrow_mut() = at);
    }));
}

fn panic_signature(msg: &str) -> String {
    let at = PANIC_AT.with(|p| p.borrow().clone());
    let words: Vec<String> =
        msg.trim().split(|c: char| !c.is_ascii_alphanumeric()).filter(|w| !w.is_empty()).take(4).map(|w| w.to_string()).collect();
    format!("{}:{}", if at.is_empty() { "unknown".to_string() } else { at }, words.join("-"))
}

fn compile_one() {
    let mut src = String::new();
    std::io::stdin().read_to_string(&mut src).unwrap();
    alpha::install_quiet_panic_hook();
    let o = alpha::run_single(&src, "prog.pn", alpha::Upto::Ir, false);
    let mut v = o.to_json();
    if let Some(ir) = &o.ir {
        v["ir"] = json!(ir);
    }
    println!("{v}");
}

/// IR generation in a child process (LLVM's verifier aborts the process on broken IR)
fn compile_isolated(source: &str) -> Value {
    let mut r = compile_isolated_once(source, 30);
    for attempt in 0..2 {
        let timed_out = r["crash"] == "timeout";
        let killed = r["crash"] == "signal" && r["stderr"].as_str().map(|s| s.trim().is_empty()).unwrap_or(true);
        if !timed_out && !killed {
            break;
        }
        std::thread::sleep(std::time::Duration::from_millis(200));
        r = compile_isolated_once(source, if attempt == 0 { 120 } else { 300 });
    }
    r
}

fn compile_isolated_once(source: &str, limit_s: u64) -> Value {
    let exe = format!("/proc/{}/exe", std::process::id());
    let child = Command::new("timeout")
        .arg(limit_s.to_string())
        .arg(exe)
        .arg("compile-one")
        .stdin(Stdio::piped())
        .stdout(Stdio::piped())
        .stderr(Stdio::piped())
        .spawn();
    let mut child = match child {
        Ok(c) => c,
        Err(e) => return json!({"toolerror": format!("spawn: {e}")}),
    };
    child.stdin.take().unwrap().write_all(source.as_bytes()).ok();
    let out = child.wait_with_output().unwrap();
    match out.status.code() {
        Some(0) => serde_json::from_slice(&out.stdout).unwrap_or(json!({"toolerror": "bad child output"})),
        Some(124) => json!({"crash": "timeout"}),
        Some(c @ (125 | 126 | 127)) => {
            json!({"toolerror": format!("timeout wrapper exit {c}: {}", String::from_utf8_lossy(&out.stderr).chars().take(300).collect::<String>())})
        }
        Some(c) => json!({"crash": format!("exit {c}"), "stderr": String::from_utf8_lossy(&out.stderr).chars().take(400).collect::<String>()}),
        None => json!({"crash": "signal", "stderr": String::from_utf8_lossy(&out.stderr).chars().take(400).collect::<String>()}),
    }
}

fn execute(source: &str) -> Value {
    let c = compile_isolated(source);
    if c.get("toolerror").is_some() || c.get("crash").is_some() {
        return c;
    }
    if c["ok"] != json!(true) {
        return json!({"rejected": true, "diags": c["diags"], "panic": c.get("panic")});
    }
    let ir = c["ir"].as_str().unwrap_or("");
    let mut outcome = alpha::run_lli(ir, 10);
    for _ in 0..3 {
        match &outcome {
            Err(e) if e.trim_end() == "signal; stderr=" => {
                std::thread::sleep(std::time::Duration::from_millis(200));
                outcome = alpha::run_lli(ir, 10);
            }
            _ => break,
        }
    }
    match outcome {
        Ok((stdout, code)) => json!({"stdout": stdout, "exit": code}),
        Err(e) if e.trim_end() == "signal; stderr=" => json!({"toolerror": "lli was killed by a signal from outside four times in a row"}),
        Err(e) if e.starts_with("spawn lli") || e.starts_with("wait lli") => json!({"toolerror": e}),
        Err(e) => json!({"lli": e}),
    }
}

/// compile (front end only, in process) and project the resolved types onto the nodes of the program
fn observe(p: &Value, with_source: bool) -> Value {
    let r = render::program(p);
    let res = project::resolve_source(&r.source, "case.pn");
    let mut v = json!({
        "ok": res.ok,
        "diags": res.diags.iter().map(|d| json!([d.code, d.line])).collect::<Vec<_>>(),
    });
    if let Some(pm) = &res.panic {
        v["panic"] = json!(panic_signature(pm));
    }
    if res.silent {
        v["silent"] = json!(true);
    }
    if with_source {
        v["source"] = json!(r.source);
    }
    if res.ok {
        let proj = project::project(&res.declarations);
        let mut types = serde_json::Map::new();
        let mut sfxbad = Vec::new();
        let mut litok = true;
        for (fname, log) in &r.fns {
            let mut m = serde_json::Map::new();
            let Some(ft) = proj.get(fname) else {
                litok = false;
                continue;
            };
            for (x, ts) in &ft.decls {
                // a name declared more than once in a function: only reported if all declarations agree
                if ts.iter().all(|t| t == &ts[0]) {
                    m.insert(x.clone(), json!(ts[0]));
                } else {
                    m.insert(x.clone(), json!(ts.join("|")));
                }
            }
            if ft.lits.len() == log.len() {
                for (entry, t) in log.iter().zip(ft.lits.iter()) {
                    match (&entry.id, &entry.suffix) {
                        (Some(id), _) => {
                            m.insert(id.clone(), json!(t));
                        }
                        (None, Some(sfx)) => {
                            if sfx != t {
                                sfxbad.push(json!([fname, sfx, t]));
                            }
                        }
                        _ => {}
                    }
                }
            } else {
                litok = false;
                v["litcount"] = json!([fname, log.len(), ft.lits.len()]);
            }
            types.insert(fname.clone(), Value::Object(m));
        }
        v["types"] = Value::Object(types);
        v["litok"] = json!(litok);
        if !sfxbad.is_empty() {
            v["sfxbad"] = json!(sfxbad);
        }
    }
    v
}

fn replay(args: &[String]) {
    if args.len() < 2 {
        usage();
    }
    let lines = read_lines(&args[0]);
    install_locating_panic_hook();
    let results = par_map(&lines, |i, line| {
        let case: Value = serde_json::from_str(line).expect("case json");
        let run = case["x"] == json!(true);
        let mut v = observe(&case["p"], case["src"] == json!(true));
        v["i"] = json!(i);
        if run && v["ok"] == json!(true) {
            let r = render::program(&case["p"]);
            v["run"] = execute(&r.source);
        }
        v.to_string()
    });
    write_lines(&args[1], &results);
}

fn erase_cmd(args: &[String]) {
    if args.len() < 4 {
        usage();
    }
    let lines = read_lines(&args[0]);
    let seed: u64 = args[2].parse().unwrap();
    let max_sites: usize = args[3].parse().unwrap();
    let out: Vec<String> = lines
        .iter()
        .enumerate()
        .map(|(i, line)| {
            let p: Value = serde_json::from_str(line).expect("program json");
            let mut rng = pvh::rng::Rng::new(seed ^ 0x1AFE, i as u64);
            let (q, sites) = erase::erase(&p, &mut rng, max_sites);
            json!({"p": q, "sites": sites}).to_string()
        })
        .collect();
    write_lines(&args[1], &out);
}

fn show(args: &[String]) {
    if args.is_empty() {
        usage();
    }
    let text = if let Some(path) = args[0].strip_prefix('@') { std::fs::read_to_string(path).expect("file") } else { args[0].clone() };
    let v: Value = serde_json::from_str(&text).expect("json");
    let p = if v.get("p").is_some() { &v["p"] } else { &v };
    install_locating_panic_hook();
    let r = render::program(p);
    for (i, l) in r.source.lines().enumerate() {
        println!("{:3} | {}", i + 1, l);
    }
    println!("observed: {}", observe(p, false));
    if args.iter().any(|a| a == "--run") {
        println!("run: {}", execute(&r.source));
    }
}

fn main() {
    let args: Vec<String> = std::env::args().skip(1).collect();
    if args.is_empty() {
        usage();
    }
    match args[0].as_str() {
        "compile-one" => compile_one(),
        "replay" => replay(&args[1..]),
        "erase" => erase_cmd(&args[1..]),
        "show" => show(&args[1..]),
        _ => usage(),
    }
}

//! pvh_syntax -- harness of the `syntax` work package (spec/SyntaxRules.tla bound to C02 / C13 / C15 / C16).
//!
//!   replay CASES OUT K SEED     every case {id, toks:[PenneAst token records]} rendered in K layouts (0 = single
//!                               spaces) and observed through both front ends; one line per case
//!                               {id, o:[observation per layout, "=" when equal to layout 0]}
//!   mutate LIST OUT N SEED      N single-token mutations of the corpus files listed in LIST; one line per mutant
//!                               {id, file, mut, o: observation}; the real token stream is part of the observation
//!   files LIST OUT              the same observation for every file of LIST, unmutated
//!   show CASE LAYOUT SEED       source text, token stream and observation of one case (replay files)
//!   showmut FILE MUT            the same for a corpus mutant ({"op","at","with"})
//!
//! replay and mutate run their cases in child processes (`worker`): a case that kills the process (stack
//! overflow, abort inside LLVM) is recorded as {"crash": ...} and the run continues after it.
#[path = "../grammar/alphaproj.rs"]
mod alphaproj;
#[path = "../syntax/observe.rs"]
mod observe;
#[path = "../grammar/pstr.rs"]
mod pstr;
#[path = "../grammar/render.rs"]
mod render;
#[path = "../grammar/xml.rs"]
mod xml;

use pvh::rng::Rng;
use pvh::util::{read_lines, threads};
use serde_json::{Value, json};
use std::io::Write;

fn usage() -> ! {
    eprintln!("usage: pvh_syntax replay CASES OUT K SEED | mutate LIST OUT N SEED | show CASE LAYOUT SEED | showmut FILE MUT");
    std::process::exit(2)
}

// ---------------------------------------------------------------------------------------------
// replay of TLC-emitted cases
// ---------------------------------------------------------------------------------------------
fn case_source(case: &Value, seed: u64, layout: u64) -> Result<String, String> {
    let toks = case.get("toks").and_then(|t| t.as_array()).ok_or("case without toks")?;
    let id = case.get("id").and_then(|i| i.as_u64()).unwrap_or(0);
    render::render(toks, seed, id, layout)
}

/// k layouts; k >= 100 means the single layout k - 100 (100 = plain single spaces, 101.. = seeded random layouts)
fn replay_one(case: &Value, k: u64, seed: u64) -> String {
    let mut obs: Vec<Value> = Vec::new();
    let layouts: Vec<u64> = if k >= 100 { vec![k - 100] } else { (0..k).collect() };
    for layout in layouts {
        let src = match case_source(case, seed, layout) {
            Ok(s) => s,
            Err(e) => return json!({"id": case["id"], "toolerror": e}).to_string(),
        };
        let o = observe::observe(&src, true);
        let mut v = o.v;
        if v["teq"] == false {
            v["ta"] = o.alpha_tree.unwrap_or(Value::Null);
            v["td"] = o.delta_tree.unwrap_or(Value::Null);
        }
        if !obs.is_empty() && v == obs[0] {
            obs.push(json!("="));
        } else {
            obs.push(v);
        }
    }
    json!({"id": case["id"], "o": obs}).to_string()
}

// ---------------------------------------------------------------------------------------------
// corpus mutants
// ---------------------------------------------------------------------------------------------
const SPELLINGS: [&str; 40] = [
    ";", "}", "{", "(", ")", "[", "]", ",", ":", "=", "x", "17", "else", "if", "goto", "loop", "var", "fn", "return", "&", "|", "+", "-", "*",
    "==", "<", "as", "cast", "i32", "true", "0x1F", "\"s\"", "pub", "extern", "struct", "const", "import", "->", "..", ".",
];

/// The mutation of file `path` described by `m` = {op, at, with?}: at = index of a token of the real stream.
fn apply_mutation(src: &str, m: &Value) -> Result<String, String> {
    let (stream, _) = observe::Stream::lex(src);
    if m["op"] == "none" {
        return Ok(src.to_string());
    }
    let at = m["at"].as_u64().ok_or("mutation without position")? as usize;
    if at >= stream.spans.len() {
        return Err(format!("token {at} of {}", stream.spans.len()));
    }
    let (s, e) = stream.spans[at];
    let text = &src[s..e];
    let with = m.get("with").and_then(|w| w.as_str()).unwrap_or("");
    let mut out = String::with_capacity(src.len() + 16);
    match m["op"].as_str().unwrap_or("") {
        "del" => {
            out.push_str(&src[..s]);
            out.push(' ');
            out.push_str(&src[e..]);
        }
        "dup" => {
            out.push_str(&src[..e]);
            out.push(' ');
            out.push_str(text);
            out.push_str(&src[e..]);
        }
        "rep" => {
            out.push_str(&src[..s]);
            out.push(' ');
            out.push_str(with);
            out.push(' ');
            out.push_str(&src[e..]);
        }
        "ins" => {
            out.push_str(&src[..s]);
            out.push(' ');
            out.push_str(with);
            out.push(' ');
            out.push_str(&src[s..]);
        }
        "swap" => {
            if at + 1 >= stream.spans.len() {
                return Err("swap at the last token".into());
            }
            let (s2, e2) = stream.spans[at + 1];
            out.push_str(&src[..s]);
            out.push_str(&src[s2..e2]);
            out.push(' ');
            out.push_str(&src[e..s2]);
            out.push(' ');
            out.push_str(text);
            out.push_str(&src[e2..]);
        }
        "none" => out.push_str(src),
        other => return Err(format!("unknown mutation {other}")),
    }
    Ok(out)
}

thread_local! {
    static BASE_OK: std::cell::RefCell<std::collections::HashMap<String, bool>> = std::cell::RefCell::new(std::collections::HashMap::new());
}

/// does the first-generation parser accept the unmutated file?
fn base_ok(path: &str, src: &str) -> bool {
    if let Some(b) = BASE_OK.with(|m| m.borrow().get(path).copied()) {
        return b;
    }
    let s = src.to_string();
    let ok = std::panic::catch_unwind(move || {
        let decls = penne::alpha::parser::parse(penne::alpha::lexer::lex(&s, "m.pn"));
        observe::parse_stage_errors(&decls).is_empty()
    })
    .unwrap_or(false);
    BASE_OK.with(|m| m.borrow_mut().insert(path.to_string(), ok));
    ok
}

fn mutant_line(id: u64, path: &str, seed: u64) -> String {
    mutant_line_with(id, path, seed, false)
}

fn mutant_line_with(id: u64, path: &str, seed: u64, untouched: bool) -> String {
    let src = match std::fs::read_to_string(path) {
        Ok(s) => s,
        Err(e) => return json!({"id": id, "toolerror": format!("{path}: {e}")}).to_string(),
    };
    let base = base_ok(path, &src);
    let (stream, _) = observe::Stream::lex(&src);
    let n = stream.spans.len();
    let mut rng = Rng::new(seed ^ 0x73796e74, id);
    let m = if n == 0 || id % 16 == 0 || untouched {
        json!({"op": "none", "at": 0})
    } else {
        let at = rng.below(n);
        match rng.below(10) {
            0 | 1 | 2 => json!({"op": "del", "at": at}),
            3 | 4 => json!({"op": "dup", "at": at}),
            5 | 6 | 7 => json!({"op": "rep", "at": at, "with": SPELLINGS[rng.below(SPELLINGS.len())]}),
            8 => json!({"op": "ins", "at": at, "with": SPELLINGS[rng.below(SPELLINGS.len())]}),
            _ => json!({"op": "swap", "at": at.min(n.saturating_sub(2))}),
        }
    };
    let m = if n < 2 && m["op"] == "swap" { json!({"op": "none", "at": 0}) } else { m };
    match apply_mutation(&src, &m) {
        Ok(text) => {
            let o = observe::observe(&text, true);
            json!({"id": id, "file": path, "mut": m, "base_ok": base, "o": o.v}).to_string()
        }
        Err(e) => json!({"id": id, "toolerror": e}).to_string(),
    }
}

// ---------------------------------------------------------------------------------------------
// parent / worker
// ---------------------------------------------------------------------------------------------
/// worker MODE INPUT PART START END A B: cases START..END of INPUT, one flushed line each, appended to PART
fn worker(args: &[String]) {
    let mode = args[0].as_str();
    let start: usize = args[3].parse().unwrap();
    let end: usize = args[4].parse().unwrap();
    let a: u64 = args[5].parse().unwrap();
    let b: u64 = args[6].parse().unwrap();
    let mut out = std::fs::OpenOptions::new().create(true).append(true).open(&args[2]).expect("open part file");
    match mode {
        "replay" => {
            use std::io::BufRead;
            let f = std::io::BufReader::new(std::fs::File::open(&args[1]).expect("open cases"));
            for (i, line) in f.lines().enumerate() {
                if i < start {
                    continue;
                }
                if i >= end {
                    break;
                }
                let line = line.unwrap();
                let l = match serde_json::from_str::<Value>(&line) {
                    Ok(case) => replay_one(&case, a, b),
                    Err(e) => json!({"toolerror": format!("bad case line: {e}")}).to_string(),
                };
                writeln!(out, "{l}").unwrap();
                out.flush().unwrap();
            }
        }
        "mutate" => {
            let files = read_lines(&args[1]);
            for i in start..end {
                // every file gets its share: the file is a function of the mutant's number
                let path = &files[(i * 7919 + (b as usize % 997)) % files.len()];
                let l = mutant_line(i as u64, path, b);
                writeln!(out, "{l}").unwrap();
                out.flush().unwrap();
            }
        }
        "files" => {
            let files = read_lines(&args[1]);
            for i in start..end {
                let l = mutant_line_with(i as u64, &files[i], b, true);
                writeln!(out, "{l}").unwrap();
                out.flush().unwrap();
            }
        }
        _ => usage(),
    }
}

fn count_lines(path: &str) -> usize {
    use std::io::BufRead;
    std::io::BufReader::new(std::fs::File::open(path).unwrap_or_else(|e| {
        eprintln!("cannot open {path}: {e}");
        std::process::exit(2)
    }))
    .lines()
    .count()
}

fn parent(mode: &str, input: &str, output: &str, total: usize, a: u64, b: u64) {
    let exe = std::fs::read_link("/proc/self/exe").unwrap_or_else(|_| std::env::current_exe().unwrap());
    let t = threads().max(1).min(total.max(1));
    let chunk = total.div_ceil(t).max(1);
    let parts: Vec<(usize, usize, String)> = (0..t).map(|i| (i * chunk, ((i + 1) * chunk).min(total), format!("{output}.part{i}"))).filter(|p| p.0 < p.1).collect();
    std::thread::scope(|s| {
        for (start, end, part) in &parts {
            let exe = &exe;
            s.spawn(move || {
                let _ = std::fs::remove_file(part);
                let mut from = *start;
                let mut written = 0usize;
                while from < *end {
                    let st = std::process::Command::new(exe)
                        .args(["worker", mode, input, part, &from.to_string(), &end.to_string(), &a.to_string(), &b.to_string()])
                        .stdout(std::process::Stdio::null())
                        .stderr(std::process::Stdio::null())
                        .status()
                        .expect("spawn worker");
                    if st.success() {
                        break;
                    }
                    // the child died: the case after the last complete line is the one that killed it
                    let have = count_lines(part);
                    let done = have - written;
                    let culprit = from + done;
                    let mut f = std::fs::OpenOptions::new().append(true).open(part).expect("part");
                    use std::os::unix::process::ExitStatusExt;
                    writeln!(f, "{}", json!({"index": culprit, "crash": format!("signal {:?} status {:?}", st.signal(), st.code())})).unwrap();
                    written = have + 1;
                    from = culprit + 1;
                }
            });
        }
    });
    let mut out = std::io::BufWriter::new(std::fs::File::create(output).expect("create output"));
    for (_, _, part) in &parts {
        if let Ok(text) = std::fs::read(part) {
            out.write_all(&text).unwrap();
        }
        let _ = std::fs::remove_file(part);
    }
}

fn main() {
    observe::install_panic_hook();
    let args: Vec<String> = std::env::args().skip(1).collect();
    if args.is_empty() {
        usage();
    }
    let rest = &args[1..];
    match args[0].as_str() {
        "worker" if rest.len() == 7 => worker(rest),
        "replay" if rest.len() == 4 => {
            let total = count_lines(&rest[0]);
            parent("replay", &rest[0], &rest[1], total, rest[2].parse().unwrap(), rest[3].parse().unwrap());
        }
        "mutate" if rest.len() == 4 => {
            let n: usize = rest[2].parse().unwrap();
            parent("mutate", &rest[0], &rest[1], n, 0, rest[3].parse().unwrap());
        }
        "files" if rest.len() == 2 => {
            let total = count_lines(&rest[0]);
            parent("files", &rest[0], &rest[1], total, 0, 0);
        }
        "show" if rest.len() == 3 => {
            let case: Value = if std::path::Path::new(&rest[0]).exists() {
                serde_json::from_str(&std::fs::read_to_string(&rest[0]).unwrap()).unwrap()
            } else {
                serde_json::from_str(&rest[0]).unwrap()
            };
            let src = case_source(&case, rest[2].parse().unwrap(), rest[1].parse().unwrap()).unwrap_or_else(|e| {
                eprintln!("{e}");
                std::process::exit(2)
            });
            show(&src);
        }
        "showmut" if rest.len() == 2 => {
            let src = std::fs::read_to_string(&rest[0]).unwrap_or_else(|e| {
                eprintln!("{e}");
                std::process::exit(2)
            });
            let m: Value = serde_json::from_str(&rest[1]).unwrap();
            let text = apply_mutation(&src, &m).unwrap_or_else(|e| {
                eprintln!("{e}");
                std::process::exit(2)
            });
            show(&text);
        }
        "showsrc" if rest.len() == 1 => {
            let src = std::fs::read_to_string(&rest[0]).unwrap();
            show(&src);
        }
        _ => usage(),
    }
}

fn show(src: &str) {
    let shown = if src.len() > 6000 { format!("{} ... [{} bytes]", &src[..src.char_indices().nth(3000).map(|x| x.0).unwrap_or(src.len())], src.len()) } else { src.to_string() };
    println!("--- source ---\n{shown}\n--- token stream of the first-generation lexer (index kind [bytes]) ---");
    let (stream, _) = observe::Stream::lex(src);
    let n = stream.kinds.len();
    for (i, (k, sp)) in stream.kinds.iter().zip(stream.spans.iter()).enumerate() {
        if n <= 120 || i < 20 || i + 20 >= n {
            println!("{:4} {:16} [{}..{}] {}", i + 1, k, sp.0, sp.1, &src[sp.0..sp.1]);
        }
    }
    let o = observe::observe(src, true);
    let mut v = o.v.clone();
    v.as_object_mut().unwrap().remove("k");
    println!("--- observation ---\n{}", serde_json::to_string(&v).unwrap());
    if v["teq"] == false {
        println!("--- first-generation tree ---\n{}", o.alpha_tree.unwrap_or(Value::Null));
        println!("--- second-generation tree ---\n{}", o.delta_tree.unwrap_or(Value::Null));
    }
}

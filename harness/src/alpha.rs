//! Driving the first-generation compiler through its public API, in the
//! order `compile_to_ir_using_alpha` (src/main.rs) uses.

use penne::alpha::common::Declaration;
use penne::alpha::{Compiler, expander, lexer, parser, resolver, scoper};
use serde_json::{Value, json};

#[derive(Debug, Clone)]
pub struct Diag {
    pub code: u16,
    pub line: usize,
    pub col: usize,
    pub start: usize,
    pub end: usize,
    pub file: String,
}

impl Diag {
    pub fn from_error(e: &penne::alpha::Error) -> Diag {
        let l = e.verif_location();
        Diag {
            code: e.code(),
            line: l.line_number,
            col: l.line_offset,
            start: l.span.start,
            end: l.span.end,
            file: l.source_filename.clone(),
        }
    }
    pub fn to_json(&self) -> Value {
        json!([self.code, self.line])
    }
    pub fn to_json_full(&self) -> Value {
        json!({"code": self.code, "line": self.line, "col": self.col,
               "start": self.start, "end": self.end, "file": self.file})
    }
}

#[derive(Debug, Default)]
pub struct Outcome {
    /// the stage that was reached: "parse", "resolve", "compile", "ir"
    pub stage: &'static str,
    pub ok: bool,
    pub diags: Vec<Diag>,
    pub lints: Vec<Diag>,
    pub events: Vec<String>,
    pub panic: Option<String>,
    pub ir: Option<String>,
    /// failure with an empty list of errors
    pub silent_failure: bool,
}

impl Outcome {
    pub fn to_json(&self) -> Value {
        let mut v = json!({
            "ok": self.ok,
            "stage": self.stage,
            "diags": self.diags.iter().map(|d| d.to_json()).collect::<Vec<_>>(),
            "lints": self.lints.iter().map(|d| d.to_json()).collect::<Vec<_>>(),
        });
        if let Some(p) = &self.panic {
            v["panic"] = json!(p);
        }
        if self.silent_failure {
            v["silent"] = json!(true);
        }
        v
    }
}

pub fn install_quiet_panic_hook() {
    std::panic::set_hook(Box::new(|_| {}));
}

fn panic_message(e: Box<dyn std::any::Any + Send>) -> String {
    if let Some(s) = e.downcast_ref::<&str>() {
        s.to_string()
    } else if let Some(s) = e.downcast_ref::<String>() {
        s.clone()
    } else {
        "panic".to_string()
    }
}

#[derive(Clone, Copy, PartialEq, Eq)]
pub enum Upto {
    Resolve,
    Ir,
}

pub fn parse(source: &str, filename: &str) -> Vec<Declaration> {
    let tokens = lexer::lex(source, filename);
    parser::parse(tokens)
}

/// Compile one module. With `record` the hook events of all stages are kept.
pub fn run_single(source: &str, filename: &str, upto: Upto, record: bool) -> Outcome {
    let r = std::panic::catch_unwind(|| run_single_inner(source, filename, upto, record));
    match r {
        Ok(o) => o,
        Err(e) => {
            let events = penne::verif_trace::take();
            Outcome {
                stage: "panic",
                panic: Some(panic_message(e)),
                events,
                ..Default::default()
            }
        }
    }
}

fn run_single_inner(source: &str, filename: &str, upto: Upto, record: bool) -> Outcome {
    let mut out = Outcome::default();
    if record {
        penne::verif_trace::start();
    }
    let declarations = parse(source, filename);
    let declarations = expander::expand_one(filename, declarations);
    out.stage = "parse";
    if let Err(errors) = resolver::check_surface_level_errors(&declarations) {
        out.diags = errors.errors.iter().map(Diag::from_error).collect();
        out.silent_failure = out.diags.is_empty();
        out.events = penne::verif_trace::take();
        return out;
    }
    let declarations = scoper::analyze(declarations);
    let mut compiler = Compiler::default();
    compiler.add_module(filename).expect("add_module");
    out.stage = "resolve";
    let resolved = match compiler.analyze_and_resolve(declarations) {
        Ok(Ok(resolved)) => resolved,
        Ok(Err(errors)) => {
            out.diags = errors.errors.iter().map(Diag::from_error).collect();
            out.silent_failure = out.diags.is_empty();
            out.events = penne::verif_trace::take();
            return out;
        }
        Err(e) => {
            out.panic = Some(format!("generator error: {e:#}"));
            out.events = penne::verif_trace::take();
            return out;
        }
    };
    out.lints = compiler.take_lints().iter().map(Diag::from_error).collect();
    out.ok = true;
    if upto == Upto::Ir {
        out.stage = "compile";
        match compiler.compile(&resolved) {
            Ok(()) => {}
            Err(e) => {
                out.ok = false;
                out.panic = Some(format!("generator error: {e:#}"));
                out.events = penne::verif_trace::take();
                return out;
            }
        }
        match compiler.generate_ir() {
            Ok(ir) => {
                out.stage = "ir";
                out.ir = Some(ir);
            }
            Err(e) => {
                out.ok = false;
                out.panic = Some(format!("generate_ir error: {e:#}"));
            }
        }
    }
    out.events = penne::verif_trace::take();
    out
}

/// Run textual IR through lli (the path `penne run` uses); returns (stdout, exit status).
/// The time limit is enforced here (not by timeout(1), whose status 124 a program may return itself).
pub fn run_lli(ir: &str, timeout_s: u64) -> Result<(String, i32), String> {
    use std::io::{Read, Write};
    use std::process::{Command, Stdio};
    let mut child = Command::new("lli")
        .stdin(Stdio::piped())
        .stdout(Stdio::piped())
        .stderr(Stdio::piped())
        .spawn()
        .map_err(|e| format!("spawn lli: {e}"))?;
    {
        let mut stdin = child.stdin.take().unwrap();
        // a program that exits before reading all of its input is not an error
        let _ = stdin.write_all(ir.as_bytes());
    }
    let mut stdout_pipe = child.stdout.take().unwrap();
    let mut stderr_pipe = child.stderr.take().unwrap();
    let out_thread = std::thread::spawn(move || {
        let mut buf = Vec::new();
        let mut limited = (&mut stdout_pipe).take(4 << 20);
        let _ = limited.read_to_end(&mut buf);
        // drain the rest so that the child never blocks on a full pipe
        let _ = std::io::copy(&mut stdout_pipe, &mut std::io::sink());
        buf
    });
    let err_thread = std::thread::spawn(move || {
        let mut buf = Vec::new();
        let mut limited = (&mut stderr_pipe).take(1 << 16);
        let _ = limited.read_to_end(&mut buf);
        let _ = std::io::copy(&mut stderr_pipe, &mut std::io::sink());
        buf
    });
    let deadline = std::time::Instant::now() + std::time::Duration::from_secs(timeout_s);
    let status = loop {
        match child.try_wait() {
            Ok(Some(st)) => break Some(st),
            Ok(None) => {
                if std::time::Instant::now() > deadline {
                    let _ = child.kill();
                    let _ = child.wait();
                    break None;
                }
                std::thread::sleep(std::time::Duration::from_millis(2));
            }
            Err(e) => return Err(format!("wait lli: {e}")),
        }
    };
    let stdout = String::from_utf8_lossy(&out_thread.join().unwrap_or_default()).to_string();
    let stderr = String::from_utf8_lossy(&err_thread.join().unwrap_or_default()).to_string();
    match status {
        None => Err("timeout".to_string()),
        Some(st) => match st.code() {
            Some(c) => Ok((stdout, c)),
            None => Err(format!("signal; stderr={}", stderr.chars().take(300).collect::<String>())),
        },
    }
}

//! Driving the first-generation compiler through its public API, in the
//! order `compile_to_ir_using_alpha` (src/main.rs) uses.

use penne::alpha::common::Declaration;
use penne::alpha::{Compiler, expander, lexer, parser, resolver, scoper};
use serde_json::{Value, json};

#[derive(Debug, Clone)]
pub struct Diag {
    pub code: u16,
    pub line: usize,
    pub col: usize,
    pub start: usize,
    pub end: usize,
    pub file: String,
}

impl Diag {
    pub fn from_error(e: &penne::alpha::Error) -> Diag {
        let l = e.verif_location();
        Diag {
            code: e.code(),
            line: l.line_number,
            col: l.line_offset,
            start: l.span.start,
            end: l.span.end,
            file: l.source_filename.clone(),
        }
    }
    pub fn to_json(&self) -> Value {
        json!([self.code, self.line])
    }
    pub fn to_json_full(&self) -> Value {
        json!({"code": self.code, "line": self.line, "col": self.col,
               "start": self.start, "end": self.end, "file": self.file})
    }
}

#[derive(Debug, Default)]
pub struct Outcome {
    /// the stage that was reached: "parse", "resolve", "compile", "ir"
    pub stage: &'static str,
    pub ok: bool,
    pub diags: Vec<Diag>,
    pub lints: Vec<Diag>,
    pub events: Vec<String>,
    pub panic: Option<String>,
    pub ir: Option<String>,
    /// failure with an empty list of errors
    pub silent_failure: bool,
}

impl Outcome {
    pub fn to_json(&self) -> Value {
        let mut v = json!({
            "ok": self.ok,
            "stage": self.stage,
            "diags": self.diags.iter().map(|d| d.to_json()).collect::<Vec<_>>(),
            "lints": self.lints.iter().map(|d| d.to_json()).collect::<Vec<_>>(),
        });
        if let Some(p) = &self.panic {
            v["panic"] = json!(p);
        }
        if self.silent_failure {
            v["silent"] = json!(true);
        }
        v
    }
}

pub fn install_quiet_panic_hook() {
    std::panic::set_hook(Box::new(|_| {}));
}

fn panic_message(e: Box<dyn std::any::Any + Send>) -> String {
    if let Some(s) = e.downcast_ref::<&str>() {
        s.to_string()
    } else if let Some(s) = e.downcast_ref::<String>() {
        s.clone()
    } else {
        "panic".to_string()
    }
}

#[derive(Clone, Copy, PartialEq, Eq)]
pub enum Upto {
    Resolve,
    Ir,
}

pub fn parse(source: &str, filename: &str) -> Vec<Declaration> {
    let tokens = lexer::lex(source, filename);
    parser::parse(tokens)
}

/// Compile one module. With `record` the hook events of all stages are kept.
pub fn run_single(source: &str, filename: &str, upto: Upto, record: bool) -> Outcome {
    let r = std::panic::catch_unwind(|| run_single_inner(source, filename, upto, record));
    match r {
        Ok(o) => o,
        Err(e) => {
            let events = penne::verif_trace::take();
            Outcome {
                stage: "panic",
                panic: Some(panic_message(e)),
                events,
                ..Default::default()
            }
        }
    }
}

fn run_single_inner(source: &str, filename: &str, upto: Upto, record: bool) -> Outcome {
    let mut out = Outcome::default();
    if record {
        penne::verif_trace::start();
    }
    let declarations = parse(source, filename);
    let declarations = expander::expand_one(filename, declarations);
    out.stage = "parse";
    if let Err(errors) = resolver::check_surface_level_errors(&declarations) {
        out.diags = errors.errors.iter().map(Diag::from_error).collect();
        out.silent_failure = out.diags.is_empty();
        out.events = penne::verif_trace::take();
        return out;
    }
    let declarations = scoper::analyze(declarations);
    let mut compiler = Compiler::default();
    compiler.add_module(filename).expect("add_module");
    out.stage = "resolve";
    let resolved = match compiler.analyze_and_resolve(declarations) {
        Ok(Ok(resolved)) => resolved,
        Ok(Err(errors)) => {
            out.diags = errors.errors.iter().map(Diag::from_error).collect();
            out.silent_failure = out.diags.is_empty();
            out.events = penne::verif_trace::take();
            return out;
        }
        Err(e) => {
            out.panic = Some(format!("generator error: {e:#}"));
            out.events = penne::verif_trace::take();
            return out;
        }
    };
    out.lints = compiler.take_lints().iter().map(Diag::from_error).collect();
    out.ok = true;
    if upto == Upto::Ir {
        out.stage = "compile";
        match compiler.compile(&resolved) {
            Ok(()) => {}
            Err(e) => {
                out.ok = false;
                out.panic = Some(format!("generator error: {e:#}"));
                out.events = penne::verif_trace::take();
                return out;
            }
        }
        match compiler.generate_ir() {
            Ok(ir) => {
                out.stage = "ir";
                out.ir = Some(ir);
            }
            Err(e) => {
                out.ok = false;
                out.panic = Some(format!("generate_ir error: {e:#}"));
            }
        }
    }
    out.events = penne::verif_trace::take();
    out
}

/// Run textual IR through lli (the path `penne run` uses); returns (stdout, exit status).
pub fn run_lli(ir: &str, timeout_s: u64) -> Result<(String, i32), String> {
    use std::io::Write;
    use std::process::{Command, Stdio};
    let mut child = Command::new("timeout")
        .arg(format!("{timeout_s}"))
        .arg("lli")
        .stdin(Stdio::piped())
        .stdout(Stdio::piped())
        .stderr(Stdio::piped())
        .spawn()
        .map_err(|e| format!("spawn lli: {e}"))?;
    child
        .stdin
        .as_mut()
        .unwrap()
        .write_all(ir.as_bytes())
        .map_err(|e| format!("write lli: {e}"))?;
    let output = child.wait_with_output().map_err(|e| format!("wait lli: {e}"))?;
    let stdout = String::from_utf8_lossy(&output.stdout).to_string();
    match output.status.code() {
        Some(124) => Err("timeout".to_string()),
        Some(c) => Ok((stdout, c)),
        None => Err(format!("signal; stderr={}", String::from_utf8_lossy(&output.stderr))),
    }
}

//! Driving the first-generation compiler through its public API, in the
//! order `compile_to_ir_using_alpha` (src/main.rs) uses.

use penne::alpha::common::Declaration;
use penne::alpha::{Compiler, expander, lexer, parser, resolver, scoper};
use serde_json::{Value, json};

#[derive(Debug, Clone)]
pub struct Diag {
    pub code: u16,
    pub line: usize,
    pub col: usize,
    pub start: usize,
    pub end: usize,
    pub file: String,
}

impl Diag {
    pub fn from_error(e: &penne::alpha::Error) -> Diag {
        let l = e.verif_location();
        Diag {
            code: e.code(),
            line: l.line_number,
            col: l.line_offset,
            start: l.span.start,
            end: l.span.end,
            file: l.source_filename.clone(),
        }
    }
    pub fn to_json(&self) -> Value {
        json!([self.code, self.line])
    }
    pub fn to_json_full(&self) -> Value {
        json!({"code": self.code, "line": self.line, "col": self.col,
               "start": self.start, "end": self.end, "file": self.file})
    }
}

#[derive(Debug, Default)]
pub struct Outcome {
    /// the stage that was reached: "parse", "resolve", "compile", "ir"
    pub stage: &'static str,
    pub ok: bool,
    pub diags: Vec<Diag>,
    pub lints: Vec<Diag>,
    pub events: Vec<String>,
    pub panic: Option<String>,
    pub ir: Option<String>,
    /// failure with an empty list of errors
    pub silent_failure: bool,
}

impl Outcome {
    pub fn to_json(&self) -> Value {
        let mut v = json!({
            "ok": self.ok,
            "stage": self.stage,
            "diags": self.diags.iter().map(|d| d.to_json()).collect::<Vec<_>>(),
            "lints": self.lints.iter().map(|d| d.to_json()).collect::<Vec<_>>(),
        });
        if let Some(p) = &self.panic {
            v["panic"] = json!(p);
        }
        if self.silent_failure {
            v["silent"] = json!(true);
        }
        v
    }
}

pub fn install_quiet_panic_hook() {
    std::panic::set_hook(Box::new(|_| {}));
}

fn panic_message(e: Box<dyn std::any::Any + Send>) -> String {
    if let Some(s) = e.downcast_ref::<&str>() {
        s.to_string()
    } else if let Some(s) = e.downcast_ref::<String>() {
        s.clone()
    } else {
        "panic".to_string()
    }
}

#[derive(Clone, Copy, PartialEq, Eq)]
pub enum Upto {
    Resolve,
    Ir,
}

pub fn parse(source: &str, filename: &str) -> Vec<Declaration> {
    let tokens = lexer::lex(source, filename);
    parser::parse(tokens)
}

/// A module that is compiled BEFORE the module of a cell when PVH_PREMODULE is set: it leaves behind whatever the stages
/// keep per module -- resolution ids 1..40 of mutable variables of every common type, parameters, pointer parameters,
/// structure members, constants, labels -- and is itself accepted.  Nothing of it is visible in the module of the cell.
pub const PREMODULE: &str = "struct PreS\n{\n\tm0: i32,\n\tm1: u8,\n\tm2: i64,\n}\nconst PRE_K: i32 = 5i32;\nconst PRE_N: usize = 3usize;\n\
fn pre_g(q0: &i32, q1: []i32, q2: PreS) -> i32\n{\n\tq0 = 4i32;\n\treturn: q1[0usize] + q2.m0\n}\n\
fn pre_f(p0: i32, p1: &i32, p2: u8, p3: bool) -> i32\n{\n\
\tvar v0: i32 = 1i32;\n\tvar v1: u8 = 2u8;\n\tvar v2: i64 = 3i64;\n\tvar v3: bool = true;\n\tvar v4: usize = 4usize;\n\tvar v5: u16 = 5u16;\n\
\tvar v6: i8 = 6i8;\n\tvar v7: u32 = 7u32;\n\tvar v8: u64 = 8u64;\n\tvar v9: i16 = 9i16;\n\tvar va: [3]i32 = [1i32, 2i32, 3i32];\n\
\tvar vs: PreS = PreS { m0: 1i32, m1: 2u8, m2: 3i64 };\n\tvar vp: &i32 = &v0;\n\tvar vb: [PRE_N]u8 = [1u8, 2u8, 3u8];\n\
\tv0 = v0 + p0;\n\tv1 = v1 + p2;\n\tv2 = v2 + 1i64;\n\tv3 = p3;\n\tv4 = v4 + 1usize;\n\tv5 = v5 + 1u16;\n\tv6 = v6 + 1i8;\n\tv7 = v7 + 1u32;\n\
\tv8 = v8 + 1u64;\n\tv9 = v9 + 1i16;\n\tva[1usize] = 7i32;\n\tvs.m0 = 7i32;\n\tvs.m1 = 8u8;\n\tvp = 9i32;\n\tp1 = 3i32;\n\tvb[0usize] = 9u8;\n\
\t{\n\t\tif v3 == true\n\t\t\tgoto pre_out;\n\t\tv0 = v0 + PRE_K + pre_g(&v0, va, vs);\n\t\tpre_out:\n\t}\n\treturn: v0\n}\n";

/// With PVH_PREMODULE set (and no recording of hook events) every module compiled by `run_single` is the SECOND module of
/// its compilation: PREMODULE goes through the same `Compiler` first, as `penne pre.pn case.pn` would do it.
fn premodule_wanted(record: bool) -> bool {
    !record && std::env::var("PVH_PREMODULE").is_ok()
}

/// Compile one module. With `record` the hook events of all stages are kept.
pub fn run_single(source: &str, filename: &str, upto: Upto, record: bool) -> Outcome {
    let r = std::panic::catch_unwind(|| run_single_inner(source, filename, upto, record));
    match r {
        Ok(o) => o,
        Err(e) => {
            let events = penne::verif_trace::take();
            Outcome {
                stage: "panic",
                panic: Some(panic_message(e)),
                events,
                ..Default::default()
            }
        }
    }
}

fn run_single_inner(source: &str, filename: &str, upto: Upto, record: bool) -> Outcome {
    let mut out = Outcome::default();
    if record {
        penne::verif_trace::start();
    }
    let declarations = parse(source, filename);
    let declarations = expander::expand_one(filename, declarations);
    out.stage = "parse";
    if let Err(errors) = resolver::check_surface_level_errors(&declarations) {
        out.diags = errors.errors.iter().map(Diag::from_error).collect();
        out.silent_failure = out.diags.is_empty();
        out.events = penne::verif_trace::take();
        return out;
    }
    let declarations = scoper::analyze(declarations);
    let mut compiler = Compiler::default();
    if premodule_wanted(record) {
        let pre = expander::expand_one("pre.pn", parse(PREMODULE, "pre.pn"));
        let accepted = resolver::check_surface_level_errors(&pre).is_ok() && {
            let pre = scoper::analyze(pre);
            compiler.add_module("pre.pn").expect("add_module");
            match compiler.analyze_and_resolve(pre) {
                Ok(Ok(resolved)) => {
                    let _ = compiler.take_lints();
                    upto != Upto::Ir || compiler.compile(&resolved).is_ok()
                }
                _ => false,
            }
        };
        if !accepted {
            // the premodule itself must be accepted: anything else is a defect of this harness (or of the compiler on it)
            out.panic = Some("premodule rejected".to_string());
            return out;
        }
    }
    compiler.add_module(filename).expect("add_module");
    out.stage = "resolve";
    let resolved = match compiler.analyze_and_resolve(declarations) {
        Ok(Ok(resolved)) => resolved,
        Ok(Err(errors)) => {
            out.diags = errors.errors.iter().map(Diag::from_error).collect();
            out.silent_failure = out.diags.is_empty();
            out.events = penne::verif_trace::take();
            return out;
        }
        Err(e) => {
            out.panic = Some(format!("generator error: {e:#}"));
            out.events = penne::verif_trace::take();
            return out;
        }
    };
    out.lints = compiler.take_lints().iter().map(Diag::from_error).collect();
    out.ok = true;
    if upto == Upto::Ir {
        out.stage = "compile";
        match compiler.compile(&resolved) {
            Ok(()) => {}
            Err(e) => {
                out.ok = false;
                out.panic = Some(format!("generator error: {e:#}"));
                out.events = penne::verif_trace::take();
                return out;
            }
        }
        match compiler.generate_ir() {
            Ok(ir) => {
                out.stage = "ir";
                out.ir = Some(ir);
            }
            Err(e) => {
                out.ok = false;
                out.panic = Some(format!("generate_ir error: {e:#}"));
            }
        }
    }
    out.events = penne::verif_trace::take();
    out
}

/// Run textual IR through lli (the path `penne run` uses); returns (stdout, exit status).
/// The time limit is enforced here (not by timeout(1), whose status 124 a program may return itself).
pub fn run_lli(ir: &str, timeout_s: u64) -> Result<(String, i32), String> {
    use std::io::{Read, Write};
    use std::process::{Command, Stdio};
    let mut child = Command::new("lli")
        .stdin(Stdio::piped())
        .stdout(Stdio::piped())
        .stderr(Stdio::piped())
        .spawn()
        .map_err(|e| format!("spawn lli: {e}"))?;
    {
        let mut stdin = child.stdin.take().unwrap();
        // a program that exits before reading all of its input is not an error
        let _ = stdin.write_all(ir.as_bytes());
    }
    let mut stdout_pipe = child.stdout.take().unwrap();
    let mut stderr_pipe = child.stderr.take().unwrap();
    let out_thread = std::thread::spawn(move || {
        let mut buf = Vec::new();
        let mut limited = (&mut stdout_pipe).take(4 << 20);
        let _ = limited.read_to_end(&mut buf);
        // drain the rest so that the child never blocks on a full pipe
        let _ = std::io::copy(&mut stdout_pipe, &mut std::io::sink());
        buf
    });
    let err_thread = std::thread::spawn(move || {
        let mut buf = Vec::new();
        let mut limited = (&mut stderr_pipe).take(1 << 16);
        let _ = limited.read_to_end(&mut buf);
        let _ = std::io::copy(&mut stderr_pipe, &mut std::io::sink());
        buf
    });
    let deadline = std::time::Instant::now() + std::time::Duration::from_secs(timeout_s);
    let status = loop {
        match child.try_wait() {
            Ok(Some(st)) => break Some(st),
            Ok(None) => {
                if std::time::Instant::now() > deadline {
                    let _ = child.kill();
                    let _ = child.wait();
                    break None;
                }
                std::thread::sleep(std::time::Duration::from_millis(2));
            }
            Err(e) => return Err(format!("wait lli: {e}")),
        }
    };
    let stdout = String::from_utf8_lossy(&out_thread.join().unwrap_or_default()).to_string();
    let stderr = String::from_utf8_lossy(&err_thread.join().unwrap_or_default()).to_string();
    match status {
        None => Err("timeout".to_string()),
        Some(st) => match st.code() {
            Some(c) => Ok((stdout, c)),
            None => Err(format!("signal; stderr={}", stderr.chars().take(300).collect::<String>())),
        },
    }
}

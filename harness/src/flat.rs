//! Flat function bodies (spec/FlatBody vocabulary): one item per source line.
//!
//!   O {        IO if c {     EO else {     EIO else if c {     C }
//!   G n  goto n;   IG n  if c goto n;   EG n  else goto n;   EIG n  else if c goto n;
//!   L n  n:        V n   var n: i32 = 0;   U n  x = n;   S  x = x + 1;   LP  loop;
//!   I    if c      (naked then-branch follows)       E  else  (naked else-branch follows)
//! Added by the dimension audit (docs/notes-flat.md):
//!   F    `} fn g<k>() { var x: i32 = 0;`  one line: ends a function body and opens the next one
//!   RV n  the result expression `n` (only after `L return` at the end of a function body)
//!   W n  n = x;    (a use as assignment target)      VR n  var n: i32 = n;  (use in its own initialiser)
//!   M    h();      (a call statement)                V with an empty name: a fresh declaration
//!
//! `render` turns items into source, `project` turns the AST the real parser
//! built back into items (so that recorded traces log what the compiler saw).

use penne::alpha::common::*;

#[derive(Debug, Clone, PartialEq, Eq)]
pub struct Item {
    pub kind: String,
    pub name: String,
}

impl Item {
    pub fn parse(s: &str) -> Item {
        let split = s.find(|c: char| !c.is_ascii_uppercase()).unwrap_or(s.len());
        Item { kind: s[..split].to_string(), name: s[split..].to_string() }
    }
    pub fn new(kind: &str, name: &str) -> Item {
        Item { kind: kind.to_string(), name: name.to_string() }
    }
    pub fn to_string(&self) -> String {
        format!("{}{}", self.kind, self.name)
    }
    pub fn line(&self) -> String {
        let n = &self.name;
        match self.kind.as_str() {
            "O" => "{".to_string(),
            "C" => "}".to_string(),
            "IO" => "if x == x {".to_string(),
            "EO" => "else {".to_string(),
            "EIO" => "else if x == x {".to_string(),
            "G" => format!("goto {n};"),
            "IG" => format!("if x == x goto {n};"),
            "EG" => format!("else goto {n};"),
            "EIG" => format!("else if x == x goto {n};"),
            "L" => format!("{n}:"),
            "V" => format!("var {n}: i32 = 0;"),
            "U" => format!("x = {n};"),
            "W" => format!("{n} = x;"),
            "VR" => format!("var {n}: i32 = {n};"),
            "RV" => format!("{n}"),
            "M" => "h();".to_string(),
            "MX" => "h(x);".to_string(),
            "MY" => "hp(x);".to_string(),
            "SX" => "cx = cx + 1;".to_string(),
            "S" => "x = x + 1;".to_string(),
            "LP" => "loop;".to_string(),
            "I" => "if x == x".to_string(),
            "E" => "else".to_string(),
            k => panic!("unknown item kind {k}"),
        }
    }
}

pub struct Rendered {
    pub source: String,
    /// item p (1-based) is on line off + p
    pub off: usize,
    /// line of each constant / parameter declaration, by name
    pub const_lines: Vec<(String, usize)>,
    pub param_lines: Vec<(String, usize)>,
}

/// Dimensions of the rendering that are no part of any rule (docs/notes-flat.md, "layouts").
#[derive(Debug, Clone, Default)]
pub struct Layout {
    /// labels declared by a function `decoy` that precedes everything (C04 "into another function")
    pub decoy: Vec<String>,
    /// the constants follow the last function instead of preceding the first
    pub consts_after: bool,
    /// every function has a result: `-> i32` and ends with `return: x`
    pub ret: bool,
    /// the first function has a leading parameter `p0: i32` (on the line of `fn f(`)
    pub pparam: bool,
    /// a comment at the end of every item line
    pub comments: bool,
    /// the file does not end with a newline (its last byte is the `}` of the last function)
    pub no_final_newline: bool,
    /// label put in front of the `}` that ends every function but the last one (C06: gotos target `z`)
    pub end_label: Option<String>,
    /// names are replaced consistently (labels named like the variable, the function, ...)
    pub rename: Vec<(String, String)>,
    /// 0: `var n: i32 = 0;`  1: `var n: i32;`  2: `var n = 0i32;`
    pub var_form: u8,
    /// every condition has a parenthesised left operand: `if (x + 0) == x` (the bare identifier in front of a block
    /// must still not be read as a structure literal)
    pub paren_cond: bool,
}

impl Layout {
    pub fn from_json(v: &serde_json::Value) -> Layout {
        let b = |k: &str| v[k].as_bool().unwrap_or(false);
        Layout {
            decoy: Vec::new(),
            consts_after: b("consts_after"),
            ret: b("ret"),
            pparam: b("pparam"),
            comments: b("comments"),
            no_final_newline: b("nonl"),
            end_label: v["end_label"].as_str().map(|s| s.to_string()),
            rename: v["rename"]
                .as_object()
                .map(|m| m.iter().map(|(k, x)| (k.clone(), x.as_str().unwrap_or("").to_string())).collect())
                .unwrap_or_default(),
            var_form: v["var_form"].as_u64().unwrap_or(0) as u8,
            paren_cond: b("paren_cond"),
        }
    }
    fn name(&self, n: &str) -> String {
        self.rename.iter().find(|(a, _)| a == n).map(|(_, b)| b.clone()).unwrap_or_else(|| n.to_string())
    }
}

/// Render a function `f` with the given constants (each `const n: i32 = 7;`),
/// parameters (each `n: i32`, one per line) and body items.
pub fn render(items: &[Item], consts: &[String], params: &[String]) -> Rendered {
    render_with_decoy(items, consts, params, &[])
}

/// As `render`, preceded by a function `decoy` that declares the given labels: labels of another
/// function must never be legal targets (C04 "into another function").
pub fn render_with_decoy(items: &[Item], consts: &[String], params: &[String], decoy: &[String]) -> Rendered {
    render_layout(items, consts, params, &Layout { decoy: decoy.to_vec(), ..Default::default() })
}

/// The general renderer: one item per line; item p is on line off + p whatever the layout is.
pub fn render_layout(items: &[Item], consts: &[String], params: &[String], lay: &Layout) -> Rendered {
    let mut src = String::new();
    let mut line = 0;
    if !lay.decoy.is_empty() {
        src.push_str("fn decoy()\n{\n");
        line += 2;
        for l in &lay.decoy {
            src.push_str(&format!("{}:\n", lay.name(l)));
            line += 1;
        }
        src.push_str("}\n");
        line += 1;
    }
    let mut const_lines = Vec::new();
    let mut param_lines = Vec::new();
    if !lay.consts_after {
        for c in consts {
            src.push_str(&format!("const {c}: i32 = 7;\n"));
            line += 1;
            const_lines.push((c.clone(), line));
        }
    }
    // a function has a result when the layout says so or when its body ends with `L return`, `RV n`
    let seg_has_result = |start: usize| -> bool {
        let end = items[start..].iter().position(|x| x.kind == "F").map(|e| start + e).unwrap_or(items.len());
        lay.ret || (end > start && items[end - 1].kind == "RV")
    };
    let arrow = |yes: bool| if yes { " -> i32" } else { "" };
    let result = arrow(seg_has_result(0));
    let comma0 = if params.is_empty() { "" } else { "," };
    if lay.pparam {
        src.push_str(&format!("fn f(p0: i32{comma0}\n"));
    } else {
        src.push_str("fn f(\n");
    }
    line += 1;
    for (i, p) in params.iter().enumerate() {
        let comma = if i + 1 < params.len() { "," } else { "" };
        src.push_str(&format!("{p}: i32{comma}\n"));
        line += 1;
        param_lines.push((p.clone(), line));
    }
    src.push_str(&format!("){result}\n{{\nvar x: i32 = 0;\n"));
    line += 3;
    let off = line;
    let mut nfn = 0;
    // the brace that ends a function body; a body that ends with its own result expression needs no `return: x`
    let close = |own: bool| if lay.ret && !own { "return: x }" } else { "}" };
    for (i, it) in items.iter().enumerate() {
        let text = match it.kind.as_str() {
            "F" => {
                nfn += 1;
                let lab = lay.end_label.as_ref().map(|l| format!("{l}: ")).unwrap_or_default();
                let own = i > 0 && items[i - 1].kind == "RV";
                format!("{lab}{} fn g{nfn}(){} {{ var x: i32 = 0;", close(own), arrow(seg_has_result(i + 1)))
            }
            "Z" => format!("var zz{i}: [0]i32 = [];"),
            "V" if lay.var_form == 1 => format!("var {}: i32;", lay.name(&it.name)),
            "V" if lay.var_form == 2 => format!("var {} = 0i32;", lay.name(&it.name)),
            _ => Item::new(&it.kind, &lay.name(&it.name)).line(),
        };
        let text = if lay.paren_cond { text.replace("if x == x", "if (x + 0) == x") } else { text };
        src.push_str(&text);
        if lay.comments {
            src.push_str(&format!(" // {} goto x; }} {{ c{i}", it.kind.to_lowercase()));
        }
        src.push('\n');
    }
    let own_result = items.last().map(|x| x.kind == "RV").unwrap_or(false);
    src.push_str(close(own_result));
    src.push('\n');
    line += items.len() + 1;
    if items.iter().any(|x| x.kind == "M" || x.kind == "MX") {
        src.push_str("fn h()\n{\n}\n");
        line += 3;
    }
    if items.iter().any(|x| x.kind == "MY") {
        src.push_str("fn hp(p: &i32)\n{\n}\n");
        line += 3;
    }
    if items.iter().any(|x| x.kind == "SX") {
        src.push_str("const cx: i32 = 7;\n");
        line += 1;
    }
    if lay.consts_after {
        for c in consts {
            src.push_str(&format!("const {c}: i32 = 7;\n"));
            line += 1;
            const_lines.push((c.clone(), line));
        }
    }
    if lay.no_final_newline {
        src.pop();
    }
    Rendered { source: src, off, const_lines, param_lines }
}

pub struct Projection {
    pub consts: Vec<(String, usize)>,
    pub params: Vec<(String, usize)>,
    pub items: Vec<Item>,
    pub lines: Vec<usize>,
}

fn line_of_offset(source: &str, offset: usize) -> usize {
    // alpha locations count characters
    1 + source.chars().take(offset).filter(|c| *c == '\n').count()
}

struct Projector<'a> {
    source: &'a str,
    items: Vec<Item>,
    lines: Vec<usize>,
    ok: bool,
}

impl<'a> Projector<'a> {
    fn push(&mut self, kind: &str, name: &str, line: usize) {
        self.items.push(Item::new(kind, name));
        self.lines.push(line);
    }

    fn block(&mut self, opener: &str, opener_line: usize, block: &Block) {
        self.push(opener, "", opener_line);
        for s in &block.statements {
            self.statement(s);
        }
        let close_line = line_of_offset(self.source, block.location.span.end.saturating_sub(1));
        self.push("C", "", close_line);
    }

    fn statement(&mut self, s: &Statement) {
        match s {
            Statement::Declaration { name, value, location, .. } => {
                // `var n: i32 = n;` reads n in its own initialiser
                let reflexive = match value {
                    Some(Expression::Deref { reference, .. }) if reference.is_trivial() => {
                        reference.base.as_ref().map(|x| x.name == name.name).unwrap_or(false)
                    }
                    _ => false,
                };
                self.push(if reflexive { "VR" } else { "V" }, &name.name, location.line_number)
            }
            Statement::Assignment { reference, value, location } => {
                let base = reference.base.as_ref().map(|x| x.name.clone()).unwrap_or_default();
                if !reference.is_trivial() {
                    self.ok = false;
                }
                if base != "x" {
                    // `n = x;`
                    match value {
                        Expression::Deref { reference, .. }
                            if reference.is_trivial() && reference.base.as_ref().map(|x| x.name == "x").unwrap_or(false) =>
                        {
                            self.push("W", &base, location.line_number)
                        }
                        _ => self.ok = false,
                    }
                    return;
                }
                match value {
                    Expression::Deref { reference, .. } if reference.is_trivial() => {
                        let n = reference.base.as_ref().map(|x| x.name.clone()).unwrap_or_default();
                        self.push("U", &n, location.line_number)
                    }
                    Expression::Binary { .. } => self.push("S", "", location.line_number),
                    _ => self.ok = false,
                }
            }
            Statement::MethodCall { name, arguments, .. } => {
                if name.name == "h" && arguments.is_empty() {
                    self.push("M", "", name.location.line_number)
                } else {
                    self.ok = false
                }
            }
            Statement::Loop { location } => self.push("LP", "", location.line_number),
            Statement::Goto { label, location } => self.push("G", &label.name, location.line_number),
            Statement::Label { label, location } => self.push("L", &label.name, location.line_number),
            Statement::If { condition: _, then_branch, else_branch, location } => {
                self.push("I", "", location.line_number);
                self.statement(then_branch);
                if let Some(e) = else_branch {
                    self.push("E", "", e.location_of_else.line_number);
                    self.statement(&e.branch);
                }
            }
            Statement::Block(b) => self.block("O", b.location.line_number, b),
            Statement::Poison(_) => self.ok = false,
        }
    }
}

/// Project freshly parsed declarations (before scoping) onto the flat vocabulary.
/// The first statement `var x: i32 = 0;` of every function is the fixed prelude and is skipped; a
/// function `g<k>` after the first one becomes an item `F` on the line of its name (the renderer puts
/// the whole function head and the prelude on that line).
pub fn project(source: &str, declarations: &[Declaration]) -> Option<Projection> {
    let mut consts = Vec::new();
    let mut params = Vec::new();
    let mut p = Projector { source, items: Vec::new(), lines: Vec::new(), ok: true };
    let mut seen_fn = false;
    for d in declarations {
        match d {
            Declaration::Constant { name, .. } => consts.push((name.name.clone(), name.location.line_number)),
            Declaration::Function { name, .. } if name.name == "decoy" || name.name == "h" => continue,
            Declaration::Function { name, parameters, body: Ok(body), .. } => {
                if !seen_fn {
                    if name.name != "f" {
                        return None;
                    }
                    for par in parameters {
                        let n = par.name.as_ref().ok()?;
                        if n.name != "p0" {
                            params.push((n.name.clone(), n.location.line_number));
                        }
                    }
                } else {
                    if !name.name.starts_with('g') || !parameters.is_empty() {
                        return None;
                    }
                    p.push("F", "x", name.location.line_number);
                }
                let mut first = true;
                for s in &body.statements {
                    if first {
                        first = false;
                        match s {
                            Statement::Declaration { name: v, location, .. } if v.name == "x" => {
                                if seen_fn && location.line_number != name.location.line_number {
                                    return None;
                                }
                                continue;
                            }
                            _ => return None,
                        }
                    }
                    p.statement(s);
                }
                if first {
                    return None;
                }
                seen_fn = true;
                // the result expression: an item of its own unless it is the layout's `return: x }`
                if let Some(value) = &body.return_value {
                    match value {
                        Expression::Deref { reference, .. } if reference.is_trivial() => {
                            let n = reference.base.as_ref().map(|x| x.name.clone()).unwrap_or_default();
                            let location = &reference.location;
                            let label_line = p.lines.last().copied().unwrap_or(0);
                            if location.line_number == label_line && n == "x" {
                                // `return: x }` of the layout: the label is no item either
                                p.items.pop();
                                p.lines.pop();
                            } else {
                                p.push("RV", &n, location.line_number);
                            }
                        }
                        _ => return None,
                    }
                }
            }
            _ => return None,
        }
    }
    if !seen_fn || !p.ok {
        return None;
    }
    let (items, lines) = merge_same_line(p.items, p.lines);
    Some(Projection { consts, params, items, lines })
}

/// Tokens that share a source line are merged into the compact item forms.
fn merge_same_line(items: Vec<Item>, lines: Vec<usize>) -> (Vec<Item>, Vec<usize>) {
    let mut out_items = Vec::new();
    let mut out_lines = Vec::new();
    let mut i = 0;
    while i < items.len() {
        let same = |j: usize| j < items.len() && lines[j] == lines[i];
        let k = |j: usize| items[j].kind.as_str();
        let (item, used) = if same(i + 2) && k(i) == "E" && k(i + 1) == "I" && k(i + 2) == "G" {
            (Item::new("EIG", &items[i + 2].name), 3)
        } else if same(i + 2) && k(i) == "E" && k(i + 1) == "I" && k(i + 2) == "O" {
            (Item::new("EIO", ""), 3)
        } else if same(i + 1) && k(i) == "I" && k(i + 1) == "G" {
            (Item::new("IG", &items[i + 1].name), 2)
        } else if same(i + 1) && k(i) == "I" && k(i + 1) == "O" {
            (Item::new("IO", ""), 2)
        } else if same(i + 1) && k(i) == "E" && k(i + 1) == "G" {
            (Item::new("EG", &items[i + 1].name), 2)
        } else if same(i + 1) && k(i) == "E" && k(i + 1) == "O" {
            (Item::new("EO", ""), 2)
        } else {
            (items[i].clone(), 1)
        };
        out_items.push(item);
        out_lines.push(lines[i]);
        i += used;
    }
    (out_items, out_lines)
}

/// Expand compact items into primitive tokens (kind, name, position of the item).
pub fn expand(items: &[Item]) -> Vec<(String, String, usize)> {
    let mut out = Vec::new();
    for (i, it) in items.iter().enumerate() {
        let p = i + 1;
        let n = it.name.clone();
        let mut t = |k: &str, n: &str| out.push((k.to_string(), n.to_string(), p));
        match it.kind.as_str() {
            "IG" => { t("I", ""); t("G", &n); }
            "IO" => { t("I", ""); t("O", ""); }
            "EG" => { t("E", ""); t("G", &n); }
            "EO" => { t("E", ""); t("O", ""); }
            "EIG" => { t("E", ""); t("I", ""); t("G", &n); }
            "EIO" => { t("E", ""); t("I", ""); t("O", ""); }
            // the result expression is no statement; a new function starts with its prelude `var x`
            "RV" => {}
            "F" => { t("F", ""); t("V", "x"); }
            "VR" => t("V", &n),
            "W" | "U" => t("S", ""),
            k => t(k, &n),
        }
    }
    out
}

//! Flat function bodies (spec/FlatBody vocabulary): one item per source line.
//!
//!   O {        IO if c {     EO else {     EIO else if c {     C }
//!   G n  goto n;   IG n  if c goto n;   EG n  else goto n;   EIG n  else if c goto n;
//!   L n  n:        V n   var n: i32 = 0;   U n  x = n;   S  x = x + 1;   LP  loop;
//!   I    if c      (naked then-branch follows)       E  else  (naked else-branch follows)
//!
//! `render` turns items into source, `project` turns the AST the real parser
//! built back into items (so that recorded traces log what the compiler saw).

use penne::alpha::common::*;

#[derive(Debug, Clone, PartialEq, Eq)]
pub struct Item {
    pub kind: String,
    pub name: String,
}

impl Item {
    pub fn parse(s: &str) -> Item {
        let split = s.find(|c: char| !c.is_ascii_uppercase()).unwrap_or(s.len());
        Item { kind: s[..split].to_string(), name: s[split..].to_string() }
    }
    pub fn new(kind: &str, name: &str) -> Item {
        Item { kind: kind.to_string(), name: name.to_string() }
    }
    pub fn to_string(&self) -> String {
        format!("{}{}", self.kind, self.name)
    }
    pub fn line(&self) -> String {
        let n = &self.name;
        match self.kind.as_str() {
            "O" => "{".to_string(),
            "C" => "}".to_string(),
            "IO" => "if x == x {".to_string(),
            "EO" => "else {".to_string(),
            "EIO" => "else if x == x {".to_string(),
            "G" => format!("goto {n};"),
            "IG" => format!("if x == x goto {n};"),
            "EG" => format!("else goto {n};"),
            "EIG" => format!("else if x == x goto {n};"),
            "L" => format!("{n}:"),
            "V" => format!("var {n}: i32 = 0;"),
            "U" => format!("x = {n};"),
            "S" => "x = x + 1;".to_string(),
            "LP" => "loop;".to_string(),
            "I" => "if x == x".to_string(),
            "E" => "else".to_string(),
            k => panic!("unknown item kind {k}"),
        }
    }
}

pub struct Rendered {
    pub source: String,
    /// item p (1-based) is on line off + p
    pub off: usize,
    /// line of each constant / parameter declaration, by name
    pub const_lines: Vec<(String, usize)>,
    pub param_lines: Vec<(String, usize)>,
}

/// Render a function `f` with the given constants (each `const n: i32 = 7;`),
/// parameters (each `n: i32`, one per line) and body items.
pub fn render(items: &[Item], consts: &[String], params: &[String]) -> Rendered {
    render_with_decoy(items, consts, params, &[])
}

/// As `render`, preceded by a function `decoy` that declares the given labels: labels of another
/// function must never be legal targets (C04 "into another function").
pub fn render_with_decoy(items: &[Item], consts: &[String], params: &[String], decoy: &[String]) -> Rendered {
    let mut src = String::new();
    let mut line = 0;
    if !decoy.is_empty() {
        src.push_str("fn decoy()\n{\n");
        line += 2;
        for l in decoy {
            src.push_str(&format!("{l}:\n"));
            line += 1;
        }
        src.push_str("}\n");
        line += 1;
    }
    let mut const_lines = Vec::new();
    let mut param_lines = Vec::new();
    for c in consts {
        src.push_str(&format!("const {c}: i32 = 7;\n"));
        line += 1;
        const_lines.push((c.clone(), line));
    }
    src.push_str("fn f(\n");
    line += 1;
    for (i, p) in params.iter().enumerate() {
        let comma = if i + 1 < params.len() { "," } else { "" };
        src.push_str(&format!("{p}: i32{comma}\n"));
        line += 1;
        param_lines.push((p.clone(), line));
    }
    src.push_str(")\n{\nvar x: i32 = 0;\n");
    line += 3;
    let off = line;
    let mut depth = 1;
    for it in items {
        if it.kind == "C" {
            depth -= 1;
        }
        let _ = depth;
        src.push_str(&it.line());
        src.push('\n');
        if matches!(it.kind.as_str(), "O" | "IO" | "EO" | "EIO") {
            depth += 1;
        }
    }
    src.push_str("}\n");
    Rendered { source: src, off, const_lines, param_lines }
}

pub struct Projection {
    pub consts: Vec<(String, usize)>,
    pub params: Vec<(String, usize)>,
    pub items: Vec<Item>,
    pub lines: Vec<usize>,
}

fn line_of_offset(source: &str, offset: usize) -> usize {
    // alpha locations count characters
    1 + source.chars().take(offset).filter(|c| *c == '\n').count()
}

struct Projector<'a> {
    source: &'a str,
    items: Vec<Item>,
    lines: Vec<usize>,
    ok: bool,
}

impl<'a> Projector<'a> {
    fn push(&mut self, kind: &str, name: &str, line: usize) {
        self.items.push(Item::new(kind, name));
        self.lines.push(line);
    }

    fn block(&mut self, opener: &str, opener_line: usize, block: &Block) {
        self.push(opener, "", opener_line);
        for s in &block.statements {
            self.statement(s);
        }
        let close_line = line_of_offset(self.source, block.location.span.end.saturating_sub(1));
        self.push("C", "", close_line);
    }

    fn statement(&mut self, s: &Statement) {
        match s {
            Statement::Declaration { name, location, .. } => self.push("V", &name.name, location.line_number),
            Statement::Assignment { reference, value, location } => {
                let base = reference.base.as_ref().map(|x| x.name.clone()).unwrap_or_default();
                if base != "x" || !reference.is_trivial() {
                    self.ok = false;
                }
                match value {
                    Expression::Deref { reference, .. } if reference.is_trivial() => {
                        let n = reference.base.as_ref().map(|x| x.name.clone()).unwrap_or_default();
                        self.push("U", &n, location.line_number)
                    }
                    Expression::Binary { .. } => self.push("S", "", location.line_number),
                    _ => self.ok = false,
                }
            }
            Statement::MethodCall { .. } => self.ok = false,
            Statement::Loop { location } => self.push("LP", "", location.line_number),
            Statement::Goto { label, location } => self.push("G", &label.name, location.line_number),
            Statement::Label { label, location } => self.push("L", &label.name, location.line_number),
            Statement::If { condition: _, then_branch, else_branch, location } => {
                self.push("I", "", location.line_number);
                self.statement(then_branch);
                if let Some(e) = else_branch {
                    self.push("E", "", e.location_of_else.line_number);
                    self.statement(&e.branch);
                }
            }
            Statement::Block(b) => self.block("O", b.location.line_number, b),
            Statement::Poison(_) => self.ok = false,
        }
    }
}

/// Project freshly parsed declarations (before scoping) onto the flat vocabulary.
/// The first statement `var x: i32 = 0;` of the function is the fixed prelude and is skipped.
pub fn project(source: &str, declarations: &[Declaration]) -> Option<Projection> {
    let mut consts = Vec::new();
    let mut params = Vec::new();
    let mut p = Projector { source, items: Vec::new(), lines: Vec::new(), ok: true };
    let mut seen_fn = false;
    for d in declarations {
        match d {
            Declaration::Constant { name, .. } => consts.push((name.name.clone(), name.location.line_number)),
            Declaration::Function { name, .. } if name.name == "decoy" => continue,
            Declaration::Function { parameters, body: Ok(body), .. } if !seen_fn => {
                seen_fn = true;
                for par in parameters {
                    let n = par.name.as_ref().ok()?;
                    params.push((n.name.clone(), n.location.line_number));
                }
                let mut first = true;
                for s in &body.statements {
                    if first {
                        first = false;
                        match s {
                            Statement::Declaration { name, .. } if name.name == "x" => continue,
                            _ => return None,
                        }
                    }
                    p.statement(s);
                }
            }
            _ => return None,
        }
    }
    if !seen_fn || !p.ok {
        return None;
    }
    let (items, lines) = merge_same_line(p.items, p.lines);
    Some(Projection { consts, params, items, lines })
}

/// Tokens that share a source line are merged into the compact item forms.
fn merge_same_line(items: Vec<Item>, lines: Vec<usize>) -> (Vec<Item>, Vec<usize>) {
    let mut out_items = Vec::new();
    let mut out_lines = Vec::new();
    let mut i = 0;
    while i < items.len() {
        let same = |j: usize| j < items.len() && lines[j] == lines[i];
        let k = |j: usize| items[j].kind.as_str();
        let (item, used) = if same(i + 2) && k(i) == "E" && k(i + 1) == "I" && k(i + 2) == "G" {
            (Item::new("EIG", &items[i + 2].name), 3)
        } else if same(i + 2) && k(i) == "E" && k(i + 1) == "I" && k(i + 2) == "O" {
            (Item::new("EIO", ""), 3)
        } else if same(i + 1) && k(i) == "I" && k(i + 1) == "G" {
            (Item::new("IG", &items[i + 1].name), 2)
        } else if same(i + 1) && k(i) == "I" && k(i + 1) == "O" {
            (Item::new("IO", ""), 2)
        } else if same(i + 1) && k(i) == "E" && k(i + 1) == "G" {
            (Item::new("EG", &items[i + 1].name), 2)
        } else if same(i + 1) && k(i) == "E" && k(i + 1) == "O" {
            (Item::new("EO", ""), 2)
        } else {
            (items[i].clone(), 1)
        };
        out_items.push(item);
        out_lines.push(lines[i]);
        i += used;
    }
    (out_items, out_lines)
}

/// Expand compact items into primitive tokens (kind, name, position of the item).
pub fn expand(items: &[Item]) -> Vec<(String, String, usize)> {
    let mut out = Vec::new();
    for (i, it) in items.iter().enumerate() {
        let p = i + 1;
        let n = it.name.clone();
        let mut t = |k: &str, n: &str| out.push((k.to_string(), n.to_string(), p));
        match it.kind.as_str() {
            "IG" => { t("I", ""); t("G", &n); }
            "IO" => { t("I", ""); t("O", ""); }
            "EG" => { t("E", ""); t("G", &n); }
            "EO" => { t("E", ""); t("O", ""); }
            "EIG" => { t("E", ""); t("I", ""); t("G", &n); }
            "EIO" => { t("E", ""); t("I", ""); t("O", ""); }
            k => t(k, &n),
        }
    }
    out
}

//! pvh -- the Rust side of the verification harness: renders abstract inputs, drives the real
//! compiler through its public API (with the `penne_verif` hooks on), projects what it built back
//! onto the abstract vocabulary of the TLA+ specifications, and records hook events.
//!
//! Shared modules live here; each property group has its own binary under src/bin/.

pub mod alpha;
pub mod flat;
pub mod flatgen;
pub mod rng;
pub mod util;

//! Abstract programs (the JSON exchange format of spec/Machine.tla) -> Penne source text.
//! Layout variant 0 is canonical (one item per line); other variants add random whitespace,
//! comments, line breaks and redundant parentheses (the metamorphic part of C01).

use pvh::rng::Rng;
use serde_json::Value;

pub struct Layout {
    pub rng: Option<Rng>,
}

impl Layout {
    pub fn canonical() -> Layout {
        Layout { rng: None }
    }
    pub fn random(seed: u64, stream: u64) -> Layout {
        Layout { rng: Some(Rng::new(seed, stream)) }
    }
    fn sp(&mut self) -> String {
        match &mut self.rng {
            None => " ".to_string(),
            Some(r) => match r.below(10) {
                0 => "  ".to_string(),
                1 => "\t".to_string(),
                2 => "\n\t".to_string(),
                3 => " // c\n".to_string(),
                4 => " /// doc \n ".to_string(),
                _ => " ".to_string(),
            },
        }
    }
    fn nl(&mut self) -> String {
        match &mut self.rng {
            None => "\n".to_string(),
            Some(r) => match r.below(6) {
                0 => "\r\n".to_string(),
                1 => "\n\n".to_string(),
                2 => " ".to_string(),
                3 => "\n// comment ; } {\n".to_string(),
                _ => "\n".to_string(),
            },
        }
    }
    fn extra_parens(&mut self) -> bool {
        match &mut self.rng {
            None => false,
            Some(r) => r.chance(20),
        }
    }
}

fn limbs_to_u128(v: &Value) -> u128 {
    let mut x: u128 = 0;
    if let Some(a) = v.as_array() {
        for (i, l) in a.iter().enumerate() {
            x |= (l.as_u64().unwrap_or(0) as u128) << (8 * i);
        }
    }
    x
}

fn width(t: &str) -> u32 {
    match t {
        "i8" | "u8" | "char8" | "bool" => 8,
        "i16" | "u16" => 16,
        "i32" | "u32" => 32,
        "i64" | "u64" | "usize" => 64,
        _ => 128,
    }
}

fn is_signed(t: &str) -> bool {
    t.starts_with('i')
}

pub fn literal(t: &str, v: &Value) -> String {
    let x = limbs_to_u128(v);
    if t == "bool" {
        return if x != 0 { "true".to_string() } else { "false".to_string() };
    }
    let w = width(t);
    if is_signed(t) && (x >> (w - 1)) & 1 == 1 {
        // negative: magnitude = 2^w - x
        let mag: u128 = if w == 128 { (!x).wrapping_add(1) } else { (1u128 << w) - x };
        if w == 128 && mag == (1u128 << 127) {
            return format!("(-170141183460469231731687303715884105727i128 - 1i128)");
        }
        format!("-{mag}{t}")
    } else {
        format!("{x}{t}")
    }
}

/// a type term of the exchange format (or, in stage-1 programs, a plain string) as source text
pub fn ty(t: &Value) -> String {
    if let Some(s) = t.as_str() {
        return s.to_string();
    }
    match t["k"].as_str().unwrap_or("") {
        "prim" => t["t"].as_str().unwrap().to_string(),
        "ptr" => format!("&{}", ty(&t["e"])),
        "view" => format!("[]{}", ty(&t["e"])),
        "array" => match t.get("nc").and_then(|x| x.as_str()) {
            Some(name) => format!("[{name}]{}", ty(&t["e"])),
            None => format!("[{}]{}", t["n"].as_u64().unwrap_or(0), ty(&t["e"])),
        },
        "named" => t["n"].as_str().unwrap().to_string(),
        other => panic!("unknown type kind {other}"),
    }
}

fn is_void(t: &Value) -> bool {
    t.as_str() == Some("void") || t["k"] == "void" || t.is_null()
}

/// `&&x[i].m`: address markers, base, steps
fn reference(r: &Value, lay: &mut Layout) -> String {
    let mut s = String::new();
    for _ in 0..r["addr"].as_u64().unwrap_or(0) {
        s.push('&');
    }
    s.push_str(r["x"].as_str().unwrap());
    if let Some(steps) = r["steps"].as_array() {
        for st in steps {
            match st["k"].as_str().unwrap_or("") {
                "i" => s.push_str(&format!("[{}]", expr(&st["e"], lay))),
                "m" => s.push_str(&format!(".{}", st["m"].as_str().unwrap())),
                other => panic!("unknown step kind {other}"),
            }
        }
    }
    s
}

pub fn expr(e: &Value, lay: &mut Layout) -> String {
    let k = e["k"].as_str().unwrap_or("");
    let s = match k {
        "ref" => reference(e, lay),
        "st" => {
            let parts: Vec<String> = e["fs"]
                .as_array()
                .unwrap()
                .iter()
                .map(|f| {
                    let m = f["m"].as_str().unwrap();
                    // field shorthand `S { from }` for `S { from: from }` is a layout variation
                    if f["e"]["k"] == "var" && f["e"]["x"].as_str() == Some(m) && lay.extra_parens() {
                        m.to_string()
                    } else {
                        format!("{m}:{}{}", lay.sp(), expr(&f["e"], lay))
                    }
                })
                .collect();
            format!("{}{}{{{}{}{}}}", e["n"].as_str().unwrap(), lay.sp(), lay.sp(), parts.join(", "), lay.sp())
        }
        "call" => {
            let args: Vec<String> = e["args"].as_array().unwrap().iter().map(|x| expr(x, lay)).collect();
            format!("{}({})", e["f"].as_str().unwrap(), args.join(", "))
        }
        "sizeof" => format!("|:{}|", ty(&e["ty"])),
        "lit" => literal(e["t"].as_str().unwrap(), &e["v"]),
        "var" => e["x"].as_str().unwrap().to_string(),
        "paren" => format!("({})", expr(&e["e"], lay)),
        "bin" => {
            let l = operand(&e["l"], lay);
            let r = operand(&e["r"], lay);
            format!("{l}{}{}{}{r}", lay.sp(), e["op"].as_str().unwrap(), lay.sp())
        }
        "un" => format!("{}{}", e["op"].as_str().unwrap(), primary(&e["e"], lay)),
        "as" => format!("{}{}as{}{}", operand(&e["e"], lay), lay.sp(), lay.sp(), e["t"].as_str().unwrap()),
        "arr" => {
            let parts: Vec<String> = e["es"].as_array().unwrap().iter().map(|x| expr(x, lay)).collect();
            format!("[{}]", parts.join(", "))
        }
        "idx" => format!("{}[{}]", e["x"].as_str().unwrap(), expr(&e["i"], lay)),
        "len" => match e.get("r") {
            Some(r) => format!("|{}|", reference(r, lay)),
            None => format!("|{}|", e["x"].as_str().unwrap()),
        },
        other => panic!("unknown expression kind {other}"),
    };
    // (an address `&x` is not an expression that can be parenthesised; aggregates keep their literal form)
    let plain = k == "arr" || k == "st" || (k == "ref" && e["addr"].as_u64().unwrap_or(0) > 0);
    if !plain && lay.extra_parens() { format!("({s})") } else { s }
}

/// an operand of a binary operator or of `as`: compound expressions are parenthesised
fn operand(e: &Value, lay: &mut Layout) -> String {
    match e["k"].as_str().unwrap_or("") {
        "bin" | "as" => format!("({})", expr(e, lay)),
        "lit" => {
            let s = expr(e, lay);
            if s.starts_with('-') { format!("({s})") } else { s }
        }
        _ => expr(e, lay),
    }
}

/// the operand of a unary operator must be a primary expression
fn primary(e: &Value, lay: &mut Layout) -> String {
    match e["k"].as_str().unwrap_or("") {
        "var" | "paren" | "idx" | "len" | "ref" => expr(e, lay),
        "lit" => {
            let s = expr(e, lay);
            if s.starts_with('-') || s.starts_with('(') { format!("({s})") } else { s }
        }
        _ => format!("({})", expr(e, lay)),
    }
}

fn cond(c: &Value, lay: &mut Layout) -> String {
    format!("{}{}{}{}{}", operand(&c["l"], lay), lay.sp(), c["op"].as_str().unwrap(), lay.sp(), operand(&c["r"], lay))
}

pub fn item(it: &Value, lay: &mut Layout, res: Option<&Value>) -> String {
    let k = it["k"].as_str().unwrap_or("");
    let n = it["n"].as_str().unwrap_or("");
    match k {
        "O" => "{".to_string(),
        "C" => "}".to_string(),
        "IO" => format!("if{}{}{}{{", lay.sp(), cond(&it["c"], lay), lay.sp()),
        "EO" => format!("else{}{{", lay.sp()),
        "EIO" => format!("else{}if{}{}{}{{", lay.sp(), lay.sp(), cond(&it["c"], lay), lay.sp()),
        "G" => format!("goto{}{n};", lay.sp()),
        "IG" => format!("if{}{}{}goto{}{n};", lay.sp(), cond(&it["c"], lay), lay.sp(), lay.sp()),
        "EG" => format!("else{}goto{}{n};", lay.sp(), lay.sp()),
        "EIG" => format!("else{}if{}{}{}goto{}{n};", lay.sp(), lay.sp(), cond(&it["c"], lay), lay.sp(), lay.sp()),
        "L" => {
            if n == "return" {
                format!("return:{}{}", lay.sp(), expr(res.expect("return label needs a result"), lay))
            } else {
                format!("{n}:")
            }
        }
        "LP" => "loop;".to_string(),
        "V" => {
            let t = if it.get("ty").is_some() { ty(&it["ty"]) } else { ty(&it["t"]) };
            match it.get("e") {
                Some(e) => format!("var{}{}:{}{}{}={}{};", lay.sp(), it["x"].as_str().unwrap(), lay.sp(), t, lay.sp(), lay.sp(), expr(e, lay)),
                None => format!("var{}{}:{}{};", lay.sp(), it["x"].as_str().unwrap(), lay.sp(), t),
            }
        }
        "A" => format!("{}{}={}{};", reference(&it["r"], lay), lay.sp(), lay.sp(), expr(&it["e"], lay)),
        "S" => format!("{}{}={}{};", it["x"].as_str().unwrap(), lay.sp(), lay.sp(), expr(&it["e"], lay)),
        "SI" => format!("{}[{}]{}={}{};", it["x"].as_str().unwrap(), expr(&it["i"], lay), lay.sp(), lay.sp(), expr(&it["e"], lay)),
        // `nonl`: nothing after the value (the END of the output has no line break)
        "P" if it["nonl"] == true => format!("print!({});", expr(&it["e"], lay)),
        "P" => format!("print!({},{}\"\\n\");", expr(&it["e"], lay), lay.sp()),
        "PP" => {
            let parts: Vec<String> = it["es"].as_array().unwrap().iter().map(|e| format!("{},{}\"\\n\"", expr(e, lay), lay.sp())).collect();
            format!("print!({});", parts.join(&format!(",{}", lay.sp())))
        }
        "M" => format!("print!(\"#\", {}usize, \"\\n\");", it["i"].as_u64().unwrap_or(0)),
        "T" => {
            // string literals only (printable ASCII without quotes and backslashes), the line break in a literal of its own
            let parts: Vec<String> = it["parts"].as_array().unwrap().iter().map(|p| format!("\"{}\"", p.as_str().unwrap_or(""))).collect();
            format!("print!({},{}\"\\n\");", parts.join(&format!(",{}", lay.sp())), lay.sp())
        }
        "CALL" => {
            let args: Vec<String> = it["args"].as_array().unwrap().iter().map(|x| expr(x, lay)).collect();
            let call = format!("{}({})", it["f"].as_str().unwrap(), args.join(", "));
            let d = it["d"].as_str().unwrap_or("");
            if d.is_empty() { format!("{call};") } else { format!("{d}{}={}{call};", lay.sp(), lay.sp()) }
        }
        other => panic!("unknown item kind {other}"),
    }
}

pub fn program(p: &Value, lay: &mut Layout) -> String {
    let mut s = String::new();
    if let Some(ss) = p["structs"].as_array() {
        for d in ss {
            let head = if d["kind"] == "word" { format!("word{}", d["bits"].as_u64().unwrap_or(0)) } else { "struct".to_string() };
            s.push_str(&format!("{head} {}", d["name"].as_str().unwrap()));
            s.push_str(&lay.nl());
            s.push('{');
            s.push_str(&lay.nl());
            for m in d["ms"].as_array().unwrap() {
                s.push_str(&format!("{}:{}{},", m["x"].as_str().unwrap(), lay.sp(), ty(&m["ty"])));
                s.push_str(&lay.nl());
            }
            s.push('}');
            s.push_str(&lay.nl());
        }
    }
    // constants are listed in dependency order; `corder: "rev"` writes them in reverse order (every constant before the
    // ones it uses), `cpos: "last"` writes them after the functions (a named length is then declared after its uses)
    let consts_text = |lay: &mut Layout| -> String {
        let mut s = String::new();
        if let Some(cs) = p["consts"].as_array() {
            let mut order: Vec<&Value> = cs.iter().collect();
            if p["corder"] == "rev" {
                order.reverse();
            }
            for c in order {
                let t = if c.get("ty").is_some() { ty(&c["ty"]) } else { ty(&c["t"]) };
                s.push_str(&format!("const {}: {} = {};", c["x"].as_str().unwrap(), t, expr(&c["e"], lay)));
                s.push_str(&lay.nl());
            }
        }
        s
    };
    let consts_last = p["cpos"] == "last";
    if !consts_last {
        let text = consts_text(lay);
        s.push_str(&text);
    }
    for f in p["fns"].as_array().unwrap() {
        let params: Vec<String> = f["params"]
            .as_array()
            .map(|a| a.iter().map(|x| format!("{}: {}", x["x"].as_str().unwrap(), if x.get("ty").is_some() { ty(&x["ty"]) } else { ty(&x["t"]) })).collect())
            .unwrap_or_default();
        let void = is_void(&f["ret"]);
        s.push_str(&format!("fn {}({})", f["name"].as_str().unwrap(), params.join(", ")));
        if !void {
            s.push_str(&format!(" -> {}", ty(&f["ret"])));
        }
        s.push_str(&lay.nl());
        s.push('{');
        s.push_str(&lay.nl());
        let body = f["body"].as_array().unwrap();
        let has_return_label = body.last().map(|x| x["k"] == "L" && x["n"] == "return").unwrap_or(false);
        for it in body {
            s.push_str(&item(it, lay, f.get("res")));
            s.push_str(&lay.nl());
        }
        if !void && !has_return_label {
            s.push_str(&format!("return: {}", expr(&f["res"], lay)));
            s.push_str(&lay.nl());
        }
        s.push('}');
        s.push_str(&lay.nl());
    }
    if consts_last {
        let text = consts_text(lay);
        s.push_str(&text);
    }
    // the END of the input: in a third of the random layouts nothing follows the last token (no line break at the end
    // of the file; or the file ends inside a line comment)
    if let Some(r) = &mut lay.rng {
        if r.chance(33) {
            while s.ends_with('\n') || s.ends_with('\r') || s.ends_with(' ') || s.ends_with('\t') {
                s.pop();
            }
        }
    }
    s
}

//! Abstract programs (the JSON exchange format of spec/Machine.tla) -> Penne source text.
//! Layout variant 0 is canonical (one item per line); other variants add random whitespace,
//! comments, line breaks and redundant parentheses (the metamorphic part of C01).

use pvh::rng::Rng;
use serde_json::Value;

pub struct Layout {
    pub rng: Option<Rng>,
}

impl Layout {
    pub fn canonical() -> Layout {
        Layout { rng: None }
    }
    pub fn random(seed: u64, stream: u64) -> Layout {
        Layout { rng: Some(Rng::new(seed, stream)) }
    }
    fn sp(&mut self) -> String {
        match &mut self.rng {
            None => " ".to_string(),
            Some(r) => match r.below(10) {
                0 => "  ".to_string(),
                1 => "\t".to_string(),
                2 => "\n\t".to_string(),
                3 => " // c\n".to_string(),
                4 => " /// doc \n ".to_string(),
                _ => " ".to_string(),
            },
        }
    }
    fn nl(&mut self) -> String {
        match &mut self.rng {
            None => "\n".to_string(),
            Some(r) => match r.below(6) {
                0 => "\r\n".to_string(),
                1 => "\n\n".to_string(),
                2 => " ".to_string(),
                3 => "\n// comment ; } {\n".to_string(),
                _ => "\n".to_string(),
            },
        }
    }
    fn extra_parens(&mut self) -> bool {
        match &mut self.rng {
            None => false,
            Some(r) => r.chance(20),
        }
    }
}

fn limbs_to_u128(v: &Value) -> u128 {
    let mut x: u128 = 0;
    if let Some(a) = v.as_array() {
        for (i, l) in a.iter().enumerate() {
            x |= (l.as_u64().unwrap_or(0) as u128) << (8 * i);
        }
    }
    x
}

fn width(t: &str) -> u32 {
    match t {
        "i8" | "u8" | "char8" | "bool" => 8,
        "i16" | "u16" => 16,
        "i32" | "u32" => 32,
        "i64" | "u64" | "usize" => 64,
        _ => 128,
    }
}

fn is_signed(t: &str) -> bool {
    t.starts_with('i')
}

pub fn literal(t: &str, v: &Value) -> String {
    let x = limbs_to_u128(v);
    if t == "bool" {
        return if x != 0 { "true".to_string() } else { "false".to_string() };
    }
    let w = width(t);
    if is_signed(t) && (x >> (w - 1)) & 1 == 1 {
        // negative: magnitude = 2^w - x
        let mag: u128 = if w == 128 { (!x).wrapping_add(1) } else { (1u128 << w) - x };
        if w == 128 && mag == (1u128 << 127) {
            return format!("(-170141183460469231731687303715884105727i128 - 1i128)");
        }
        format!("-{mag}{t}")
    } else {
        format!("{x}{t}")
    }
}

pub fn expr(e: &Value, lay: &mut Layout) -> String {
    let k = e["k"].as_str().unwrap_or("");
    let s = match k {
        "lit" => literal(e["t"].as_str().unwrap(), &e["v"]),
        "var" => e["x"].as_str().unwrap().to_string(),
        "paren" => format!("({})", expr(&e["e"], lay)),
        "bin" => {
            let l = operand(&e["l"], lay);
            let r = operand(&e["r"], lay);
            format!("{l}{}{}{}{r}", lay.sp(), e["op"].as_str().unwrap(), lay.sp())
        }
        "un" => format!("{}{}", e["op"].as_str().unwrap(), primary(&e["e"], lay)),
        "as" => format!("{}{}as{}{}", operand(&e["e"], lay), lay.sp(), lay.sp(), e["t"].as_str().unwrap()),
        "arr" => {
            let parts: Vec<String> = e["es"].as_array().unwrap().iter().map(|x| expr(x, lay)).collect();
            format!("[{}]", parts.join(", "))
        }
        "idx" => format!("{}[{}]", e["x"].as_str().unwrap(), expr(&e["i"], lay)),
        "len" => format!("|{}|", e["x"].as_str().unwrap()),
        other => panic!("unknown expression kind {other}"),
    };
    if lay.extra_parens() && k != "arr" { format!("({s})") } else { s }
}

/// an operand of a binary operator or of `as`: compound expressions are parenthesised
fn operand(e: &Value, lay: &mut Layout) -> String {
    match e["k"].as_str().unwrap_or("") {
        "bin" | "as" => format!("({})", expr(e, lay)),
        "lit" => {
            let s = expr(e, lay);
            if s.starts_with('-') { format!("({s})") } else { s }
        }
        _ => expr(e, lay),
    }
}

/// the operand of a unary operator must be a primary expression
fn primary(e: &Value, lay: &mut Layout) -> String {
    match e["k"].as_str().unwrap_or("") {
        "var" | "paren" | "idx" | "len" => expr(e, lay),
        "lit" => {
            let s = expr(e, lay);
            if s.starts_with('-') || s.starts_with('(') { format!("({s})") } else { s }
        }
        _ => format!("({})", expr(e, lay)),
    }
}

fn cond(c: &Value, lay: &mut Layout) -> String {
    format!("{}{}{}{}{}", operand(&c["l"], lay), lay.sp(), c["op"].as_str().unwrap(), lay.sp(), operand(&c["r"], lay))
}

pub fn item(it: &Value, lay: &mut Layout, res: Option<&Value>) -> String {
    let k = it["k"].as_str().unwrap_or("");
    let n = it["n"].as_str().unwrap_or("");
    match k {
        "O" => "{".to_string(),
        "C" => "}".to_string(),
        "IO" => format!("if{}{}{}{{", lay.sp(), cond(&it["c"], lay), lay.sp()),
        "EO" => format!("else{}{{", lay.sp()),
        "EIO" => format!("else{}if{}{}{}{{", lay.sp(), lay.sp(), cond(&it["c"], lay), lay.sp()),
        "G" => format!("goto{}{n};", lay.sp()),
        "IG" => format!("if{}{}{}goto{}{n};", lay.sp(), cond(&it["c"], lay), lay.sp(), lay.sp()),
        "EG" => format!("else{}goto{}{n};", lay.sp(), lay.sp()),
        "EIG" => format!("else{}if{}{}{}goto{}{n};", lay.sp(), lay.sp(), cond(&it["c"], lay), lay.sp(), lay.sp()),
        "L" => {
            if n == "return" {
                format!("return:{}{}", lay.sp(), expr(res.expect("return label needs a result"), lay))
            } else {
                format!("{n}:")
            }
        }
        "LP" => "loop;".to_string(),
        "V" => format!("var{}{}:{}{}{}={}{};", lay.sp(), it["x"].as_str().unwrap(), lay.sp(), it["t"].as_str().unwrap(),
                       lay.sp(), lay.sp(), expr(&it["e"], lay)),
        "S" => format!("{}{}={}{};", it["x"].as_str().unwrap(), lay.sp(), lay.sp(), expr(&it["e"], lay)),
        "SI" => format!("{}[{}]{}={}{};", it["x"].as_str().unwrap(), expr(&it["i"], lay), lay.sp(), lay.sp(), expr(&it["e"], lay)),
        "P" => format!("print!({},{}\"\\n\");", expr(&it["e"], lay), lay.sp()),
        "M" => format!("print!(\"#\", {}usize, \"\\n\");", it["i"].as_u64().unwrap_or(0)),
        "CALL" => {
            let args: Vec<String> = it["args"].as_array().unwrap().iter().map(|x| expr(x, lay)).collect();
            let call = format!("{}({})", it["f"].as_str().unwrap(), args.join(", "));
            let d = it["d"].as_str().unwrap_or("");
            if d.is_empty() { format!("{call};") } else { format!("{d}{}={}{call};", lay.sp(), lay.sp()) }
        }
        other => panic!("unknown item kind {other}"),
    }
}

pub fn program(p: &Value, lay: &mut Layout) -> String {
    let mut s = String::new();
    if let Some(cs) = p["consts"].as_array() {
        for c in cs {
            s.push_str(&format!("const {}: {} = {};", c["x"].as_str().unwrap(), c["t"].as_str().unwrap(), expr(&c["e"], lay)));
            s.push_str(&lay.nl());
        }
    }
    for f in p["fns"].as_array().unwrap() {
        let params: Vec<String> = f["params"]
            .as_array()
            .map(|a| a.iter().map(|x| format!("{}: {}", x["x"].as_str().unwrap(), x["t"].as_str().unwrap())).collect())
            .unwrap_or_default();
        let ret = f["ret"].as_str().unwrap_or("void");
        s.push_str(&format!("fn {}({})", f["name"].as_str().unwrap(), params.join(", ")));
        if ret != "void" {
            s.push_str(&format!(" -> {ret}"));
        }
        s.push_str(&lay.nl());
        s.push('{');
        s.push_str(&lay.nl());
        let body = f["body"].as_array().unwrap();
        let has_return_label = body.last().map(|x| x["k"] == "L" && x["n"] == "return").unwrap_or(false);
        for it in body {
            s.push_str(&item(it, lay, f.get("res")));
            s.push_str(&lay.nl());
        }
        if ret != "void" && !has_return_label {
            s.push_str(&format!("return: {}", expr(&f["res"], lay)));
            s.push_str(&lay.nl());
        }
        s.push('}');
        s.push_str(&lay.nl());
    }
    s
}

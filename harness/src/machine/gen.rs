//! Seeded generator of random well-typed programs in the exchange format of spec/Machine.tla.
//! It needs no oracle of its own: whether a program is free of undefined behaviour and what it
//! prints is decided by the specification (Trace_Machine.tla).
use pvh::rng::Rng;
use serde_json::{Value, json};

const INT_TYPES: [&str; 11] = ["i8", "i16", "i32", "i64", "i128", "u8", "u16", "u32", "u64", "u128", "usize"];

fn width(t: &str) -> u32 {
    match t {
        "i8" | "u8" | "bool" => 8,
        "i16" | "u16" => 16,
        "i32" | "u32" => 32,
        "i64" | "u64" | "usize" => 64,
        _ => 128,
    }
}
fn signed(t: &str) -> bool {
    t.starts_with('i')
}
fn limbs(x: u128, w: u32) -> Vec<u64> {
    (0..w / 8).map(|i| ((x >> (8 * i)) & 255) as u64).collect()
}
fn lit(t: &str, x: u128) -> Value {
    json!({"k": "lit", "t": t, "v": limbs(x, width(t))})
}
fn var(x: &str) -> Value {
    json!({"k": "var", "x": x})
}

struct Gen {
    rng: Rng,
    /// visible variables: (name, type, is_array_len)
    scopes: Vec<Vec<(String, String, usize)>>,
    counter: usize,
    fns: Vec<(String, Vec<String>, String)>,
    consts: Vec<(String, String)>,
    budget: usize,
}

impl Gen {
    fn fresh(&mut self, p: &str) -> String {
        self.counter += 1;
        format!("{p}{}", self.counter)
    }
    fn int_type(&mut self) -> &'static str {
        INT_TYPES[self.rng.below(INT_TYPES.len())]
    }
    fn vars_of(&self, t: &str) -> Vec<String> {
        let mut v: Vec<String> = self.scopes.iter().flatten().filter(|x| x.1 == t && x.2 == 0).map(|x| x.0.clone()).collect();
        v.extend(self.consts.iter().filter(|c| c.1 == t).map(|c| c.0.clone()));
        v
    }
    fn arrays_of(&self, t: &str) -> Vec<(String, usize)> {
        self.scopes.iter().flatten().filter(|x| x.1 == t && x.2 > 0).map(|x| (x.0.clone(), x.2)).collect()
    }
    fn interesting(&mut self, t: &str) -> u128 {
        let w = width(t);
        let mask: u128 = if w == 128 { u128::MAX } else { (1u128 << w) - 1 };
        let x: u128 = match self.rng.below(10) {
            0 => 0,
            1 => 1,
            2 => mask,
            3 => 1u128 << (w - 1),
            4 => (1u128 << (w - 1)) - 1,
            5 => self.rng.next() as u128 & 0xff,
            6 => ((self.rng.next() as u128) << 64 | self.rng.next() as u128) & mask,
            _ => self.rng.below(20) as u128,
        };
        x & mask
    }
    fn expr(&mut self, t: &str, depth: usize) -> Value {
        let vars = self.vars_of(t);
        let choice = if depth == 0 { self.rng.below(2) } else { self.rng.below(10) };
        match choice {
            0 => {
                let x = self.interesting(t);
                lit(t, x)
            }
            1 | 2 => {
                if vars.is_empty() {
                    let x = self.interesting(t);
                    lit(t, x)
                } else {
                    var(&vars[self.rng.below(vars.len())])
                }
            }
            3 | 4 | 5 => {
                let ops: &[&str] = if signed(t) || t == "usize" { &["+", "-", "*", "/", "%"] } else { &["+", "-", "*", "/", "%", "&", "|", "^", "<<", ">>"] };
                let op = ops[self.rng.below(ops.len())];
                let l = self.expr(t, depth - 1);
                let r = match op {
                    "/" | "%" => {
                        if self.rng.chance(85) {
                            // a literal divisor that is neither 0 nor -1
                            let w = width(t);
                            let x = 2 + self.rng.below(11) as u128;
                            if signed(t) && self.rng.chance(30) {
                                let mask: u128 = if w == 128 { u128::MAX } else { (1u128 << w) - 1 };
                                lit(t, (!x).wrapping_add(1) & mask)
                            } else {
                                lit(t, x)
                            }
                        } else {
                            self.expr(t, depth - 1)
                        }
                    }
                    "<<" | ">>" => {
                        if self.rng.chance(90) {
                            lit(t, self.rng.below(width(t) as usize) as u128)
                        } else {
                            self.expr(t, depth - 1)
                        }
                    }
                    _ => self.expr(t, depth - 1),
                };
                json!({"k": "bin", "op": op, "l": l, "r": r})
            }
            6 => {
                // (bitwise operators on usize are an unconstrained cell: the docs are silent, the code rejects)
                let e = self.expr(t, depth - 1);
                if t == "usize" {
                    json!({"k": "paren", "e": e})
                } else {
                    let op = if signed(t) { "-" } else { "!" };
                    json!({"k": "un", "op": op, "e": e})
                }
            }
            7 | 8 => {
                // cast from another type
                let mut t2 = self.int_type();
                if t2 == t {
                    t2 = if t == "u8" { "i64" } else { "u8" };
                }
                let e = self.expr(t2, depth - 1);
                json!({"k": "as", "t": t, "e": e})
            }
            _ => {
                // element of an array, the length of an array, or a parenthesised expression
                let arrs = self.arrays_of(t);
                if !arrs.is_empty() && self.rng.chance(70) {
                    let (a, n) = arrs[self.rng.below(arrs.len())].clone();
                    let i = if self.rng.chance(90) { lit("usize", self.rng.below(n) as u128) } else { self.expr("usize", 1) };
                    json!({"k": "idx", "x": a, "i": i})
                } else if t == "usize" && self.rng.chance(50) {
                    let all: Vec<String> = self.scopes.iter().flatten().filter(|x| x.2 > 0).map(|x| x.0.clone()).collect();
                    if all.is_empty() { lit(t, 3) } else { json!({"k": "len", "x": all[self.rng.below(all.len())]}) }
                } else {
                    let e = self.expr(t, depth - 1);
                    json!({"k": "paren", "e": e})
                }
            }
        }
    }
    fn cond(&mut self) -> Value {
        let t = self.int_type();
        let ops = ["==", "!=", "<", ">", "<=", ">="];
        let op = ops[self.rng.below(6)];
        let l = self.expr(t, 2);
        let r = self.expr(t, 1);
        json!({"op": op, "l": l, "r": r})
    }
    fn declare(&mut self, out: &mut Vec<Value>) {
        if self.rng.chance(20) {
            let t = self.int_type();
            let n = 1 + self.rng.below(4);
            let name = self.fresh("r");
            let es: Vec<Value> = (0..n).map(|_| self.expr(t, 1)).collect();
            out.push(json!({"k": "V", "x": name, "t": format!("[{n}]{t}"), "e": {"k": "arr", "es": es}}));
            self.scopes.last_mut().unwrap().push((name, t.to_string(), n));
        } else {
            let t = self.int_type();
            let name = self.fresh("v");
            let e = self.expr(t, 3);
            out.push(json!({"k": "V", "x": name, "t": t, "e": e}));
            self.scopes.last_mut().unwrap().push((name, t.to_string(), 0));
        }
    }
    fn statements(&mut self, out: &mut Vec<Value>, depth: usize, exit_label: Option<&str>) {
        let n = 1 + self.rng.below(5);
        for _ in 0..n {
            if self.budget == 0 {
                break;
            }
            self.budget -= 1;
            match self.rng.below(14) {
                0 | 1 | 2 => self.declare(out),
                3 | 4 => {
                    // assignment to a visible scalar variable or array element
                    let scalars: Vec<(String, String)> = self.scopes.iter().flatten().filter(|x| x.2 == 0 && !x.0.starts_with('p')).map(|x| (x.0.clone(), x.1.clone())).collect();
                    let arrs: Vec<(String, String, usize)> = self.scopes.iter().flatten().filter(|x| x.2 > 0).cloned().collect();
                    if !arrs.is_empty() && self.rng.chance(30) {
                        let (a, t, len) = arrs[self.rng.below(arrs.len())].clone();
                        let e = self.expr(&t, 2);
                        out.push(json!({"k": "SI", "x": a, "i": lit("usize", self.rng.below(len) as u128), "e": e}));
                    } else if !scalars.is_empty() {
                        let (x, t) = scalars[self.rng.below(scalars.len())].clone();
                        let e = self.expr(&t, 3);
                        out.push(json!({"k": "S", "x": x, "e": e}));
                    } else {
                        self.declare(out);
                    }
                }
                5 | 6 | 7 => {
                    let t = self.int_type();
                    let e = self.expr(t, 3);
                    out.push(json!({"k": "P", "e": e}));
                }
                8 | 9 if depth < 3 => {
                    // if / else-if / else chain with braced blocks
                    let c = self.cond();
                    out.push(json!({"k": "IO", "c": c}));
                    self.block_body(out, depth + 1, exit_label);
                    out.push(json!({"k": "C"}));
                    while self.rng.chance(30) {
                        let c = self.cond();
                        out.push(json!({"k": "EIO", "c": c}));
                        self.block_body(out, depth + 1, exit_label);
                        out.push(json!({"k": "C"}));
                    }
                    if self.rng.chance(50) {
                        out.push(json!({"k": "EO"}));
                        self.block_body(out, depth + 1, exit_label);
                        out.push(json!({"k": "C"}));
                    }
                }
                10 if exit_label.is_some() => {
                    // conditional jump out of the enclosing construct
                    let c = self.cond();
                    out.push(json!({"k": "IG", "c": c, "n": exit_label.unwrap()}));
                    if self.rng.chance(25) {
                        out.push(json!({"k": "EG", "n": exit_label.unwrap()}));
                        break;
                    }
                }
                11 if depth < 3 => {
                    // counted loop: var i; { body; if i >= k goto out; i = i + 1; loop; } out:
                    let i = self.fresh("cnt");
                    let k = 1 + self.rng.below(4) as u128;
                    let lbl = self.fresh("out");
                    out.push(json!({"k": "V", "x": i, "t": "u8", "e": lit("u8", 0)}));
                    self.scopes.last_mut().unwrap().push((format!("p{i}"), "none".to_string(), 0));
                    out.push(json!({"k": "O"}));
                    self.scopes.push(vec![(format!("p_{i}"), "none".to_string(), 0)]);
                    if self.rng.chance(50) {
                        out.push(json!({"k": "P", "e": var(&i)}));
                    }
                    self.statements(out, depth + 1, Some(&lbl));
                    out.push(json!({"k": "IG", "c": {"op": ">=", "l": var(&i), "r": lit("u8", k)}, "n": lbl}));
                    out.push(json!({"k": "S", "x": i, "e": {"k": "bin", "op": "+", "l": var(&i), "r": lit("u8", 1)}}));
                    out.push(json!({"k": "LP"}));
                    self.scopes.pop();
                    out.push(json!({"k": "C"}));
                    out.push(json!({"k": "L", "n": lbl}));
                }
                12 if depth < 3 => {
                    // plain block with a label at its end
                    let lbl = self.fresh("end");
                    out.push(json!({"k": "O"}));
                    self.scopes.push(Vec::new());
                    self.statements(out, depth + 1, Some(&lbl));
                    self.scopes.pop();
                    out.push(json!({"k": "L", "n": lbl}));
                    out.push(json!({"k": "C"}));
                }
                13 if !self.fns.is_empty() => {
                    let (f, pts, rt) = self.fns[self.rng.below(self.fns.len())].clone();
                    let dests = self.vars_of(&rt);
                    let dests: Vec<String> = dests.into_iter().filter(|d| !self.consts.iter().any(|c| &c.0 == d) && !d.starts_with('p')).collect();
                    if !dests.is_empty() {
                        let args: Vec<Value> = pts.iter().map(|t| self.expr(t, 2)).collect();
                        out.push(json!({"k": "CALL", "f": f, "args": args, "d": dests[self.rng.below(dests.len())]}));
                    }
                }
                _ => {
                    let t = self.int_type();
                    let e = self.expr(t, 2);
                    out.push(json!({"k": "P", "e": e}));
                }
            }
        }
    }
    fn block_body(&mut self, out: &mut Vec<Value>, depth: usize, exit_label: Option<&str>) {
        self.scopes.push(Vec::new());
        self.statements(out, depth, exit_label);
        self.scopes.pop();
    }
}

pub fn program(seed: u64, i: u64) -> Value {
    let mut g = Gen { rng: Rng::new(seed, i), scopes: vec![Vec::new()], counter: 0, fns: Vec::new(), consts: Vec::new(), budget: 0 };
    // constants
    let mut consts = Vec::new();
    for _ in 0..g.rng.below(3) {
        let t = g.int_type();
        let name = g.fresh("K");
        let e = g.expr(t, 2);
        consts.push(json!({"x": name, "t": t, "e": e}));
        g.consts.push((name, t.to_string()));
    }
    // helper functions with value parameters
    let mut fns = Vec::new();
    for _ in 0..g.rng.below(3) {
        let name = g.fresh("h");
        let np = g.rng.below(3);
        let mut params = Vec::new();
        let mut pts = Vec::new();
        g.scopes = vec![Vec::new()];
        for _ in 0..np {
            let t = g.int_type();
            let p = g.fresh("p");
            params.push(json!({"x": p, "t": t}));
            pts.push(t.to_string());
            g.scopes[0].push((p, t.to_string(), 0));
        }
        let rt = g.int_type();
        let mut body = Vec::new();
        g.budget = 4 + g.rng.below(6);
        g.scopes.push(Vec::new());
        g.statements(&mut body, 1, None);
        let res = g.expr(rt, 3);
        g.scopes.pop();
        fns.push(json!({"name": name, "params": params, "ret": rt, "body": body, "res": res}));
        g.fns.push((name, pts, rt.to_string()));
    }
    g.scopes = vec![Vec::new()];
    let mut body = Vec::new();
    g.budget = 6 + g.rng.below(25);
    g.statements(&mut body, 0, None);
    let res = g.expr("u8", 2);
    let mut all = vec![json!({"name": "main", "params": [], "ret": "u8", "body": body, "res": res})];
    all.extend(fns);
    json!({"consts": consts, "fns": all})
}

//! Seeded generator of random well-typed programs in the exchange format of spec/Machine.tla
//! (stages 1-3: all integer widths, bool, casts, control flow, calls in statements and expressions,
//! value / word / view / struct-view / slice-pointer / pointer / pointer-to-pointer / pointer-to-array
//! parameters, arrays incl. multi-dimensional, structs, words, pointer members, arrays of pointers,
//! constants of scalar / array / struct / word type, `|x|`, `|:T|`).
//! It needs no oracle of its own: whether a program is free of undefined behaviour and what it
//! prints is decided by the specification (Trace_Machine.tla).  What the generator must guarantee is
//! that the program is *well-formed Penne* (well-typed, mutability respected, documented constructs
//! only); a program it produces and the compiler rejects is reported by the check.
//!
//! Kept out on purpose (see docs/notes-machine.md): any use of a `&[]T` parameter without `&`
//! (open finding: panic), `&v` of a view (open finding: panic), views of arrays of pointers (invalid IR,
//! seen by the types group), functions returning pointers (docs silent),
//! more than one call among sibling operands of one statement and calls with `&` arguments next to
//! other reads (evaluation order is not documented), char8 arithmetic, printing of pointers.
use pvh::rng::Rng;
use serde_json::{Value, json};

const INT_TYPES: [&str; 11] = ["i8", "i16", "i32", "i64", "i128", "u8", "u16", "u32", "u64", "u128", "usize"];
const WORD_MEMBER_TYPES: [&str; 9] = ["i8", "i16", "i32", "i64", "u8", "u16", "u32", "u64", "bool"];

#[derive(Clone, PartialEq, Debug)]
enum Ty {
    Prim(&'static str),
    Ptr(Box<Ty>),
    Arr(usize, Box<Ty>),
    /// the parameter type `[]T`
    View(Box<Ty>),
    Named(String),
}

fn ptr(t: Ty) -> Ty {
    Ty::Ptr(Box::new(t))
}
fn arr(n: usize, t: Ty) -> Ty {
    Ty::Arr(n, Box::new(t))
}
fn view(t: Ty) -> Ty {
    Ty::View(Box::new(t))
}

#[allow(dead_code)]
fn ty_json(t: &Ty) -> Value {
    match t {
        Ty::Prim(p) => json!({"k": "prim", "t": p}),
        Ty::Ptr(e) => json!({"k": "ptr", "e": ty_json(e)}),
        Ty::Arr(n, e) => json!({"k": "array", "n": n, "e": ty_json(e)}),
        Ty::View(e) => json!({"k": "view", "e": ty_json(e)}),
        Ty::Named(n) => json!({"k": "named", "n": n}),
    }
}

fn width(t: &str) -> u32 {
    match t {
        "i8" | "u8" | "bool" => 8,
        "i16" | "u16" => 16,
        "i32" | "u32" => 32,
        "i64" | "u64" | "usize" => 64,
        _ => 128,
    }
}
fn signed(t: &str) -> bool {
    t.starts_with('i')
}
fn limbs(x: u128, w: u32) -> Vec<u64> {
    (0..w / 8).map(|i| ((x >> (8 * i)) & 255) as u64).collect()
}
fn lit(t: &str, x: u128) -> Value {
    json!({"k": "lit", "t": t, "v": limbs(x, width(t))})
}
fn usize_lit(x: usize) -> Value {
    lit("usize", x as u128)
}
fn var(x: &str) -> Value {
    json!({"k": "var", "x": x})
}

#[derive(Clone, Debug)]
struct StructDecl {
    name: String,
    /// Some(bits) for a word
    bits: Option<u32>,
    ms: Vec<(String, Ty)>,
    has_ptr: bool,
}

#[derive(Clone, Copy, PartialEq, Debug)]
enum Kind {
    Var,
    Param,
    Const,
}

#[derive(Clone, Debug)]
struct Variable {
    name: String,
    ty: Ty,
    kind: Kind,
    /// for `[]T` / `&[]T` parameters: the number of elements every caller guarantees
    minlen: usize,
    /// nesting depth of the declaring scope (parameters 0; what pointer parameters point to is older)
    depth: usize,
    /// hidden from the random statement generator (loop counters, ...)
    hidden: bool,
}

/// a reference expression `x steps` together with the static facts the generator needs
#[derive(Clone, Debug)]
struct PlaceRef {
    x: String,
    steps: Vec<Value>,
    /// the declared type of the place (pointers included)
    ty: Ty,
    /// may be assigned to / have its address taken
    writable: bool,
    /// length guarantee if the base type is a view
    minlen: usize,
    /// depth of the root variable, 0 if the place is reached through a pointer parameter
    depth: usize,
    /// passes through a pointer (the storage is someone else's)
    through_ptr: bool,
    /// the root variable is a parameter
    root_param: bool,
}

impl PlaceRef {
    /// element access through a `&[N]T` parameter gave invalid IR (finding F-M1, fixed in /repo 2b93115);
    /// the shape is part of the generated family again
    fn no_index(&self) -> bool {
        false
    }
    /// (base type after all dereferences, number of pointer levels)
    fn base(&self) -> (&Ty, usize) {
        let mut t = &self.ty;
        let mut k = 0;
        while let Ty::Ptr(e) = t {
            t = e;
            k += 1;
        }
        (t, k)
    }
    fn reference(&self, addr: usize) -> Value {
        json!({"k": "ref", "x": self.x, "addr": addr, "steps": self.steps})
    }
    fn plain(&self) -> Value {
        json!({"x": self.x, "addr": 0, "steps": self.steps})
    }
}

#[derive(Clone, Debug)]
struct FnSig {
    name: String,
    params: Vec<(String, Ty, usize)>,
    ret: Option<Ty>,
}

struct Gen {
    rng: Rng,
    structs: Vec<StructDecl>,
    scopes: Vec<Vec<Variable>>,
    consts: Vec<Variable>,
    counter: usize,
    fns: Vec<FnSig>,
    budget: usize,
    /// calls still allowed in the statement being generated
    calls_left: usize,
    /// the return type of the function being generated has a `return` label to jump to
    has_return_label: bool,
    /// generating the initialiser of a constant: literals, other constants, arithmetic, casts, size-of only
    in_const: bool,
    /// generating the condition of an `if`: a structure literal there does not parse (its brace opens the block)
    in_cond: bool,
    /// per open block: the label names that occur textually in it so far (nested blocks included)
    label_sets: Vec<std::collections::BTreeSet<String>>,
    /// names of labels that will be placed later in an enclosing block
    pending_labels: Vec<String>,
    size: usize,
    // ---- dimension audit (docs/notes-machine.md "Dimension audit"); every draw for these comes after the old ones of its unit
    /// named constants usable as array lengths: (value, name); an array type of that length is written `[NAME]T`
    len_consts: Vec<(usize, String)>,
    /// labels of the enclosing constructs a `goto` may leave (outermost first)
    exit_stack: Vec<String>,
    /// names of the pool already used in the function being generated (a name is used once per function)
    pool_used: std::collections::BTreeSet<String>,
    /// names that must not be reused as pool names anywhere (functions taken from the pool)
    fn_names: Vec<String>,
}

/// Names the tool chain or the generated code knows on its own (C library functions, basic-block names), and names of the
/// label pool: used for functions and variables now and then, so that one name lives in several namespaces.  (A private
/// function named `write` or `snprintf` took the symbol of the C library function that `print!` calls: finding F-A2 of the
/// dimension audit, fixed in /repo d8fb3cd.)
const FN_NAME_POOL: [&str; 12] = ["write", "snprintf", "abort", "memcpy", "memset", "printf", "exit", "malloc", "strlen", "entry", "puts", "trap"];
const VAR_NAME_POOL: [&str; 12] = ["write", "snprintf", "abort", "memcpy", "entry", "after", "then", "end", "out", "next", "done", "looped"];

impl Gen {
    fn fresh(&mut self, p: &str) -> String {
        self.counter += 1;
        format!("{p}{}", self.counter)
    }
    /// a name for a local variable: now and then a name that also names something else (a C library function, a basic
    /// block, a label of the pool, a function of this program)
    fn fresh_var(&mut self, p: &str) -> String {
        if self.rng.chance(12) {
            let mut cands: Vec<String> = VAR_NAME_POOL.iter().map(|x| x.to_string()).collect();
            cands.extend(self.fns.iter().map(|f| f.name.clone()));
            let name = cands[self.rng.below(cands.len())].clone();
            let taken = self.pool_used.contains(&name) || self.scopes.iter().flatten().any(|v| v.name == name) || self.consts.iter().any(|v| v.name == name);
            if !taken {
                self.pool_used.insert(name.clone());
                return name;
            }
        }
        self.fresh(p)
    }
    /// the type term of the exchange format; an array whose length is the value of a length constant names it
    fn tyj(&self, t: &Ty) -> Value {
        match t {
            Ty::Prim(p) => json!({"k": "prim", "t": p}),
            Ty::Ptr(e) => json!({"k": "ptr", "e": self.tyj(e)}),
            Ty::Arr(n, e) => match self.len_consts.iter().find(|(v, _)| v == n) {
                Some((_, name)) => json!({"k": "array", "n": n, "e": self.tyj(e), "nc": name}),
                None => json!({"k": "array", "n": n, "e": self.tyj(e)}),
            },
            Ty::View(e) => json!({"k": "view", "e": self.tyj(e)}),
            Ty::Named(n) => json!({"k": "named", "n": n}),
        }
    }
    fn int_type(&mut self) -> &'static str {
        INT_TYPES[self.rng.below(INT_TYPES.len())]
    }
    fn scalar_type(&mut self) -> &'static str {
        if self.rng.chance(8) { "bool" } else { self.int_type() }
    }
    fn decl(&self, n: &str) -> &StructDecl {
        self.structs.iter().find(|d| d.name == n).expect("declared structure")
    }
    fn is_word(&self, t: &Ty) -> bool {
        matches!(t, Ty::Named(n) if self.decl(n).bits.is_some())
    }
    fn is_struct(&self, t: &Ty) -> bool {
        matches!(t, Ty::Named(n) if self.decl(n).bits.is_none())
    }
    /// a type whose values can be copied: primitives and words
    fn is_copyable(&self, t: &Ty) -> bool {
        matches!(t, Ty::Prim(_)) || self.is_word(t)
    }
    fn depth(&self) -> usize {
        self.scopes.len()
    }
    // Labels come from a small pool so that equal names occur in different scopes (the label rule: a label
    // must not share its name with another label of the same block -- nested blocks included, since a later
    // label of an enclosing block clashes with an earlier inner one -- nor with a later label of an
    // enclosing block; sibling blocks and different functions may reuse names).
    /// a name for a label that will be placed in the block at `level` of the label stack (`None`: in a block yet to be opened)
    fn choose_label(&mut self, level: Option<usize>) -> String {
        const POOL: [&str; 4] = ["end", "out", "next", "done"];
        let start = self.rng.below(POOL.len());
        for k in 0..POOL.len() {
            let name = POOL[(start + k) % POOL.len()];
            let used_here = level.map(|l| self.label_sets[l].contains(name)).unwrap_or(false);
            if !used_here && !self.pending_labels.iter().any(|p| p == name) {
                self.pending_labels.push(name.to_string());
                return name.to_string();
            }
        }
        let name = self.fresh("lbl");
        self.pending_labels.push(name.clone());
        name
    }
    /// the label is written now, in the innermost open block
    fn place_label(&mut self, name: &str) {
        self.pending_labels.retain(|p| p != name);
        self.label_sets.last_mut().unwrap().insert(name.to_string());
    }
    fn open_block(&mut self) {
        self.scopes.push(Vec::new());
        self.label_sets.push(Default::default());
    }
    fn close_block(&mut self) {
        self.scopes.pop();
        let inner = self.label_sets.pop().unwrap();
        self.label_sets.last_mut().unwrap().extend(inner);
    }
    fn declare(&mut self, name: &str, ty: Ty, hidden: bool) {
        let depth = self.depth();
        self.scopes.last_mut().unwrap().push(Variable { name: name.to_string(), ty, kind: Kind::Var, minlen: 0, depth, hidden });
    }
    fn visible(&self) -> Vec<Variable> {
        if self.in_const {
            // constant expressions refer to other constants by name only (scalars and words)
            return self.consts.iter().filter(|c| self.is_copyable(&c.ty)).cloned().collect();
        }
        let mut v: Vec<Variable> = self.scopes.iter().flatten().filter(|x| !x.hidden).cloned().collect();
        v.extend(self.consts.iter().cloned());
        v
    }

    // ---- layout of words (both admissible alignments of word members must give the declared size) ----
    fn size_align(&self, t: &Ty, declared: bool) -> (usize, usize) {
        match t {
            Ty::Prim(p) => {
                let s = (width(p) / 8) as usize;
                (s, s.min(8))
            }
            Ty::Ptr(_) => (8, 8),
            Ty::Arr(n, e) => {
                let (s, a) = self.size_align(e, declared);
                (n * s, a)
            }
            Ty::View(_) => (16, 8),
            Ty::Named(n) => {
                let d = self.decl(n).clone();
                let (s, a) = self.members_size_align(&d.ms, declared);
                match d.bits {
                    Some(b) => ((b / 8) as usize, if declared { ((b / 8) as usize).min(8) } else { a }),
                    None => (s, a),
                }
            }
        }
    }
    fn members_size_align(&self, ms: &[(String, Ty)], declared: bool) -> (usize, usize) {
        let mut off = 0usize;
        let mut al = 1usize;
        for (_, t) in ms {
            let (s, a) = self.size_align(t, declared);
            off = (off + a - 1) / a * a + s;
            al = al.max(a);
        }
        ((off + al - 1) / al * al, al)
    }
    /// `|:T|` is only generated where the documentation fixes its value
    fn size_is_constrained(&self, t: &Ty) -> bool {
        self.size_align(t, true) == self.size_align(t, false)
    }

    // ---- declarations of structures and words ----
    fn gen_structs(&mut self) {
        let n = self.rng.below(4);
        for _ in 0..n {
            if self.rng.chance(45) {
                // a word: members are fixed size integers, bool or other words; the members must fill the declared size
                for _attempt in 0..20 {
                    let k = 1 + self.rng.below(4);
                    let mut ms = Vec::new();
                    for _ in 0..k {
                        let words: Vec<String> = self.structs.iter().filter(|d| d.bits.is_some()).map(|d| d.name.clone()).collect();
                        let t = if !words.is_empty() && self.rng.chance(25) {
                            Ty::Named(words[self.rng.below(words.len())].clone())
                        } else {
                            Ty::Prim(WORD_MEMBER_TYPES[self.rng.below(WORD_MEMBER_TYPES.len())])
                        };
                        let name = self.fresh("m");
                        ms.push((name, t));
                    }
                    let a = self.members_size_align(&ms, true);
                    let b = self.members_size_align(&ms, false);
                    // no padding anywhere: the sum of the member sizes is the size
                    let sum: usize = ms.iter().map(|(_, t)| self.size_align(t, true).0).sum();
                    if a.0 == b.0 && a.0 == sum && [1usize, 2, 4, 8, 16].contains(&sum) {
                        let name = self.fresh("W");
                        self.structs.push(StructDecl { name, bits: Some(8 * sum as u32), ms, has_ptr: false });
                        break;
                    }
                }
            } else {
                let mut k = 1 + self.rng.below(4);
                let mut ms = Vec::new();
                let mut has_ptr = false;
                let many_members = self.rng.chance(10);
                if many_members {
                    // ten and more members (member offsets beyond the first few)
                    k = 10 + self.rng.below(5);
                }
                for _ in 0..k {
                    let t = match self.rng.below(10) {
                        0 | 1 | 2 | 3 => Ty::Prim(self.scalar_type()),
                        4 | 5 => arr(1 + self.rng.below(3), Ty::Prim(self.int_type())),
                        6 => arr(1 + self.rng.below(2), arr(1 + self.rng.below(3), Ty::Prim(self.int_type()))),
                        7 => {
                            has_ptr = true;
                            ptr(Ty::Prim(self.int_type()))
                        }
                        _ => {
                            // another structure or word declared earlier (no pointers inside, to keep views simple)
                            let cands: Vec<String> = self.structs.iter().filter(|d| !d.has_ptr).map(|d| d.name.clone()).collect();
                            if cands.is_empty() { Ty::Prim(self.int_type()) } else { Ty::Named(cands[self.rng.below(cands.len())].clone()) }
                        }
                    };
                    let name = self.fresh("m");
                    ms.push((name, t));
                }
                let name = self.fresh("S");
                self.structs.push(StructDecl { name, bits: None, ms, has_ptr });
            }
        }
    }

    // ---- places ----
    fn places(&mut self) -> Vec<PlaceRef> {
        let mut out = Vec::new();
        for v in self.visible() {
            let root = PlaceRef {
                x: v.name.clone(),
                steps: Vec::new(),
                ty: v.ty.clone(),
                writable: v.kind == Kind::Var,
                minlen: v.minlen,
                depth: if v.kind == Kind::Var { v.depth } else { 0 },
                through_ptr: false,
                root_param: v.kind == Kind::Param,
            };
            self.walk(root, 0, &mut out);
        }
        out
    }
    fn index_expr(&mut self, n: usize) -> Value {
        let vars: Vec<String> = self.visible().into_iter().filter(|v| v.ty == Ty::Prim("usize")).map(|v| v.name).collect();
        if self.rng.chance(85) || n == 0 || vars.is_empty() {
            usize_lit(self.rng.below(n.max(1)))
        } else {
            // a computed index that stays in bounds
            let e = var(&vars[self.rng.below(vars.len())]);
            json!({"k": "bin", "op": "%", "l": e, "r": usize_lit(n)})
        }
    }
    fn walk(&mut self, p: PlaceRef, depth: usize, out: &mut Vec<PlaceRef>) {
        out.push(p.clone());
        if depth >= 4 || self.in_const {
            return;
        }
        let (base, k) = {
            let (b, k) = p.base();
            (b.clone(), k)
        };
        let writable = p.writable || k > 0;
        let through_ptr = p.through_ptr || k > 0;
        let d = if k > 0 { 0 } else { p.depth };
        match base {
            Ty::Arr(n, e) => {
                if n > 0 && !p.no_index() {
                    let i = self.index_expr(n);
                    let mut steps = p.steps.clone();
                    steps.push(json!({"k": "i", "e": i}));
                    self.walk(PlaceRef { x: p.x.clone(), steps, ty: (*e).clone(), writable, minlen: 0, depth: d, through_ptr, root_param: p.root_param }, depth + 1, out);
                }
            }
            Ty::View(e) => {
                if p.minlen > 0 {
                    let i = self.index_expr(p.minlen);
                    let mut steps = p.steps.clone();
                    steps.push(json!({"k": "i", "e": i}));
                    // a view is read-only unless it is the target of a slice pointer
                    self.walk(PlaceRef { x: p.x.clone(), steps, ty: (*e).clone(), writable: k > 0, minlen: 0, depth: d, through_ptr: true, root_param: p.root_param }, depth + 1, out);
                }
            }
            Ty::Named(n) => {
                let ms = self.decl(&n).ms.clone();
                for (m, t) in ms {
                    let mut steps = p.steps.clone();
                    steps.push(json!({"k": "m", "m": m}));
                    self.walk(PlaceRef { x: p.x.clone(), steps, ty: t, writable, minlen: 0, depth: d, through_ptr, root_param: p.root_param }, depth + 1, out);
                }
            }
            _ => {}
        }
    }
    /// places that read as a value of the copyable type t (autoderef to the base type)
    fn reads_of(&mut self, t: &Ty) -> Vec<PlaceRef> {
        self.places().into_iter().filter(|p| p.base().0 == t).collect()
    }

    fn interesting(&mut self, t: &str) -> u128 {
        if t == "bool" {
            return self.rng.below(2) as u128;
        }
        let w = width(t);
        let mask: u128 = if w == 128 { u128::MAX } else { (1u128 << w) - 1 };
        let x: u128 = match self.rng.below(10) {
            0 => 0,
            1 => 1,
            2 => mask,
            3 => 1u128 << (w - 1),
            4 => (1u128 << (w - 1)) - 1,
            5 => self.rng.next() as u128 & 0xff,
            6 => ((self.rng.next() as u128) << 64 | self.rng.next() as u128) & mask,
            _ => self.rng.below(20) as u128,
        };
        x & mask
    }

    // ---- expressions ----
    /// a call to a function returning `ret`; `effects`: arguments with `&` are allowed
    fn call_expr(&mut self, ret: &Ty, effects: bool) -> Option<Value> {
        if self.calls_left == 0 {
            return None;
        }
        let cands: Vec<FnSig> = self.fns.iter().filter(|f| f.ret.as_ref() == Some(ret)).cloned().collect();
        if cands.is_empty() {
            return None;
        }
        let f = cands[self.rng.below(cands.len())].clone();
        // a call among the arguments of a call is evaluated before the callee runs: no ambiguity
        self.calls_left = if self.rng.chance(20) { 1 } else { 0 };
        let args = self.args_for(&f, effects);
        self.calls_left = 0;
        Some(json!({"k": "call", "f": f.name, "args": args?}))
    }
    fn args_for(&mut self, f: &FnSig, effects: bool) -> Option<Vec<Value>> {
        let mut args = Vec::new();
        for (_, t, minlen) in &f.params {
            args.push(self.arg_for(t, *minlen, effects)?);
        }
        if effects && self.rng.chance(45) {
            self.alias_arguments(f, &mut args);
        }
        Some(args)
    }
    /// Aliasing on purpose: a pointer argument `&P` together with a view argument that is P itself or a projected
    /// place inside P (a member that is a structure or an array, an element of an array of structures): the callee's
    /// writes through the pointer must be visible through the view (features.md "Views", view_aliasing.pn).
    fn alias_arguments(&mut self, f: &FnSig, args: &mut [Value]) {
        let ptrs: Vec<usize> = (0..f.params.len()).filter(|&i| matches!(&f.params[i].1, Ty::Ptr(e) if !matches!(**e, Ty::Ptr(_)))).collect();
        let views: Vec<usize> = (0..f.params.len()).filter(|&i| matches!(&f.params[i].1, Ty::View(_)) || self.is_struct(&f.params[i].1)).collect();
        if ptrs.is_empty() || views.is_empty() {
            return;
        }
        let pi = ptrs[self.rng.below(ptrs.len())];
        let vi = views[self.rng.below(views.len())];
        let (pointee, pminlen) = match &f.params[pi].1 {
            Ty::Ptr(e) => ((**e).clone(), f.params[pi].2),
            _ => return,
        };
        let (vt, vminlen) = (f.params[vi].1.clone(), f.params[vi].2);
        // roots: writable places (not themselves pointers) whose type fits the pointer parameter
        let roots: Vec<PlaceRef> = self
            .places()
            .into_iter()
            .filter(|p| {
                p.writable && p.base().1 == 0 && match (&pointee, p.base().0) {
                    (Ty::View(e), Ty::Arr(n, e2)) => e == e2 && *n >= pminlen,
                    (Ty::View(_), _) => false,
                    (x, y) => x == y,
                }
            })
            .collect();
        let mut pairs: Vec<(Value, Value)> = Vec::new();
        for r in roots {
            let mut subs = Vec::new();
            self.walk(r.clone(), 0, &mut subs);
            for q in subs {
                let fits = match (&vt, q.base()) {
                    (Ty::View(e), (Ty::Arr(n, e2), 0)) => **e == **e2 && *n >= vminlen,
                    (Ty::Named(_), (b, 0)) => *b == vt,
                    _ => false,
                };
                if fits {
                    pairs.push((r.reference(1), q.reference(0)));
                }
            }
        }
        if pairs.is_empty() {
            return;
        }
        let (p, v) = pairs[self.rng.below(pairs.len())].clone();
        args[pi] = p;
        args[vi] = v;
    }
    fn arg_for(&mut self, t: &Ty, minlen: usize, effects: bool) -> Option<Value> {
        match t {
            Ty::Prim(p) => Some(self.expr(*p, 2)),
            Ty::Named(_) if self.is_word(t) => {
                let e = self.word_expr(t, 2);
                if e["k"] == "nothing" { None } else { Some(e) }
            }
            Ty::Named(n) => {
                // a view of a structure: a place, a constant or a literal
                let cands: Vec<PlaceRef> = self.places().into_iter().filter(|p| p.base().0 == t).collect();
                if !cands.is_empty() && self.rng.chance(80) {
                    Some(cands[self.rng.below(cands.len())].reference(0))
                } else if !self.decl(n).has_ptr && !self.in_cond {
                    Some(self.struct_literal(n, 1))
                } else {
                    None
                }
            }
            Ty::View(e) => {
                let cands: Vec<PlaceRef> = self
                    .places()
                    .into_iter()
                    .filter(|p| match p.base() {
                        (Ty::Arr(n, e2), _) => e2 == e && *n >= minlen,
                        // a view parameter may be passed on; a slice pointer may not be used without `&` (open finding)
                        (Ty::View(e2), 0) => e2 == e && p.minlen >= minlen,
                        _ => false,
                    })
                    .collect();
                if !cands.is_empty() && self.rng.chance(85) {
                    Some(cands[self.rng.below(cands.len())].reference(0))
                } else {
                    let n = minlen + self.rng.below(2);
                    Some(self.array_literal(&arr(n.max(1), (**e).clone()), 1))
                }
            }
            Ty::Ptr(inner) => {
                if !effects {
                    return None;
                }
                let cands = self.address_candidates(t, minlen);
                if cands.is_empty() {
                    return None;
                }
                let _ = inner;
                Some(cands[self.rng.below(cands.len())].clone())
            }
            Ty::Arr(..) => None,
        }
    }
    /// expressions of the pointer type t = &^j B: `&^j place`
    fn address_candidates(&mut self, t: &Ty, minlen: usize) -> Vec<Value> {
        let mut j = 0;
        let mut b = t;
        while let Ty::Ptr(e) = b {
            b = e;
            j += 1;
        }
        let mut out = Vec::new();
        for p in self.places() {
            let (pb, k) = p.base();
            let base_ok = match (pb, b) {
                // `&array` for a slice pointer; a pointer to an array is not accepted for `&[]T` (undocumented either way)
                (Ty::Arr(n, e), Ty::View(e2)) => k == 0 && e == e2 && *n >= minlen,
                (Ty::View(e), Ty::View(e2)) => k >= 1 && e == e2 && p.minlen >= minlen,
                (x, y) => x == y,
            };
            if !base_ok {
                continue;
            }
            if j <= k {
                out.push(p.reference(j));
            } else if j == k + 1 && p.writable && !matches!(pb, Ty::View(_)) {
                out.push(p.reference(j));
            }
        }
        out
    }
    fn array_literal(&mut self, t: &Ty, depth: usize) -> Value {
        if let Ty::Arr(n, e) = t {
            let es: Vec<Value> = (0..*n).map(|_| self.value_of(e, depth)).collect();
            json!({"k": "arr", "es": es})
        } else {
            unreachable!()
        }
    }
    fn struct_literal(&mut self, n: &str, depth: usize) -> Value {
        let ms = self.decl(n).ms.clone();
        let mut fs: Vec<Value> = ms.iter().map(|(m, t)| json!({"m": m, "e": self.value_of(t, depth)})).collect();
        // (eighth round of seeded changes) a literal may name its members in any order: every third literal -- chosen by its own
        // text, not by a draw, so that the programs of a seed stay what they were otherwise -- is written back to front
        if fs.len() >= 2 && serde_json::to_string(&fs).map(|t| t.len() % 3 == 0).unwrap_or(false) {
            fs.reverse();
        }
        json!({"k": "st", "n": n, "fs": fs})
    }
    /// an initialiser for any storable type
    fn value_of(&mut self, t: &Ty, depth: usize) -> Value {
        match t {
            Ty::Prim(p) => self.expr(*p, depth),
            Ty::Arr(..) => self.array_literal(t, depth),
            Ty::Named(n) => {
                if self.is_word(t) {
                    self.word_expr(t, depth)
                } else {
                    let n = n.clone();
                    self.struct_literal(&n, depth)
                }
            }
            Ty::Ptr(_) => {
                let c = self.address_candidates(t, 0);
                if c.is_empty() {
                    // cannot happen where pointer members are used: callers check first
                    panic!("no address candidate")
                }
                c[self.rng.below(c.len())].clone()
            }
            Ty::View(_) => unreachable!(),
        }
    }
    fn word_expr(&mut self, t: &Ty, depth: usize) -> Value {
        let name = if let Ty::Named(n) = t { n.clone() } else { unreachable!() };
        let reads = self.reads_of(t);
        if self.in_cond {
            // no structure literal inside a condition
            if !reads.is_empty() {
                return reads[self.rng.below(reads.len())].reference(0);
            }
            return json!({"k": "nothing"});
        }
        match self.rng.below(10) {
            0..=4 if !reads.is_empty() => reads[self.rng.below(reads.len())].reference(0),
            5 | 6 if depth > 0 => match self.call_expr(t, false) {
                Some(c) => c,
                None => self.struct_literal(&name, depth.saturating_sub(1)),
            },
            _ => self.struct_literal(&name, depth.saturating_sub(1)),
        }
    }
    fn expr(&mut self, t: &'static str, depth: usize) -> Value {
        if t == "bool" {
            let reads = self.reads_of(&Ty::Prim("bool"));
            if !reads.is_empty() && self.rng.chance(50) {
                return reads[self.rng.below(reads.len())].reference(0);
            }
            return lit("bool", self.rng.below(2) as u128);
        }
        let choice = if depth == 0 { self.rng.below(3) } else { self.rng.below(13) };
        match choice {
            0 => {
                let x = self.interesting(t);
                lit(t, x)
            }
            1 | 2 | 10 => {
                let reads = self.reads_of(&Ty::Prim(t));
                if reads.is_empty() {
                    let x = self.interesting(t);
                    lit(t, x)
                } else {
                    let p = &reads[self.rng.below(reads.len())];
                    if p.steps.is_empty() && self.rng.chance(50) { var(&p.x) } else { p.reference(0) }
                }
            }
            3 | 4 | 5 => {
                let ops: &[&str] = if signed(t) || t == "usize" { &["+", "-", "*", "/", "%"] } else { &["+", "-", "*", "/", "%", "&", "|", "^", "<<", ">>"] };
                let op = ops[self.rng.below(ops.len())];
                let l = self.expr(t, depth - 1);
                let r = match op {
                    "/" | "%" => {
                        if self.in_const || self.rng.chance(80) {
                            // a literal divisor that is neither 0 nor -1
                            let w = width(t);
                            let x = 2 + self.rng.below(11) as u128;
                            if signed(t) && self.rng.chance(30) {
                                let mask: u128 = if w == 128 { u128::MAX } else { (1u128 << w) - 1 };
                                lit(t, (!x).wrapping_add(1) & mask)
                            } else {
                                lit(t, x)
                            }
                        } else {
                            // a computed divisor that cannot be 0 or -1: (e % 5) + 7 lies in 3..11
                            let e = self.expr(t, depth - 1);
                            json!({"k": "bin", "op": "+", "l": {"k": "bin", "op": "%", "l": e, "r": lit(t, 5)}, "r": lit(t, 7)})
                        }
                    }
                    "<<" | ">>" => {
                        if self.in_const || self.rng.chance(90) {
                            let amount = self.rng.below(width(t) as usize) as u128;
                            // the boundaries: by nothing, by width - 1
                            let amount = if self.rng.chance(25) { if self.rng.chance(50) { 0 } else { (width(t) - 1) as u128 } } else { amount };
                            lit(t, amount)
                        } else if self.rng.chance(80) {
                            // a computed shift amount below the width
                            let e = self.expr(t, depth - 1);
                            json!({"k": "bin", "op": "%", "l": e, "r": lit(t, width(t) as u128)})
                        } else {
                            self.expr(t, depth - 1)
                        }
                    }
                    _ => self.expr(t, depth - 1),
                };
                json!({"k": "bin", "op": op, "l": l, "r": r})
            }
            6 => {
                // (bitwise operators on usize are an unconstrained cell: the docs are silent, the code rejects)
                let e = self.expr(t, depth - 1);
                if t == "usize" {
                    json!({"k": "paren", "e": e})
                } else {
                    let op = if signed(t) { "-" } else { "!" };
                    json!({"k": "un", "op": op, "e": e})
                }
            }
            7 | 8 => {
                // cast from another type (bool extends with zeros)
                let mut t2 = if self.rng.chance(6) { "bool" } else { self.int_type() };
                if t2 == t {
                    t2 = if t == "u8" { "i64" } else { "u8" };
                }
                let e = self.expr(t2, depth - 1);
                json!({"k": "as", "t": t, "e": e})
            }
            9 => {
                if t == "usize" && self.rng.chance(70) {
                    // the length of an array however it is reachable, or the size of a type
                    let arrs: Vec<PlaceRef> = self.places().into_iter().filter(|p| matches!(p.base().0, Ty::Arr(..) | Ty::View(_))).collect();
                    if !arrs.is_empty() && !self.in_const && self.rng.chance(75) {
                        let p = &arrs[self.rng.below(arrs.len())];
                        return json!({"k": "len", "r": p.plain()});
                    }
                    let t = self.sized_type();
                    if self.size_is_constrained(&t) {
                        return json!({"k": "sizeof", "ty": self.tyj(&t)});
                    }
                }
                let e = self.expr(t, depth - 1);
                json!({"k": "paren", "e": e})
            }
            _ => match self.call_expr(&Ty::Prim(t), false) {
                Some(c) => c,
                None => {
                    let x = self.interesting(t);
                    lit(t, x)
                }
            },
        }
    }
    fn sized_type(&mut self) -> Ty {
        match self.rng.below(4) {
            0 => Ty::Prim(self.scalar_type()),
            1 => arr(1 + self.rng.below(4), Ty::Prim(self.int_type())),
            2 if !self.structs.is_empty() => Ty::Named(self.structs[self.rng.below(self.structs.len())].name.clone()),
            _ => arr(1 + self.rng.below(3), arr(1 + self.rng.below(3), Ty::Prim(self.int_type()))),
        }
    }
    fn cond(&mut self) -> Value {
        let t = self.int_type();
        let ops = ["==", "!=", "<", ">", "<=", ">="];
        let op = ops[self.rng.below(6)];
        self.in_cond = true;
        let l = self.expr(t, 2);
        let r = self.expr(t, 1);
        self.in_cond = false;
        json!({"op": op, "l": l, "r": r})
    }

    // ---- statements ----
    fn storable_type(&mut self) -> Ty {
        match self.rng.below(12) {
            0..=4 => Ty::Prim(self.scalar_type()),
            5 | 6 => arr(1 + self.rng.below(4), Ty::Prim(self.int_type())),
            7 => arr(1 + self.rng.below(2), arr(1 + self.rng.below(3), Ty::Prim(self.int_type()))),
            8 | 9 if !self.structs.is_empty() => {
                let d = &self.structs[self.rng.below(self.structs.len())];
                Ty::Named(d.name.clone())
            }
            10 => {
                let words: Vec<String> = self.structs.iter().filter(|d| d.bits.is_some()).map(|d| d.name.clone()).collect();
                let t = if words.is_empty() { Ty::Prim(self.int_type()) } else { arr(1 + self.rng.below(3), Ty::Named(words[self.rng.below(words.len())].clone())) };
                // arrays of structures (of arrays), 3-dimensional arrays, arrays without elements
                let structs: Vec<String> = self.structs.iter().filter(|d| d.bits.is_none() && !d.has_ptr).map(|d| d.name.clone()).collect();
                match self.rng.below(8) {
                    0 | 1 if !structs.is_empty() => arr(1 + self.rng.below(3), Ty::Named(structs[self.rng.below(structs.len())].clone())),
                    2 => arr(1 + self.rng.below(2), arr(1 + self.rng.below(2), arr(1 + self.rng.below(3), Ty::Prim(self.int_type())))),
                    3 => arr(0, Ty::Prim(self.int_type())),
                    4 => arr(1 + self.rng.below(2), arr(0, Ty::Prim(self.int_type()))),
                    _ => t,
                }
            }
            _ => Ty::Prim(self.int_type()),
        }
    }
    /// can an initialiser be produced here (pointer members need something to point to)?
    fn initialisable(&mut self, t: &Ty) -> bool {
        match t {
            Ty::Ptr(_) => !self.address_candidates(t, 0).is_empty(),
            Ty::Arr(_, e) => self.initialisable(e),
            Ty::Named(n) => {
                let ms = self.decl(n).ms.clone();
                ms.iter().all(|(_, t)| self.initialisable(t))
            }
            _ => true,
        }
    }
    fn declare_stmt(&mut self, out: &mut Vec<Value>) {
        match self.rng.below(10) {
            0 | 1 => {
                // a pointer to something visible (a pointer to a pointer now and then), or an array of pointers
                let targets: Vec<PlaceRef> = self
                    .places()
                    .into_iter()
                    .filter(|p| p.writable && matches!(p.base().0, Ty::Prim(_) | Ty::Named(_) | Ty::Arr(..)) && p.base().1 <= 1)
                    .collect();
                if targets.is_empty() {
                    return self.declare_plain(out);
                }
                let p = targets[self.rng.below(targets.len())].clone();
                let (b, k) = p.base();
                let b = b.clone();
                if matches!(b, Ty::Prim(_)) && k == 0 && self.rng.chance(20) {
                    // array of pointers
                    let t = ptr(b.clone());
                    let c = self.address_candidates(&t, 0);
                    let n = 1 + self.rng.below(3);
                    let es: Vec<Value> = (0..n).map(|_| c[self.rng.below(c.len())].clone()).collect();
                    let name = self.fresh("q");
                    out.push(json!({"k": "V", "x": name, "ty": self.tyj(&arr(n, t.clone())), "e": {"k": "arr", "es": es}}));
                    self.declare(&name, arr(n, t), false);
                    return;
                }
                // &^(k+1) place: the address of the place; &^k place: a copy of the pointer it holds
                let j = if k == 1 && self.rng.chance(50) { 1 } else { k + 1 };
                let mut t = b.clone();
                for _ in 0..j {
                    t = ptr(t);
                }
                let name = self.fresh("r");
                out.push(json!({"k": "V", "x": name, "ty": self.tyj(&t), "e": p.reference(j)}));
                self.declare(&name, t, false);
            }
            2 => {
                // declared without a value, then filled element by element (tests/samples/valid/multidimensional_array.pn)
                let t = Ty::Prim(self.int_type());
                let (n1, n2) = (1 + self.rng.below(2), 1 + self.rng.below(3));
                let two = self.rng.chance(50);
                let ty = if two { arr(n1, arr(n2, t.clone())) } else { arr(n2, t.clone()) };
                let name = self.fresh("un");
                out.push(json!({"k": "V", "x": name, "ty": self.tyj(&ty)}));
                let p = if let Ty::Prim(p) = t { p } else { unreachable!() };
                for i in 0..(if two { n1 } else { 1 }) {
                    for j in 0..n2 {
                        let mut steps = Vec::new();
                        if two {
                            steps.push(json!({"k": "i", "e": usize_lit(i)}));
                        }
                        steps.push(json!({"k": "i", "e": usize_lit(j)}));
                        let e = self.expr(p, 1);
                        out.push(json!({"k": "A", "r": {"x": name, "addr": 0, "steps": steps}, "e": e}));
                    }
                }
                self.declare(&name, ty, false);
            }
            _ => self.declare_plain(out),
        }
    }
    fn declare_plain(&mut self, out: &mut Vec<Value>) {
        let mut t = self.storable_type();
        if !self.initialisable(&t) {
            t = Ty::Prim(self.int_type());
        }
        let prefix = match &t {
            Ty::Prim(_) => "v",
            Ty::Arr(..) => "a",
            _ => "s",
        };
        if let Ty::Named(n) = &t {
            // `S { m }`: a variable named like a member allows the field shorthand (a layout variation of `m: m`)
            let d = self.decl(n).clone();
            let prim: Vec<(String, &'static str)> = d.ms.iter().filter_map(|(m, t)| if let Ty::Prim(p) = t { Some((m.clone(), *p)) } else { None }).collect();
            if !prim.is_empty() && self.initialisable(&t) && self.rng.chance(20) {
                let (m, p) = prim[self.rng.below(prim.len())].clone();
                if !self.scopes.iter().flatten().any(|v| v.name == m) {
                    self.calls_left = 0;
                    let e = self.expr(p, 2);
                    out.push(json!({"k": "V", "x": m, "ty": self.tyj(&Ty::Prim(p)), "e": e}));
                    self.declare(&m, Ty::Prim(p), false);
                    let fs: Vec<Value> = d.ms.iter().map(|(mm, tt)| if *mm == m { json!({"m": mm, "e": var(&m)}) } else { json!({"m": mm, "e": self.value_of(tt, 1)}) }).collect();
                    let name = self.fresh("s");
                    out.push(json!({"k": "V", "x": name, "ty": self.tyj(&t), "e": {"k": "st", "n": n, "fs": fs}}));
                    self.declare(&name, t.clone(), false);
                    return;
                }
            }
        }
        let name = self.fresh_var(prefix);
        self.calls_left = 1;
        let e = if self.is_copyable(&t) && self.rng.chance(12) { self.effect_call(&t) } else { None };
        let e = match e {
            Some(e) => e,
            None => self.value_of(&t, 2),
        };
        out.push(json!({"k": "V", "x": name, "ty": self.tyj(&t), "e": e}));
        self.declare(&name, t, false);
    }
    /// a call with `&` arguments as the whole right hand side
    fn effect_call(&mut self, ret: &Ty) -> Option<Value> {
        let cands: Vec<FnSig> = self.fns.iter().filter(|f| f.ret.as_ref() == Some(ret) && f.params.iter().any(|p| matches!(p.1, Ty::Ptr(_)))).cloned().collect();
        if cands.is_empty() {
            return None;
        }
        let f = cands[self.rng.below(cands.len())].clone();
        // the other arguments are plain (no calls): evaluation order cannot matter
        self.calls_left = 0;
        let args = self.args_for(&f, true)?;
        Some(json!({"k": "call", "f": f.name, "args": args}))
    }
    fn assign_stmt(&mut self, out: &mut Vec<Value>) -> bool {
        let places = self.places();
        if self.rng.chance(18) {
            // address assignment `&^d p = &^d q`: both sides have the same number of markers
            let targets: Vec<PlaceRef> = places.iter().filter(|p| p.base().1 >= 1 && (p.writable || p.base().1 >= 2) && !matches!(p.base().0, Ty::View(_))).cloned().collect();
            if !targets.is_empty() {
                let p = targets[self.rng.below(targets.len())].clone();
                let (b, k) = p.base();
                // d = k re-points the place itself (it must be writable); d < k re-points what it points to
                let lo = 1;
                let hi = if p.writable { k } else { k - 1 };
                if hi >= lo {
                    let d = lo + self.rng.below(hi - lo + 1);
                    // sources must not be younger than the pointer that will hold them
                    let srcs: Vec<Value> = {
                        let mut v = Vec::new();
                        for q in self.places() {
                            let (qb, qk) = q.base();
                            if qb != b || matches!(qb, Ty::View(_)) {
                                continue;
                            }
                            // the holder of the new address: the place itself, or older storage reached through it
                            let target_depth = if d == k && !p.through_ptr { p.depth } else { 0 };
                            // d <= qk copies a pointer held by q (what it points to is at least as old as q);
                            // d = qk + 1 takes the address of q itself
                            if q.depth <= target_depth && (d <= qk || (d == qk + 1 && q.writable)) {
                                v.push(q.reference(d));
                            }
                        }
                        v
                    };
                    if !srcs.is_empty() {
                        let e = srcs[self.rng.below(srcs.len())].clone();
                        out.push(json!({"k": "A", "r": {"x": p.x, "addr": d, "steps": p.steps}, "e": e}));
                        return true;
                    }
                }
            }
        }
        // assignment to a writable place of a copyable type
        let targets: Vec<PlaceRef> = places.into_iter().filter(|p| (p.writable || p.base().1 > 0) && self.is_copyable(p.base().0)).collect();
        if targets.is_empty() {
            return false;
        }
        let p = targets[self.rng.below(targets.len())].clone();
        let t = p.base().0.clone();
        self.calls_left = 1;
        let literal_steps = p.steps.iter().all(|s| s["k"] == "m" || s["e"]["k"] == "lit");
        let e = if literal_steps && self.rng.chance(10) { self.effect_call(&t) } else { None };
        let e = match e {
            Some(e) => e,
            None => self.value_of(&t, 3),
        };
        if p.steps.is_empty() && self.rng.chance(50) {
            out.push(json!({"k": "S", "x": p.x, "e": e}));
        } else {
            out.push(json!({"k": "A", "r": p.plain(), "e": e}));
        }
        true
    }
    fn print_stmt(&mut self, out: &mut Vec<Value>) {
        let t = self.scalar_type();
        self.calls_left = 1;
        let e = if self.rng.chance(8) { self.effect_call(&Ty::Prim(t)) } else { None };
        let e = match e {
            Some(e) => e,
            None => self.expr(t, 3),
        };
        // one print! call with two or three arguments (wide types preferred: 128-bit arguments are formatted through
        // scratch buffers of their own) as often as a plain one
        if self.rng.chance(50) {
            let mut es = vec![e];
            for _ in 0..(1 + self.rng.below(2)) {
                let t2 = if self.rng.chance(50) { t } else { self.scalar_type() };
                self.calls_left = 0;
                es.push(self.expr(t2, 2));
            }
            out.push(json!({"k": "PP", "es": es}));
        } else {
            out.push(json!({"k": "P", "e": e}));
        }
    }
    fn call_stmt(&mut self, out: &mut Vec<Value>) -> bool {
        if self.fns.is_empty() {
            return false;
        }
        let f = self.fns[self.rng.below(self.fns.len())].clone();
        self.call_fn(&f, out)
    }
    /// print a few cells of the current function (what a call may or may not have changed)
    fn observe(&mut self, out: &mut Vec<Value>) {
        let cells: Vec<PlaceRef> = self.places().into_iter().filter(|p| matches!(p.base().0, Ty::Prim(_))).collect();
        if cells.is_empty() {
            return;
        }
        for _ in 0..(1 + self.rng.below(3)) {
            let p = &cells[self.rng.below(cells.len())];
            out.push(json!({"k": "P", "e": p.reference(0)}));
        }
    }
    /// declare a variable that can serve as the argument for a parameter of type t
    fn declare_for(&mut self, t: &Ty, minlen: usize, out: &mut Vec<Value>) {
        self.calls_left = 0;
        let target: Ty = match t {
            Ty::View(e) => arr(minlen.max(1) + self.rng.below(2), (**e).clone()),
            Ty::Ptr(inner) => match &**inner {
                Ty::View(e) => arr(minlen.max(1) + self.rng.below(2), (**e).clone()),
                Ty::Ptr(b) => {
                    // a pointer variable whose address can be taken: first something for it to point to
                    let b = (**b).clone();
                    if self.address_candidates(&ptr(b.clone()), 0).is_empty() {
                        self.declare_for(&ptr(b.clone()), 0, out);
                    }
                    let c = self.address_candidates(&ptr(b.clone()), 0);
                    if c.is_empty() {
                        return;
                    }
                    let name = self.fresh("r");
                    let e = c[self.rng.below(c.len())].clone();
                    out.push(json!({"k": "V", "x": name, "ty": self.tyj(&ptr(b.clone())), "e": e}));
                    self.declare(&name, ptr(b), false);
                    return;
                }
                other => other.clone(),
            },
            other => other.clone(),
        };
        if !self.initialisable(&target) {
            return;
        }
        let prefix = match &target {
            Ty::Prim(_) => "v",
            Ty::Arr(..) => "a",
            _ => "s",
        };
        let name = self.fresh(prefix);
        let e = self.value_of(&target, 1);
        out.push(json!({"k": "V", "x": name, "ty": self.tyj(&target), "e": e}));
        self.declare(&name, target, false);
    }
    /// declare what is missing so that f can be called, call it, and look at the caller's cells
    fn call_with_setup(&mut self, f: &FnSig, out: &mut Vec<Value>) {
        for (_, t, minlen) in &f.params {
            self.calls_left = 0;
            let missing = match t {
                Ty::Ptr(_) => self.address_candidates(t, *minlen).is_empty() || self.rng.chance(20),
                Ty::View(_) => self.rng.chance(40),
                Ty::Named(_) if self.is_struct(t) => !self.places().iter().any(|p| p.base().0 == t) || self.rng.chance(20),
                _ => false,
            };
            if missing {
                self.declare_for(t, *minlen, out);
            }
        }
        if self.call_fn(f, out) {
            self.observe(out);
        }
    }
    /// The callee writes a cell through a pointer parameter and then reads the same cell through a view parameter
    /// whose type occurs inside the pointee: if the caller passed aliasing arguments (`alias_arguments`), the view
    /// must show the write.
    fn alias_idiom(&mut self, out: &mut Vec<Value>) {
        let ps: Vec<Variable> = self.scopes[0].clone();
        let mut cands: Vec<(PlaceRef, Variable)> = Vec::new();
        for pp in ps.iter().filter(|v| matches!(&v.ty, Ty::Ptr(e) if !matches!(**e, Ty::Ptr(_)))) {
            let root = PlaceRef { x: pp.name.clone(), steps: Vec::new(), ty: pp.ty.clone(), writable: false, minlen: pp.minlen, depth: 0, through_ptr: false, root_param: true };
            let mut subs = Vec::new();
            self.walk(root, 0, &mut subs);
            for vp in ps.iter().filter(|v| matches!(v.ty, Ty::View(_)) || self.is_struct(&v.ty)) {
                for q in &subs {
                    let fits = match (&vp.ty, q.base().0) {
                        (Ty::View(e), Ty::Arr(n, e2)) => **e == **e2 && *n >= vp.minlen,
                        (Ty::View(e), Ty::View(e2)) => **e == **e2 && q.minlen >= vp.minlen && q.steps.is_empty(),
                        (Ty::Named(_), b) => *b == vp.ty,
                        _ => false,
                    };
                    if fits {
                        cands.push((q.clone(), vp.clone()));
                    }
                }
            }
        }
        if cands.is_empty() {
            return;
        }
        let (q, vp) = cands[self.rng.below(cands.len())].clone();
        // a leaf below the view parameter, and the same steps below the place reached through the pointer
        let vroot = PlaceRef { x: vp.name.clone(), steps: Vec::new(), ty: vp.ty.clone(), writable: false, minlen: vp.minlen, depth: 0, through_ptr: false, root_param: true };
        let mut leaves = Vec::new();
        self.walk(vroot, 0, &mut leaves);
        let leaves: Vec<PlaceRef> = leaves.into_iter().filter(|l| matches!(l.base(), (Ty::Prim(t), 0) if *t != "bool") && l.steps.iter().all(|s| s["k"] == "m" || s["e"]["k"] == "lit")).collect();
        if leaves.is_empty() {
            return;
        }
        let leaf = leaves[self.rng.below(leaves.len())].clone();
        let t = if let Ty::Prim(t) = leaf.base().0 { *t } else { unreachable!() };
        let mut steps = q.steps.clone();
        steps.extend(leaf.steps.iter().cloned());
        self.calls_left = 0;
        let e = self.expr(t, 1);
        let through = json!({"k": "ref", "x": q.x, "addr": 0, "steps": steps});
        let e = if self.rng.chance(60) { json!({"k": "bin", "op": "+", "l": through, "r": e}) } else { e };
        out.push(json!({"k": "A", "r": {"x": q.x, "addr": 0, "steps": steps}, "e": e}));
        out.push(json!({"k": "P", "e": leaf.reference(0)}));
    }
    /// a statement of the callee that uses its parameter
    fn touch_param(&mut self, v: &Variable, out: &mut Vec<Value>) {
        self.calls_left = 0;
        let root = PlaceRef { x: v.name.clone(), steps: Vec::new(), ty: v.ty.clone(), writable: false, minlen: v.minlen, depth: 0, through_ptr: false, root_param: true };
        let mut all = Vec::new();
        self.walk(root, 0, &mut all);
        let leaves: Vec<PlaceRef> = all.iter().filter(|p| self.is_copyable(p.base().0) && matches!(p.base().0, Ty::Prim(_))).cloned().collect();
        let arrays: Vec<PlaceRef> = all.iter().filter(|p| matches!(p.base().0, Ty::Arr(..) | Ty::View(_))).cloned().collect();
        if !arrays.is_empty() && self.rng.chance(40) {
            let a = &arrays[self.rng.below(arrays.len())];
            out.push(json!({"k": "P", "e": {"k": "len", "r": a.plain()}}));
        }
        if leaves.is_empty() {
            return;
        }
        let p = leaves[self.rng.below(leaves.len())].clone();
        let t = if let Ty::Prim(t) = p.base().0 { *t } else { unreachable!() };
        let can_write = p.writable || p.base().1 > 0;
        if can_write && self.rng.chance(60) {
            // write through the parameter: the new value depends on the old one now and then
            let e = self.expr(t, 1);
            let e = if t != "bool" && self.rng.chance(50) { json!({"k": "bin", "op": "+", "l": p.reference(0), "r": e}) } else { e };
            out.push(json!({"k": "A", "r": p.plain(), "e": e}));
            if self.rng.chance(50) {
                out.push(json!({"k": "P", "e": p.reference(0)}));
            }
        } else {
            out.push(json!({"k": "P", "e": p.reference(0)}));
        }
    }
    fn call_fn(&mut self, f: &FnSig, out: &mut Vec<Value>) -> bool {
        let f = f.clone();
        self.calls_left = 0;
        let args = match self.args_for(&f, true) {
            Some(a) => a,
            None => return false,
        };
        let mut d = String::new();
        if let Some(rt) = &f.ret {
            // the result may be stored in a plain variable
            let dests: Vec<Variable> = self.scopes.iter().flatten().filter(|v| !v.hidden && v.kind == Kind::Var && &v.ty == rt).cloned().collect();
            if dests.is_empty() {
                // a function with a result is called for its effects through a declaration
                let name = self.fresh("v");
                out.push(json!({"k": "V", "x": name, "ty": self.tyj(rt), "e": {"k": "call", "f": f.name, "args": args}}));
                self.declare(&name, rt.clone(), false);
                return true;
            }
            d = dests[self.rng.below(dests.len())].name.clone();
        }
        out.push(json!({"k": "CALL", "f": f.name, "args": args, "d": d}));
        true
    }
    /// `{ if i == |x| goto end; <use x[i]>; i = i + 1; loop; } end:` over an array however it is reachable
    fn foreach_stmt(&mut self, out: &mut Vec<Value>) -> bool {
        let arrs: Vec<PlaceRef> = self
            .places()
            .into_iter()
            .filter(|p| match p.base().0 {
                Ty::Arr(_, e) | Ty::View(e) => !p.no_index() && matches!(**e, Ty::Prim(t) if t != "bool"),
                _ => false,
            })
            .collect();
        if arrs.is_empty() {
            return false;
        }
        let p = arrs[self.rng.below(arrs.len())].clone();
        let (elem, is_view) = match p.base().0 {
            Ty::Arr(_, e) => ((**e).clone(), false),
            Ty::View(e) => ((**e).clone(), true),
            _ => unreachable!(),
        };
        let et = if let Ty::Prim(t) = elem { t } else { unreachable!() };
        let writable = if is_view { p.base().1 > 0 } else { p.writable || p.base().1 > 0 };
        let i = self.fresh("ix");
        let lbl = self.choose_label(Some(self.label_sets.len() - 1));
        out.push(json!({"k": "V", "x": i, "ty": self.tyj(&Ty::Prim("usize")), "e": usize_lit(0)}));
        self.declare(&i, Ty::Prim("usize"), true);
        out.push(json!({"k": "O"}));
        out.push(json!({"k": "IG", "c": {"op": "==", "l": var(&i), "r": {"k": "len", "r": p.plain()}}, "n": lbl}));
        let mut steps = p.steps.clone();
        steps.push(json!({"k": "i", "e": var(&i)}));
        let elem_ref = json!({"k": "ref", "x": p.x, "addr": 0, "steps": steps});
        if writable && self.rng.chance(50) {
            let e = self.expr(et, 1);
            let rhs = if self.rng.chance(50) { json!({"k": "bin", "op": "+", "l": elem_ref.clone(), "r": e}) } else { e };
            out.push(json!({"k": "A", "r": {"x": p.x, "addr": 0, "steps": steps}, "e": rhs}));
        }
        out.push(json!({"k": "P", "e": elem_ref}));
        out.push(json!({"k": "S", "x": i, "e": {"k": "bin", "op": "+", "l": var(&i), "r": usize_lit(1)}}));
        out.push(json!({"k": "LP"}));
        out.push(json!({"k": "C"}));
        out.push(json!({"k": "L", "n": lbl}));
        self.place_label(&lbl);
        true
    }
    fn statements(&mut self, out: &mut Vec<Value>, depth: usize, exit_label: Option<&str>) {
        let n = 1 + self.rng.below(5);
        for _ in 0..n {
            if self.budget == 0 {
                break;
            }
            self.budget -= 1;
            self.calls_left = 1;
            match self.rng.below(20) {
                0 | 1 | 2 | 3 => self.declare_stmt(out),
                4 | 5 | 6 => {
                    if !self.assign_stmt(out) {
                        self.declare_stmt(out);
                    }
                }
                7 | 8 | 9 => self.print_stmt(out),
                10 | 11 if depth < 3 => {
                    // if / else-if / else chain with braced blocks
                    let c = self.cond();
                    out.push(json!({"k": "IO", "c": c}));
                    self.block_body(out, depth + 1, exit_label);
                    out.push(json!({"k": "C"}));
                    while self.rng.chance(30) {
                        self.calls_left = 1;
                        let c = self.cond();
                        out.push(json!({"k": "EIO", "c": c}));
                        self.block_body(out, depth + 1, exit_label);
                        out.push(json!({"k": "C"}));
                    }
                    if self.rng.chance(50) {
                        out.push(json!({"k": "EO"}));
                        self.block_body(out, depth + 1, exit_label);
                        out.push(json!({"k": "C"}));
                    }
                }
                12 => {
                    // conditional jump out of the enclosing construct, or to the end of the function
                    let target = match exit_label {
                        Some(l) => Some(l.to_string()),
                        None if self.has_return_label => Some("return".to_string()),
                        None => None,
                    };
                    // ... or out of several enclosing blocks / loops at once, to the exit label of an outer construct
                    let target = if self.exit_stack.len() >= 2 && self.rng.chance(40) {
                        Some(self.exit_stack[self.rng.below(self.exit_stack.len() - 1)].clone())
                    } else {
                        target
                    };
                    if let Some(l) = target {
                        let c = self.cond();
                        out.push(json!({"k": "IG", "c": c, "n": l}));
                        if self.rng.chance(25) {
                            out.push(json!({"k": "EG", "n": l}));
                            break;
                        }
                    }
                }
                13 if depth < 3 => {
                    // counted loop: var i; { body; if i >= k goto out; i = i + 1; loop; } out:
                    let i = self.fresh("cnt");
                    let k = 1 + self.rng.below(4 * self.size) as u128;
                    let lbl = self.choose_label(Some(self.label_sets.len() - 1));
                    out.push(json!({"k": "V", "x": i, "ty": self.tyj(&Ty::Prim("u8")), "e": lit("u8", 0)}));
                    self.declare(&i, Ty::Prim("u8"), true);
                    out.push(json!({"k": "O"}));
                    self.open_block();
                    if self.rng.chance(50) {
                        out.push(json!({"k": "P", "e": var(&i)}));
                    }
                    self.exit_stack.push(lbl.clone());
                    if self.rng.chance(30) {
                        // `{ if i >= k goto out; i = i + 1; ...; if c goto cont; ...; cont: loop; }`: the label is the last
                        // statement before `loop` (a jump to it starts the next iteration)
                        let cont = self.choose_label(Some(self.label_sets.len() - 1));
                        out.push(json!({"k": "IG", "c": {"op": ">=", "l": var(&i), "r": lit("u8", k)}, "n": lbl}));
                        out.push(json!({"k": "S", "x": i, "e": {"k": "bin", "op": "+", "l": var(&i), "r": lit("u8", 1)}}));
                        self.exit_stack.push(cont.clone());
                        self.statements(out, depth + 1, Some(&cont));
                        self.exit_stack.pop();
                        out.push(json!({"k": "L", "n": cont}));
                        self.place_label(&cont);
                    } else {
                        self.statements(out, depth + 1, Some(&lbl));
                        out.push(json!({"k": "IG", "c": {"op": ">=", "l": var(&i), "r": lit("u8", k)}, "n": lbl}));
                        out.push(json!({"k": "S", "x": i, "e": {"k": "bin", "op": "+", "l": var(&i), "r": lit("u8", 1)}}));
                    }
                    self.exit_stack.pop();
                    out.push(json!({"k": "LP"}));
                    self.close_block();
                    out.push(json!({"k": "C"}));
                    out.push(json!({"k": "L", "n": lbl}));
                    self.place_label(&lbl);
                }
                14 if depth < 3 => {
                    // plain block with a label at its end
                    let lbl = self.choose_label(None);
                    out.push(json!({"k": "O"}));
                    self.open_block();
                    self.exit_stack.push(lbl.clone());
                    self.statements(out, depth + 1, Some(&lbl));
                    self.exit_stack.pop();
                    out.push(json!({"k": "L", "n": lbl}));
                    self.place_label(&lbl);
                    self.close_block();
                    out.push(json!({"k": "C"}));
                }
                15 | 16 | 17 => {
                    if !self.call_stmt(out) {
                        self.print_stmt(out);
                    }
                }
                18 if depth < 3 => {
                    if !self.foreach_stmt(out) {
                        self.print_stmt(out);
                    }
                }
                _ => self.print_stmt(out),
            }
        }
    }
    fn block_body(&mut self, out: &mut Vec<Value>, depth: usize, exit_label: Option<&str>) {
        self.open_block();
        self.statements(out, depth, exit_label);
        self.close_block();
    }

    // ---- functions ----
    fn param_type(&mut self) -> (Ty, usize) {
        let structs: Vec<String> = self.structs.iter().filter(|d| d.bits.is_none() && !d.has_ptr).map(|d| d.name.clone()).collect();
        let words: Vec<String> = self.structs.iter().filter(|d| d.bits.is_some()).map(|d| d.name.clone()).collect();
        let minlen = 1 + self.rng.below(3);
        let it = Ty::Prim(self.int_type());
        match self.rng.below(14) {
            0 | 1 => (Ty::Prim(self.scalar_type()), 0),
            2 if !words.is_empty() => (Ty::Named(words[self.rng.below(words.len())].clone()), 0),
            3 | 4 => (view(it), minlen),
            5 => (view(arr(1 + self.rng.below(3), it)), minlen.min(2)),
            6 if !structs.is_empty() => (Ty::Named(structs[self.rng.below(structs.len())].clone()), 0),
            7 | 8 => (ptr(view(it)), minlen),
            9 => (ptr(it), 0),
            10 if !self.structs.is_empty() => {
                let cands: Vec<String> = self.structs.iter().filter(|d| !d.has_ptr).map(|d| d.name.clone()).collect();
                if cands.is_empty() { (ptr(it), 0) } else { (ptr(Ty::Named(cands[self.rng.below(cands.len())].clone())), 0) }
            }
            11 => (ptr(ptr(it)), 0),
            12 => (ptr(arr(1 + self.rng.below(3), it)), 0),
            _ => (ptr(it), 0),
        }
    }
    fn function(&mut self) -> Value {
        let mut name = self.fresh("h");
        let np = self.rng.below(4);
        self.pool_used.clear();
        self.exit_stack.clear();
        let mut params = Vec::new();
        let mut sig = Vec::new();
        self.scopes = vec![Vec::new()];
        // now and then a (pointer to X, view of something inside X) pair, the shape in which aliasing shows
        let mut forced: Vec<(Ty, usize)> = Vec::new();
        if self.rng.chance(25) {
            let structs: Vec<StructDecl> = self.structs.iter().filter(|d| d.bits.is_none() && !d.has_ptr).cloned().collect();
            if !structs.is_empty() {
                let d = structs[self.rng.below(structs.len())].clone();
                let outer = Ty::Named(d.name.clone());
                // views of: the structure itself, a member structure, an array member
                let mut inner: Vec<(Ty, usize)> = vec![(outer.clone(), 0)];
                for (_, t) in &d.ms {
                    match t {
                        Ty::Named(_) if self.is_struct(t) => inner.push((t.clone(), 0)),
                        Ty::Arr(n, e) if *n >= 1 => inner.push((view((**e).clone()), 1 + self.rng.below(*n))),
                        _ => {}
                    }
                }
                let v = inner[self.rng.below(inner.len())].clone();
                forced.push((ptr(outer), 0));
                forced.push(v);
            } else {
                let it = Ty::Prim(self.int_type());
                let n = 1 + self.rng.below(3);
                forced.push((ptr(view(it.clone())), n));
                forced.push((view(it), n));
            }
        }
        // seven to twelve parameters now and then (registers and stack), and a name the tool chain knows
        let np = if self.rng.chance(8) { 7 + self.rng.below(6) } else { np };
        if self.rng.chance(15) {
            let cand = FN_NAME_POOL[self.rng.below(FN_NAME_POOL.len())].to_string();
            if !self.fn_names.contains(&cand) {
                self.fn_names.push(cand.clone());
                name = cand;
            }
        }
        for k in 0..np.max(forced.len()) {
            let (t, minlen) = if k < forced.len() { forced[k].clone() } else { self.param_type() };
            let p = self.fresh("p");
            params.push(json!({"x": p, "ty": self.tyj(&t)}));
            let hidden = false;
            self.scopes[0].push(Variable { name: p.clone(), ty: t.clone(), kind: Kind::Param, minlen, depth: 0, hidden });
            sig.push((p, t, minlen));
        }
        let words: Vec<String> = self.structs.iter().filter(|d| d.bits.is_some()).map(|d| d.name.clone()).collect();
        let ret: Option<Ty> = match self.rng.below(10) {
            0 | 1 => None,
            2 if !words.is_empty() => Some(Ty::Named(words[self.rng.below(words.len())].clone())),
            _ => Some(Ty::Prim(self.scalar_type())),
        };
        let mut body = Vec::new();
        self.budget = (3 + self.rng.below(7)) * self.size;
        self.has_return_label = ret.is_some() && self.rng.chance(40);
        self.label_sets = vec![Default::default()];
        self.pending_labels.clear();
        self.scopes.push(Vec::new());
        // with a `return` label the result is a variable declared first: a `goto return` must not skip the
        // declaration of anything the result uses (E482)
        let mut result_var = None;
        if self.has_return_label {
            let rt = ret.clone().unwrap();
            let rv = self.fresh("res");
            self.calls_left = 0;
            let e = self.value_of(&rt, 1);
            body.push(json!({"k": "V", "x": rv, "ty": self.tyj(&rt), "e": e}));
            self.declare(&rv, rt, false);
            result_var = Some(rv);
        }
        let ps: Vec<Variable> = self.scopes[0].clone();
        for v in &ps {
            if self.rng.chance(75) {
                self.touch_param(v, &mut body);
            }
        }
        if self.rng.chance(70) {
            self.alias_idiom(&mut body);
        }
        self.statements(&mut body, 1, None);
        if !self.fns.is_empty() && self.rng.chance(50) {
            let g = self.fns[self.rng.below(self.fns.len())].clone();
            self.call_with_setup(&g, &mut body);
        }
        for v in &ps {
            let is_view = matches!(v.ty, Ty::View(_)) || self.is_struct(&v.ty);
            if self.rng.chance(if is_view { 65 } else { 35 }) {
                self.touch_param(v, &mut body);
            }
        }
        let mut f = json!({"name": name, "params": params, "ret": match &ret { Some(t) => self.tyj(t), None => json!({"k": "void"}) }});
        if let Some(rt) = &ret {
            match &result_var {
                Some(rv) => {
                    body.push(json!({"k": "L", "n": "return"}));
                    f["res"] = var(rv);
                }
                None => {
                    self.calls_left = 1;
                    f["res"] = self.value_of(rt, 2);
                }
            }
        }
        self.scopes.pop();
        f["body"] = json!(body);
        self.has_return_label = false;
        self.fns.push(FnSig { name, params: sig, ret });
        f
    }
}

/// `size` scales statement budgets and loop counts (1 = quick tier, 2 = thorough tier)
pub fn program(seed: u64, i: u64, size: usize) -> Value {
    let mut g = Gen {
        size: size.max(1),
        rng: Rng::new(seed, i),
        structs: Vec::new(),
        scopes: vec![Vec::new()],
        consts: Vec::new(),
        counter: 0,
        fns: Vec::new(),
        budget: 0,
        calls_left: 0,
        has_return_label: false,
        in_const: false,
        in_cond: false,
        label_sets: vec![Default::default()],
        pending_labels: Vec::new(),
        len_consts: Vec::new(),
        exit_stack: Vec::new(),
        pool_used: Default::default(),
        fn_names: Vec::new(),
    };
    g.gen_structs();
    // constants: scalars, arrays, structures and words (no pointers: E360)
    let mut consts = Vec::new();
    // named constants used as array lengths (the value of each is written in one of three ways; Trace_Machine checks that
    // every `[NAME]T` of the logged program has exactly as many elements as the machine computes for NAME)
    if g.rng.chance(45) {
        for _ in 0..(1 + g.rng.below(2)) {
            let v = g.rng.below(5);
            if g.len_consts.iter().any(|(x, _)| *x == v) {
                continue;
            }
            let name = g.fresh("LN");
            let e = match g.rng.below(3) {
                0 => usize_lit(v),
                1 if v >= 1 => json!({"k": "bin", "op": "+", "l": usize_lit(v - 1), "r": usize_lit(1)}),
                2 if v == 1 || v == 2 || v == 4 => {
                    let tn = if v == 1 { "u8" } else if v == 2 { "i16" } else { "u32" };
                    json!({"k": "sizeof", "ty": {"k": "prim", "t": tn}})
                }
                _ => json!({"k": "bin", "op": "-", "l": usize_lit(v + 7), "r": usize_lit(7)}),
            };
            consts.push(json!({"x": name, "ty": {"k": "prim", "t": "usize"}, "e": e}));
            g.consts.push(Variable { name: name.clone(), ty: Ty::Prim("usize"), kind: Kind::Const, minlen: 0, depth: 0, hidden: false });
            g.len_consts.push((v, name));
        }
    }
    for _ in 0..g.rng.below(4) {
        let mut t = g.storable_type();
        let has_ptr = |g: &Gen, t: &Ty| -> bool {
            fn rec(g: &Gen, t: &Ty) -> bool {
                match t {
                    Ty::Ptr(_) => true,
                    Ty::Arr(_, e) => rec(g, e),
                    Ty::Named(n) => g.decl(n).ms.iter().any(|(_, t)| rec(g, t)),
                    _ => false,
                }
            }
            rec(g, t)
        };
        if has_ptr(&g, &t) {
            t = Ty::Prim(g.int_type());
        }
        let name = g.fresh("K");
        g.calls_left = 0;
        g.in_const = true;
        let e = g.value_of(&t, 2);
        g.in_const = false;
        consts.push(json!({"x": name, "ty": g.tyj(&t), "e": e}));
        g.consts.push(Variable { name: name.clone(), ty: t.clone(), kind: Kind::Const, minlen: 0, depth: 0, hidden: false });
        // (eighth round of seeded changes) a constant of word type is copied by value: `const K2: W = K1;` names the first one
        // bare in the initialiser of the second.  No draw: every word constant gets its copy.
        if g.is_word(&t) {
            let copy = g.fresh("K");
            consts.push(json!({"x": copy, "ty": g.tyj(&t), "e": var(&name)}));
            g.consts.push(Variable { name: copy, ty: t, kind: Kind::Const, minlen: 0, depth: 0, hidden: false });
        }
    }
    let mut fns = Vec::new();
    for _ in 0..(1 + g.rng.below(4)) {
        let f = g.function();
        fns.push(f);
    }
    g.scopes = vec![Vec::new()];
    g.label_sets = vec![Default::default()];
    g.pending_labels.clear();
    let mut body = Vec::new();
    g.pool_used.clear();
    g.exit_stack.clear();
    g.budget = (4 + g.rng.below(14)) * g.size;
    if g.rng.chance(10) {
        // an array of 100 / 130 elements (across 2^7), declared without a value and filled by a loop
        let n = if g.rng.chance(50) { 100 } else { 130 };
        let t = g.int_type();
        let name = g.fresh("big");
        let i = g.fresh("ix");
        let lbl = g.choose_label(Some(0));
        body.push(json!({"k": "V", "x": name, "ty": g.tyj(&arr(n, Ty::Prim(t)))}));
        body.push(json!({"k": "V", "x": i, "ty": g.tyj(&Ty::Prim("usize")), "e": usize_lit(0)}));
        g.declare(&i, Ty::Prim("usize"), true);
        body.push(json!({"k": "O"}));
        body.push(json!({"k": "IG", "c": {"op": "==", "l": var(&i), "r": {"k": "len", "r": {"x": name, "addr": 0, "steps": []}}}, "n": lbl}));
        let as_t = if t == "usize" { var(&i) } else { json!({"k": "as", "t": t, "e": var(&i)}) };
        body.push(json!({"k": "A", "r": {"x": name, "addr": 0, "steps": [{"k": "i", "e": var(&i)}]},
                         "e": {"k": "bin", "op": "+", "l": as_t, "r": lit(t, 3)}}));
        body.push(json!({"k": "S", "x": i, "e": {"k": "bin", "op": "+", "l": var(&i), "r": usize_lit(1)}}));
        body.push(json!({"k": "LP"}));
        body.push(json!({"k": "C"}));
        body.push(json!({"k": "L", "n": lbl}));
        g.place_label(&lbl);
        g.declare(&name, arr(n, Ty::Prim(t)), false);
    }
    g.statements(&mut body, 0, None);
    // every function is called at least once, with the caller's cells printed afterwards
    let sigs = g.fns.clone();
    for f in &sigs {
        g.call_with_setup(f, &mut body);
        if g.rng.chance(30) {
            g.budget = 1 + g.rng.below(3);
            g.statements(&mut body, 0, None);
        }
        if g.rng.chance(25) {
            g.call_with_setup(f, &mut body);
        }
    }
    let mut ends_without_line_break = false;
    if g.rng.chance(30) {
        // the END of the output: the last thing printed has no line break after it
        g.calls_left = 0;
        let t = g.scalar_type();
        let e = g.expr(t, 1);
        body.push(json!({"k": "P", "e": e, "nonl": true}));
        ends_without_line_break = true;
    }
    // (no call in the result expression then: a callee that prints would continue the unfinished line)
    g.calls_left = if ends_without_line_break { 0 } else { 1 };
    let res = g.expr("u8", 2);
    let mut all = vec![json!({"name": "main", "params": [], "ret": {"k": "prim", "t": "u8"}, "body": body, "res": res})];
    all.extend(fns);
    let structs: Vec<Value> = g
        .structs
        .iter()
        .map(|d| {
            let ms: Vec<Value> = d.ms.iter().map(|(m, t)| json!({"x": m, "ty": g.tyj(t)})).collect();
            match d.bits {
                Some(b) => json!({"name": d.name, "kind": "word", "bits": b, "ms": ms}),
                None => json!({"name": d.name, "kind": "struct", "ms": ms}),
            }
        })
        .collect();
    json!({"structs": structs, "consts": consts, "fns": all})
}

//! Projection of the first-generation AST (`penne::alpha::common::Declaration`) onto the abstract
//! syntax of spec/PenneAst.tla (DESIGN.md 4.1), in the same normal form as the projection of the
//! second-generation XML dump:
//!   * a negative literal that the parser folded (`-128` -> SignedIntegerLiteral(-128)) is unfolded to
//!     unary minus applied to the literal (what the source says and what delta keeps);
//!   * the trailing `return:` label that precedes the result expression is not a statement of its own
//!     (`result` carries the expression);
//!   * locations, resolution ids and inferred types are dropped.
//! Any poison found on the way is recorded with its error code: such a module was *rejected*.
use penne::alpha::common::*;
use serde_json::{Map, Value, json};

macro_rules! flags {
    ($s:expr, $f:expr, $m:expr) => {
        $s.flags(
            $f.contains(DeclarationFlag::Public),
            $f.contains(DeclarationFlag::External),
            $f.contains(DeclarationFlag::OpaqueStruct),
            $f.contains(DeclarationFlag::Main) || $f.contains(DeclarationFlag::Forward),
            &mut $m,
        )
    };
}

pub struct AlphaProj {
    pub codes: Vec<u16>,
    pub issues: Vec<String>,
}

fn obj(pairs: Vec<(&str, Value)>) -> Value {
    let mut m = Map::new();
    for (k, v) in pairs {
        m.insert(k.to_string(), v);
    }
    Value::Object(m)
}

impl AlphaProj {
    pub fn new() -> AlphaProj {
        AlphaProj { codes: Vec::new(), issues: Vec::new() }
    }

    fn poison(&mut self, p: &Poison) -> Value {
        match p {
            Poison::Error(e) => self.codes.push(e.code()),
            Poison::Poisoned => self.codes.push(0),
        }
        obj(vec![("k", json!("poison"))])
    }

    fn name(&mut self, n: &Poisonable<Identifier>) -> Value {
        match n {
            Ok(i) => json!(i.name),
            Err(p) => self.poison(p),
        }
    }

    pub fn module(&mut self, decls: &[Declaration]) -> Value {
        let ds: Vec<Value> = decls.iter().map(|d| self.decl(d)).collect();
        obj(vec![("decls", Value::Array(ds))])
    }

    fn flags(&mut self, public: bool, external: bool, opaque: bool, other: bool, m: &mut Vec<(&'static str, Value)>) {
        m.push(("pub", json!(public)));
        m.push(("extern", json!(external)));
        if opaque {
            m.push(("opaque", json!(true)));
        }
        if other {
            self.issues.push("unexpected declaration flag (Main/Forward) after parsing".to_string());
        }
    }

    fn pty(&mut self, t: &Poisonable<ValueType>) -> Value {
        match t {
            Ok(t) => self.ty(t),
            Err(p) => self.poison(p),
        }
    }

    pub fn ty(&mut self, t: &ValueType) -> Value {
        let prim = |t: &str| obj(vec![("k", json!("prim")), ("t", json!(t))]);
        match t {
            ValueType::Void => prim("void"),
            ValueType::Int8 => prim("i8"),
            ValueType::Int16 => prim("i16"),
            ValueType::Int32 => prim("i32"),
            ValueType::Int64 => prim("i64"),
            ValueType::Int128 => prim("i128"),
            ValueType::Uint8 => prim("u8"),
            ValueType::Uint16 => prim("u16"),
            ValueType::Uint32 => prim("u32"),
            ValueType::Uint64 => prim("u64"),
            ValueType::Uint128 => prim("u128"),
            ValueType::Usize => prim("usize"),
            ValueType::Char8 => prim("char8"),
            ValueType::Bool => prim("bool"),
            ValueType::Array { element_type, length } => {
                obj(vec![("k", json!("array")), ("n", json!(length.to_string())), ("t", self.ty(element_type))])
            }
            ValueType::ArrayWithNamedLength { element_type, named_length } => {
                obj(vec![("k", json!("arrayc")), ("c", json!(named_length.name)), ("t", self.ty(element_type))])
            }
            ValueType::Slice { element_type } => obj(vec![("k", json!("slice")), ("t", self.ty(element_type))]),
            ValueType::EndlessArray { element_type } => obj(vec![("k", json!("endless")), ("t", self.ty(element_type))]),
            ValueType::Arraylike { element_type } => obj(vec![("k", json!("arraylike")), ("t", self.ty(element_type))]),
            ValueType::Pointer { deref_type } => obj(vec![("k", json!("ptr")), ("t", self.ty(deref_type))]),
            ValueType::View { deref_type } => obj(vec![("k", json!("view")), ("t", self.ty(deref_type))]),
            ValueType::UnresolvedStructOrWord { identifier: Some(i) } => obj(vec![("k", json!("named")), ("n", json!(i.name))]),
            ValueType::Struct { identifier } | ValueType::Word { identifier, .. } => {
                obj(vec![("k", json!("named")), ("n", json!(identifier.name))])
            }
            other => {
                self.issues.push(format!("type {other:?} cannot come out of the parser"));
                obj(vec![("k", json!("?"))])
            }
        }
    }

    fn decl(&mut self, d: &Declaration) -> Value {
        match d {
            Declaration::Constant { name, value, value_type, flags, .. } => {
                let mut m = vec![("k", json!("const")), ("name", json!(name.name))];
                flags!(self, flags, m);
                m.push(("ty", self.pty(value_type)));
                m.push(("value", self.expr(value)));
                obj(m)
            }
            Declaration::Function { name, parameters, body, return_type, flags, .. } => {
                let mut m = vec![("k", json!("fn")), ("name", json!(name.name))];
                flags!(self, flags, m);
                m.push(("params", self.params(parameters)));
                self.ret(return_type, &mut m);
                match body {
                    Ok(b) => {
                        let mut stmts: Vec<&Statement> = b.statements.iter().collect();
                        if b.return_value.is_some() {
                            match stmts.last() {
                                Some(Statement::Label { label, .. }) if label.name == "return" => {
                                    stmts.pop();
                                }
                                _ => self.issues.push("result expression without a preceding `return:` label".to_string()),
                            }
                        }
                        let ss: Vec<Value> = stmts.iter().map(|s| self.stmt(s)).collect();
                        m.push(("body", Value::Array(ss)));
                        if let Some(v) = &b.return_value {
                            m.push(("result", self.expr(v)));
                        }
                    }
                    Err(p) => {
                        m.push(("body", self.poison(p)));
                    }
                }
                obj(m)
            }
            Declaration::FunctionHead { name, parameters, return_type, flags, .. } => {
                let mut m = vec![("k", json!("head")), ("name", json!(name.name))];
                flags!(self, flags, m);
                m.push(("params", self.params(parameters)));
                self.ret(return_type, &mut m);
                obj(m)
            }
            Declaration::Structure { name, members, structural_type, flags, .. } => {
                let mut m = vec![("name", json!(name.name))];
                flags!(self, flags, m);
                match structural_type {
                    Ok(ValueType::Struct { identifier }) if identifier.name == name.name => m.push(("k", json!("struct"))),
                    Ok(ValueType::Word { identifier, size_in_bytes }) if identifier.name == name.name => {
                        m.push(("k", json!("word")));
                        m.push(("size", json!(size_in_bytes)));
                    }
                    Ok(other) => {
                        self.issues.push(format!("structural type {other:?}"));
                        m.push(("k", json!("?")));
                    }
                    Err(p) => {
                        m.push(("k", self.poison(p)));
                    }
                }
                let ms: Vec<Value> = members
                    .iter()
                    .map(|mm| {
                        let n = self.name(&mm.name);
                        let t = self.pty(&mm.value_type);
                        obj(vec![("name", n), ("ty", t)])
                    })
                    .collect();
                m.push(("members", Value::Array(ms)));
                obj(m)
            }
            Declaration::Import { filename, .. } => obj(vec![("k", json!("import")), ("file", json!(filename))]),
            Declaration::Poison(p) => self.poison(p),
        }
    }

    fn ret(&mut self, t: &Poisonable<ValueType>, m: &mut Vec<(&'static str, Value)>) {
        match t {
            Ok(ValueType::Void) => (),
            other => m.push(("ret", self.pty(other))),
        }
    }

    fn params(&mut self, ps: &[Parameter]) -> Value {
        let v: Vec<Value> = ps
            .iter()
            .map(|p| {
                let n = self.name(&p.name);
                let t = self.pty(&p.value_type);
                obj(vec![("name", n), ("ty", t)])
            })
            .collect();
        Value::Array(v)
    }

    fn reference(&mut self, r: &Reference) -> Value {
        let mut steps = Vec::new();
        for s in &r.steps {
            match s {
                ReferenceStep::Element { argument, .. } => steps.push(obj(vec![("k", json!("idx")), ("e", self.expr(argument))])),
                ReferenceStep::Member { member, .. } => steps.push(obj(vec![("k", json!("mem")), ("m", json!(member.name))])),
                other => self.issues.push(format!("reference step {other:?} cannot come out of the parser")),
            }
        }
        obj(vec![("addr", json!(r.address_depth)), ("base", self.name(&r.base)), ("steps", Value::Array(steps))])
    }

    fn call(&mut self, kind: &str, name: &Identifier, builtin: &Option<Builtin>, arguments: &[Expression]) -> Value {
        let args: Vec<Value> = arguments.iter().map(|a| self.expr(a)).collect();
        let mut f = name.name.clone();
        // an unknown builtin keeps its `!` in the name (parser.rs find_builtin)
        let is_builtin = builtin.is_some() || f.ends_with('!');
        if f.ends_with('!') {
            f.pop();
        }
        let mut m = vec![("k", json!(kind)), ("f", json!(f)), ("args", Value::Array(args))];
        if is_builtin {
            m.push(("builtin", json!(true)));
        }
        obj(m)
    }

    pub fn stmt(&mut self, s: &Statement) -> Value {
        match s {
            Statement::Declaration { name, value, value_type, .. } => {
                let mut m = vec![("k", json!("var")), ("x", json!(name.name))];
                if let Some(t) = value_type {
                    m.push(("ty", self.pty(t)));
                }
                if let Some(v) = value {
                    m.push(("e", self.expr(v)));
                }
                obj(m)
            }
            Statement::Assignment { reference, value, .. } => {
                obj(vec![("k", json!("set")), ("ref", self.reference(reference)), ("e", self.expr(value))])
            }
            Statement::MethodCall { name, builtin, arguments } => self.call("call", name, builtin, arguments),
            Statement::Loop { .. } => obj(vec![("k", json!("loop"))]),
            Statement::Goto { label, .. } => obj(vec![("k", json!("goto")), ("l", json!(label.name))]),
            Statement::Label { label, .. } => obj(vec![("k", json!("label")), ("l", json!(label.name))]),
            Statement::If { condition, then_branch, else_branch, .. } => {
                let op = match condition.op {
                    ComparisonOp::Equals => "==",
                    ComparisonOp::DoesNotEqual => "!=",
                    ComparisonOp::IsGreater => ">",
                    ComparisonOp::IsGE => ">=",
                    ComparisonOp::IsLess => "<",
                    ComparisonOp::IsLE => "<=",
                };
                let c = obj(vec![("op", json!(op)), ("l", self.expr(&condition.left)), ("r", self.expr(&condition.right))]);
                let mut m = vec![("k", json!("if")), ("c", c), ("t", self.stmt(then_branch))];
                if let Some(e) = else_branch {
                    m.push(("e", self.stmt(&e.branch)));
                }
                obj(m)
            }
            Statement::Block(b) => {
                let ss: Vec<Value> = b.statements.iter().map(|s| self.stmt(s)).collect();
                obj(vec![("k", json!("block")), ("b", Value::Array(ss))])
            }
            Statement::Poison(p) => self.poison(p),
        }
    }

    fn suffix(&mut self, t: &Option<Poisonable<ValueType>>, m: &mut Vec<(&'static str, Value)>) {
        if let Some(t) = t {
            let v = self.pty(t);
            match v.get("t") {
                Some(name) if v["k"] == "prim" => m.push(("suffix", name.clone())),
                _ => self.issues.push(format!("literal type {v}")),
            }
        }
    }

    pub fn expr(&mut self, e: &Expression) -> Value {
        match e {
            Expression::Binary { op, left, right, .. } => {
                let o = match op {
                    BinaryOp::Add => "+",
                    BinaryOp::Subtract => "-",
                    BinaryOp::Multiply => "*",
                    BinaryOp::Divide => "/",
                    BinaryOp::Modulo => "%",
                    BinaryOp::BitwiseAnd => "&",
                    BinaryOp::BitwiseOr => "|",
                    BinaryOp::BitwiseXor => "^",
                    BinaryOp::ShiftLeft => "<<",
                    BinaryOp::ShiftRight => ">>",
                    BinaryOp::AdvancePointer => "..",
                };
                obj(vec![("k", json!("bin")), ("op", json!(o)), ("l", self.expr(left)), ("r", self.expr(right))])
            }
            Expression::Unary { op, expression, .. } => {
                let o = match op {
                    UnaryOp::Negative => "-",
                    UnaryOp::BitwiseComplement => "!",
                };
                obj(vec![("k", json!("un")), ("op", json!(o)), ("e", self.expr(expression))])
            }
            Expression::BooleanLiteral { value, .. } => obj(vec![("k", json!("bool")), ("v", json!(value))]),
            Expression::SignedIntegerLiteral { value, value_type, .. } => {
                let mut m = vec![("k", json!("int")), ("v", json!(value.unsigned_abs().to_string()))];
                self.suffix(value_type, &mut m);
                let lit = obj(m);
                if *value < 0 {
                    // the parser folded `-` literal; the source says unary minus
                    obj(vec![("k", json!("un")), ("op", json!("-")), ("e", lit)])
                } else {
                    lit
                }
            }
            Expression::BitIntegerLiteral { value, value_type, .. } => {
                if let Some(Ok(ValueType::Char8)) = value_type {
                    return obj(vec![("k", json!("char")), ("v", json!(*value as u64))]);
                }
                let mut m = vec![("k", json!("int")), ("v", json!(value.to_string()))];
                self.suffix(value_type, &mut m);
                obj(m)
            }
            Expression::StringLiteral { bytes, .. } => obj(vec![("k", json!("str")), ("bytes", json!(bytes))]),
            Expression::ArrayLiteral { array, .. } => {
                let es: Vec<Value> = array.elements.iter().map(|x| self.expr(x)).collect();
                obj(vec![("k", json!("array")), ("es", Value::Array(es))])
            }
            Expression::Structural { members, structural_type, .. } => {
                let name = match structural_type {
                    Ok(ValueType::UnresolvedStructOrWord { identifier: Some(i) }) => json!(i.name),
                    Ok(ValueType::Struct { identifier }) | Ok(ValueType::Word { identifier, .. }) => json!(identifier.name),
                    Ok(other) => {
                        self.issues.push(format!("structural type {other:?}"));
                        json!("?")
                    }
                    Err(p) => self.poison(p),
                };
                let fs: Vec<Value> = members
                    .iter()
                    .map(|f| {
                        let n = self.name(&f.name);
                        let x = self.expr(&f.expression);
                        obj(vec![("name", n), ("e", x)])
                    })
                    .collect();
                obj(vec![("k", json!("structural")), ("name", name), ("fields", Value::Array(fs))])
            }
            Expression::Parenthesized { inner, .. } => obj(vec![("k", json!("paren")), ("e", self.expr(inner))]),
            Expression::Deref { reference, .. } => obj(vec![("k", json!("deref")), ("ref", self.reference(reference))]),
            Expression::Autocoerce { expression, .. } => {
                self.issues.push("autocoerce cannot come out of the parser".to_string());
                self.expr(expression)
            }
            Expression::BitCast { expression, .. } => obj(vec![("k", json!("cast")), ("e", self.expr(expression))]),
            Expression::TypeCast { expression, coerced_type, .. } => {
                obj(vec![("k", json!("as")), ("e", self.expr(expression)), ("ty", self.ty(coerced_type))])
            }
            Expression::LengthOfArray { reference, .. } => obj(vec![("k", json!("len")), ("ref", self.reference(reference))]),
            Expression::SizeOf { queried_type, .. } => obj(vec![("k", json!("sizeof")), ("ty", self.ty(queried_type))]),
            Expression::FunctionCall { name, builtin, arguments, .. } => self.call("fcall", name, builtin, arguments),
            Expression::Poison(p) => self.poison(p),
        }
    }
}

//! Nested abstract tree (the exchange format) -> preorder node sequence with arities, the form in
//! which spec/PenneGrammar.tla derives trees (`pre`) and in which Trace_Grammar.tla reads the tree the
//! real parser reported.
use serde_json::{Map, Value, json};

fn node(pairs: Vec<(&str, Value)>) -> Value {
    let mut m = Map::new();
    for (k, v) in pairs {
        m.insert(k.to_string(), v);
    }
    Value::Object(m)
}

fn s(v: &Value, key: &str) -> Value {
    v.get(key).cloned().unwrap_or(json!("?"))
}

fn arr<'a>(v: &'a Value, key: &str) -> &'a [Value] {
    v.get(key).and_then(|a| a.as_array()).map(|a| a.as_slice()).unwrap_or(&[])
}

pub fn module(m: &Value) -> Vec<Value> {
    let mut out = Vec::new();
    let decls = arr(m, "decls");
    out.push(node(vec![("k", json!("module")), ("nd", json!(decls.len()))]));
    for d in decls {
        decl(d, &mut out);
    }
    out
}

fn flags(d: &Value, n: &mut Vec<(&'static str, Value)>) {
    n.push(("pub", json!(d["pub"] == json!(true))));
    n.push(("extern", json!(d["extern"] == json!(true))));
}

fn typed_names(kind: &str, items: &[Value], out: &mut Vec<Value>) {
    for it in items {
        out.push(node(vec![("k", json!(kind)), ("name", s(it, "name"))]));
        ty(&it["ty"], out);
    }
}

fn decl(d: &Value, out: &mut Vec<Value>) {
    let k = d["k"].as_str().unwrap_or("?");
    match k {
        "fn" | "head" => {
            let mut n = vec![("k", json!(k)), ("name", s(d, "name"))];
            flags(d, &mut n);
            n.push(("np", json!(arr(d, "params").len())));
            n.push(("hasret", json!(d.get("ret").is_some())));
            if k == "fn" {
                n.push(("ns", json!(arr(d, "body").len())));
                n.push(("hasres", json!(d.get("result").is_some())));
            }
            out.push(node(n));
            typed_names("param", arr(d, "params"), out);
            if let Some(r) = d.get("ret") {
                ty(r, out);
            }
            if k == "fn" {
                for st in arr(d, "body") {
                    stmt(st, out);
                }
                if let Some(r) = d.get("result") {
                    expr(r, out);
                }
            }
        }
        "const" => {
            let mut n = vec![("k", json!("const")), ("name", s(d, "name"))];
            flags(d, &mut n);
            out.push(node(n));
            ty(&d["ty"], out);
            expr(&d["value"], out);
        }
        "struct" | "word" => {
            let mut n = vec![("k", json!(k)), ("name", s(d, "name"))];
            flags(d, &mut n);
            n.push(("nm", json!(arr(d, "members").len())));
            if k == "word" {
                n.push(("size", s(d, "size")));
            } else {
                n.push(("opaque", json!(d["opaque"] == json!(true))));
            }
            out.push(node(n));
            typed_names("member", arr(d, "members"), out);
        }
        "import" => {
            // the file name travels as bytes, like every string literal
            let bytes: Vec<u8> = d["file"].as_str().unwrap_or("").bytes().collect();
            out.push(node(vec![("k", json!("import")), ("file", json!(bytes))]))
        }
        other => out.push(node(vec![("k", json!(format!("?{other}")))])),
    }
}

fn ty(t: &Value, out: &mut Vec<Value>) {
    let k = t["k"].as_str().unwrap_or("?");
    match k {
        "prim" => out.push(node(vec![("k", json!("prim")), ("t", s(t, "t"))])),
        "named" => out.push(node(vec![("k", json!("named")), ("n", s(t, "n"))])),
        "array" => {
            out.push(node(vec![("k", json!("tarray")), ("n", s(t, "n"))]));
            ty(&t["t"], out);
        }
        "arrayc" => {
            out.push(node(vec![("k", json!("tarrayc")), ("c", s(t, "c"))]));
            ty(&t["t"], out);
        }
        "ptr" | "view" | "slice" | "endless" | "arraylike" => {
            out.push(node(vec![("k", json!(k))]));
            ty(&t["t"], out);
        }
        other => out.push(node(vec![("k", json!(format!("?{other}")))])),
    }
}

fn reference(kind: &str, r: &Value, out: &mut Vec<Value>) {
    let steps = arr(r, "steps");
    out.push(node(vec![("k", json!(kind)), ("addr", s(r, "addr")), ("base", s(r, "base")), ("nsteps", json!(steps.len()))]));
    for st in steps {
        match st["k"].as_str() {
            Some("idx") => {
                out.push(node(vec![("k", json!("idx"))]));
                expr(&st["e"], out);
            }
            Some("mem") => out.push(node(vec![("k", json!("mem")), ("m", s(st, "m"))])),
            _ => out.push(node(vec![("k", json!("?step"))])),
        }
    }
}

fn call(kind: &str, c: &Value, out: &mut Vec<Value>) {
    let args = arr(c, "args");
    out.push(node(vec![("k", json!(kind)), ("f", s(c, "f")), ("na", json!(args.len())), ("builtin", json!(c["builtin"] == json!(true)))]));
    for a in args {
        expr(a, out);
    }
}

fn stmt(st: &Value, out: &mut Vec<Value>) {
    let k = st["k"].as_str().unwrap_or("?");
    match k {
        "var" => {
            out.push(node(vec![("k", json!("var")), ("x", s(st, "x")), ("hasty", json!(st.get("ty").is_some())), ("hase", json!(st.get("e").is_some()))]));
            if let Some(t) = st.get("ty") {
                ty(t, out);
            }
            if let Some(e) = st.get("e") {
                expr(e, out);
            }
        }
        "set" => {
            reference("set", &st["ref"], out);
            expr(&st["e"], out);
        }
        "call" => call("call", st, out),
        "loop" => out.push(node(vec![("k", json!("loop"))])),
        "goto" => out.push(node(vec![("k", json!("goto")), ("l", s(st, "l"))])),
        "label" => out.push(node(vec![("k", json!("label")), ("l", s(st, "l"))])),
        "if" => {
            out.push(node(vec![("k", json!("if")), ("op", s(&st["c"], "op")), ("haselse", json!(st.get("e").is_some()))]));
            expr(&st["c"]["l"], out);
            expr(&st["c"]["r"], out);
            stmt(&st["t"], out);
            if let Some(e) = st.get("e") {
                stmt(e, out);
            }
        }
        "block" => {
            let b = arr(st, "b");
            out.push(node(vec![("k", json!("block")), ("ns", json!(b.len()))]));
            for x in b {
                stmt(x, out);
            }
        }
        other => out.push(node(vec![("k", json!(format!("?{other}")))])),
    }
}

fn expr(e: &Value, out: &mut Vec<Value>) {
    let k = e["k"].as_str().unwrap_or("?");
    match k {
        "bin" => {
            out.push(node(vec![("k", json!("bin")), ("op", s(e, "op"))]));
            expr(&e["l"], out);
            expr(&e["r"], out);
        }
        "un" => {
            out.push(node(vec![("k", json!("un")), ("op", s(e, "op"))]));
            expr(&e["e"], out);
        }
        "bool" => out.push(node(vec![("k", json!("bool")), ("v", s(e, "v"))])),
        "int" => out.push(node(vec![("k", json!("int")), ("v", s(e, "v")), ("suffix", e.get("suffix").cloned().unwrap_or(json!("")))])),
        "char" => out.push(node(vec![("k", json!("char")), ("v", s(e, "v"))])),
        "str" => out.push(node(vec![("k", json!("str")), ("bytes", s(e, "bytes"))])),
        "array" => {
            let es = arr(e, "es");
            out.push(node(vec![("k", json!("array")), ("n", json!(es.len()))]));
            for x in es {
                expr(x, out);
            }
        }
        "structural" => {
            let fs = arr(e, "fields");
            out.push(node(vec![("k", json!("structural")), ("name", s(e, "name")), ("nf", json!(fs.len()))]));
            for f in fs {
                out.push(node(vec![("k", json!("field")), ("name", s(f, "name"))]));
                expr(&f["e"], out);
            }
        }
        "paren" => {
            out.push(node(vec![("k", json!("paren"))]));
            expr(&e["e"], out);
        }
        "deref" => reference("deref", &e["ref"], out),
        "len" => reference("len", &e["ref"], out),
        "cast" => {
            out.push(node(vec![("k", json!("cast"))]));
            expr(&e["e"], out);
        }
        "as" => {
            out.push(node(vec![("k", json!("as"))]));
            expr(&e["e"], out);
            ty(&e["ty"], out);
        }
        "sizeof" => {
            out.push(node(vec![("k", json!("sizeof"))]));
            ty(&e["ty"], out);
        }
        "fcall" => call("fcall", e, out),
        other => out.push(node(vec![("k", json!(format!("?{other}")))])),
    }
}

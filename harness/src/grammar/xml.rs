//! A tiny reader for the XML dump of the second-generation parse tree (`ParseTree::as_xml`), and the
//! projection of that dump onto the abstract syntax of spec/PenneAst.tla (DESIGN.md 4.1).
//!
//! The reader is deliberately tolerant: a well-formedness problem (closing tag that does not match,
//! element that is self-closed and then closed again, MALFORMED node, left-over open element) is
//! *recorded* in `issues` and repaired locally, so that the rest of the tree can still be compared.
use super::pstr;
use serde_json::{Map, Value, json};

#[derive(Debug, Clone)]
pub struct Elem {
    pub name: String,
    pub attrs: Vec<(String, String)>,
    pub children: Vec<Node>,
    pub self_closed: bool,
    adopted: bool,
}

#[derive(Debug, Clone)]
pub enum Node {
    Elem(Elem),
    Text(String),
}

impl Elem {
    fn new(name: &str) -> Elem {
        Elem { name: name.to_string(), attrs: Vec::new(), children: Vec::new(), self_closed: false, adopted: false }
    }
    pub fn attr(&self, key: &str) -> Option<&str> {
        self.attrs.iter().find(|(k, _)| k == key).map(|(_, v)| v.as_str())
    }
    pub fn elems(&self) -> Vec<&Elem> {
        self.children.iter().filter_map(|c| if let Node::Elem(e) = c { Some(e) } else { None }).collect()
    }
    pub fn text(&self) -> Option<&str> {
        self.children.iter().find_map(|c| if let Node::Text(t) = c { Some(t.as_str()) } else { None })
    }
}

/// Reads a double-quoted value in Rust `{:?}` notation starting at `s[i] == '"'`; returns the
/// decoded string and the index after the closing quote.
fn read_quoted(s: &[char], mut i: usize) -> Result<(String, usize), String> {
    if s.get(i) != Some(&'"') {
        return Err("expected opening quote".into());
    }
    i += 1;
    let mut out = String::new();
    loop {
        match s.get(i) {
            None => return Err("unterminated attribute value".into()),
            Some('"') => return Ok((out, i + 1)),
            Some('\\') => {
                i += 1;
                match s.get(i) {
                    Some('n') => out.push('\n'),
                    Some('r') => out.push('\r'),
                    Some('t') => out.push('\t'),
                    Some('0') => out.push('\0'),
                    Some('\\') => out.push('\\'),
                    Some('\'') => out.push('\''),
                    Some('"') => out.push('"'),
                    Some('u') => {
                        // \u{...}
                        i += 1;
                        if s.get(i) != Some(&'{') {
                            return Err("bad \\u escape in attribute".into());
                        }
                        let mut h = String::new();
                        i += 1;
                        while let Some(c) = s.get(i) {
                            if *c == '}' {
                                break;
                            }
                            h.push(*c);
                            i += 1;
                        }
                        match u32::from_str_radix(&h, 16).ok().and_then(char::from_u32) {
                            Some(c) => out.push(c),
                            None => return Err("bad \\u escape in attribute".into()),
                        }
                    }
                    _ => return Err("unknown escape in attribute".into()),
                }
                i += 1;
            }
            Some(c) => {
                out.push(*c);
                i += 1;
            }
        }
    }
}

enum Line {
    Open(Elem),
    SelfClosed(Elem),
    Close(String),
    Text(String),
}

fn parse_line(line: &str) -> Result<Line, String> {
    let s: Vec<char> = line.chars().collect();
    if s.first() != Some(&'<') {
        if s.first() == Some(&'"') {
            let (t, end) = read_quoted(&s, 0)?;
            if end != s.len() {
                return Err(format!("trailing characters after text: {line}"));
            }
            return Ok(Line::Text(t));
        }
        return Err(format!("neither tag nor quoted text: {line}"));
    }
    if s.get(1) == Some(&'/') {
        let name: String = s[2..].iter().take_while(|c| **c != '>').collect();
        if 2 + name.chars().count() + 1 != s.len() {
            return Err(format!("bad closing tag: {line}"));
        }
        return Ok(Line::Close(name));
    }
    let mut i = 1;
    let mut name = String::new();
    while let Some(c) = s.get(i) {
        if c.is_ascii_alphanumeric() || *c == '_' {
            name.push(*c);
            i += 1;
        } else {
            break;
        }
    }
    if name.is_empty() {
        return Err(format!("tag without a name: {line}"));
    }
    let mut e = Elem::new(&name);
    loop {
        while s.get(i) == Some(&' ') {
            i += 1;
        }
        match s.get(i) {
            Some('>') if i + 1 == s.len() => return Ok(Line::Open(e)),
            Some('/') if s.get(i + 1) == Some(&'>') && i + 2 == s.len() => {
                e.self_closed = true;
                return Ok(Line::SelfClosed(e));
            }
            Some(c) if c.is_ascii_alphabetic() => {
                let mut key = String::new();
                while let Some(c) = s.get(i) {
                    if c.is_ascii_alphanumeric() || *c == '_' || *c == '-' {
                        key.push(*c);
                        i += 1;
                    } else {
                        break;
                    }
                }
                if s.get(i) != Some(&'=') {
                    return Err(format!("attribute without value: {line}"));
                }
                let (v, end) = read_quoted(&s, i + 1)?;
                e.attrs.push((key, v));
                i = end;
            }
            _ => return Err(format!("cannot read tag: {line}")),
        }
    }
}

pub struct Doc {
    pub root: Elem,
    pub issues: Vec<String>,
}

pub fn read(lines: &[String]) -> Doc {
    let mut issues: Vec<String> = Vec::new();
    let mut stack: Vec<Elem> = vec![Elem::new("ROOT")];
    for line in lines {
        let parsed = match parse_line(line) {
            Ok(p) => p,
            Err(e) => {
                issues.push(format!("unreadable:{e}"));
                continue;
            }
        };
        match parsed {
            Line::Open(e) => stack.push(e),
            Line::SelfClosed(e) => {
                if e.name == "MALFORMED" {
                    let node = e.attr("node").unwrap_or("?");
                    let kind: String = node.chars().take_while(|c| c.is_ascii_alphanumeric()).collect();
                    issues.push(format!("MALFORMED:{kind}"));
                }
                stack.last_mut().unwrap().children.push(Node::Elem(e));
            }
            Line::Text(t) => stack.last_mut().unwrap().children.push(Node::Text(t)),
            Line::Close(name) => {
                let depth = stack.len();
                let top = stack.last_mut().unwrap();
                if top.name == name && depth > 1 {
                    let e = stack.pop().unwrap();
                    stack.last_mut().unwrap().children.push(Node::Elem(e));
                    continue;
                }
                // (1) `<X ... />` children `</X>`: the self-closed element adopts what follows it
                let pos = top.children.iter().rposition(
                    |c| matches!(c, Node::Elem(e) if e.self_closed && !e.adopted && e.name == name),
                );
                if let Some(pos) = pos {
                    let following = top.children.split_off(pos + 1);
                    if let Node::Elem(e) = &mut top.children[pos] {
                        e.children = following;
                        e.adopted = true;
                    }
                    issues.push(format!("unbalanced:{name} is self-closed and then closed"));
                    continue;
                }
                // (2) wrong name: close the innermost element anyway
                if depth > 1 {
                    issues.push(format!("mismatch:<{}> closed by </{}>", top.name, name));
                    let e = stack.pop().unwrap();
                    stack.last_mut().unwrap().children.push(Node::Elem(e));
                } else {
                    issues.push(format!("stray:</{name}>"));
                }
            }
        }
    }
    while stack.len() > 1 {
        let e = stack.pop().unwrap();
        issues.push(format!("unclosed:<{}>", e.name));
        stack.last_mut().unwrap().children.push(Node::Elem(e));
    }
    issues.sort();
    issues.dedup();
    Doc { root: stack.pop().unwrap(), issues }
}

// ---------------------------------------------------------------------------------------------
// projection onto the abstract syntax
// ---------------------------------------------------------------------------------------------
pub struct DeltaProj {
    pub issues: Vec<String>,
}

fn obj(pairs: Vec<(&str, Value)>) -> Value {
    let mut m = Map::new();
    for (k, v) in pairs {
        m.insert(k.to_string(), v);
    }
    Value::Object(m)
}

const TYPE_ELEMS: [&str; 10] = [
    "SimpleValueType",
    "CompositeValueType",
    "ArrayVT",
    "ArrayWithNamedLengthVT",
    "SliceVT",
    "EndlessArrayVT",
    "ArraylikeVT",
    "PointerVT",
    "ViewVT",
    "UnresolvedStructOrWordVT",
];

fn is_type(e: &Elem) -> bool {
    TYPE_ELEMS.contains(&e.name.as_str())
}

pub fn prim_name(debug: &str) -> Option<&'static str> {
    Some(match debug {
        "Void" => "void",
        "Int8" => "i8",
        "Int16" => "i16",
        "Int32" => "i32",
        "Int64" => "i64",
        "Int128" => "i128",
        "Uint8" => "u8",
        "Uint16" => "u16",
        "Uint32" => "u32",
        "Uint64" => "u64",
        "Uint128" => "u128",
        "Usize" => "usize",
        "Char8" => "char8",
        "Bool" => "bool",
        _ => return None,
    })
}

pub fn binop_symbol(debug: &str) -> Option<&'static str> {
    Some(match debug {
        "Add" => "+",
        "Subtract" => "-",
        "Multiply" => "*",
        "Divide" => "/",
        "Modulo" => "%",
        "BitwiseAnd" => "&",
        "BitwiseOr" => "|",
        "BitwiseXor" => "^",
        "ShiftLeft" => "<<",
        "ShiftRight" => ">>",
        "AdvancePointer" => "..",
        _ => return None,
    })
}

pub fn cmpop_symbol(debug: &str) -> Option<&'static str> {
    Some(match debug {
        "Equals" => "==",
        "DoesNotEqual" => "!=",
        "IsGreater" => ">",
        "IsGE" => ">=",
        "IsLess" => "<",
        "IsLE" => "<=",
        _ => return None,
    })
}

impl DeltaProj {
    pub fn new() -> DeltaProj {
        DeltaProj { issues: Vec::new() }
    }

    fn bad(&mut self, what: &str, e: &Elem) -> Value {
        self.issues.push(format!("shape:{what}:{}", e.name));
        obj(vec![("k", json!("?")), ("elem", json!(e.name))])
    }

    fn list<'a>(&mut self, e: &'a Elem, meta: &str) -> Vec<&'a Elem> {
        if e.name != "List" || e.attr("meta") != Some(meta) {
            self.issues.push(format!("shape:expected List meta={meta}:{}", e.name));
            return Vec::new();
        }
        e.elems()
    }

    pub fn module(&mut self, root: &Elem) -> Value {
        let decls: Vec<Value> = root.elems().iter().map(|d| self.decl(d)).collect();
        obj(vec![("decls", Value::Array(decls))])
    }

    fn flags(&mut self, e: &Elem, m: &mut Vec<(&'static str, Value)>) -> bool {
        let f = e.attr("flags").unwrap_or("");
        let mut public = false;
        let mut external = false;
        let mut opaque = false;
        for part in f.split('|').filter(|p| !p.is_empty()) {
            match part {
                "Public" => public = true,
                "External" => external = true,
                "OpaqueStruct" => opaque = true,
                other => self.issues.push(format!("shape:flag {other}")),
            }
        }
        m.push(("pub", json!(public)));
        m.push(("extern", json!(external)));
        opaque
    }

    fn typed_names(&mut self, items: Vec<&Elem>) -> Value {
        let mut out = Vec::new();
        for it in items {
            if it.name != "IdentifierAndType" {
                out.push(self.bad("parameter/member", it));
                continue;
            }
            let kids = it.elems();
            let ty = if kids.len() == 1 && is_type(kids[0]) { self.ty(kids[0]) } else { self.bad("type of parameter/member", it) };
            out.push(obj(vec![("name", json!(it.attr("src").unwrap_or("?"))), ("ty", ty)]));
        }
        Value::Array(out)
    }

    fn decl(&mut self, e: &Elem) -> Value {
        let kids = e.elems();
        match e.name.as_str() {
            "ConstantDeclaration" => {
                let mut m = vec![("k", json!("const")), ("name", json!(e.attr("identifier").unwrap_or("?")))];
                self.flags(e, &mut m);
                let tys: Vec<&&Elem> = kids.iter().filter(|k| is_type(k)).collect();
                let exs: Vec<&&Elem> = kids.iter().filter(|k| !is_type(k)).collect();
                if tys.len() != 1 || exs.len() != 1 {
                    return self.bad("constant", e);
                }
                m.push(("ty", self.ty(tys[0])));
                m.push(("value", self.expr(exs[0])));
                obj(m)
            }
            "FunctionDeclaration" => {
                let mut m = vec![("name", json!(e.attr("identifier").unwrap_or("?")))];
                self.flags(e, &mut m);
                if kids.len() < 2 || kids.len() > 3 || !is_type(kids[1]) {
                    return self.bad("function", e);
                }
                let params = self.list(kids[0], "parameters");
                m.push(("params", self.typed_names(params)));
                let ret = self.ty(kids[1]);
                if ret != json!({"k": "prim", "t": "void"}) {
                    m.push(("ret", ret));
                }
                if kids.len() == 3 {
                    let b = kids[2];
                    if b.name != "FunctionBody" {
                        return self.bad("function body", b);
                    }
                    let bk = b.elems();
                    if bk.is_empty() || bk.len() > 2 {
                        return self.bad("function body", b);
                    }
                    let stmts: Vec<Value> = self.list(bk[0], "statements").iter().map(|s| self.stmt(s)).collect();
                    m.push(("body", Value::Array(stmts)));
                    if bk.len() == 2 {
                        m.push(("result", self.expr(bk[1])));
                    }
                    m.push(("k", json!("fn")));
                } else {
                    m.push(("k", json!("head")));
                }
                obj(m)
            }
            "StructureDeclaration" => {
                let mut m = vec![("name", json!(e.attr("identifier").unwrap_or("?")))];
                let opaque = self.flags(e, &mut m);
                match e.attr("size-in-bytes").and_then(|s| s.parse::<i64>().ok()) {
                    Some(-1) => m.push(("k", json!("struct"))),
                    Some(n) if n > 0 => {
                        m.push(("k", json!("word")));
                        m.push(("size", json!(n)));
                    }
                    _ => return self.bad("structure size", e),
                }
                if kids.len() != 1 {
                    return self.bad("structure", e);
                }
                let members = self.list(kids[0], "members");
                m.push(("members", self.typed_names(members)));
                if opaque {
                    m.push(("opaque", json!(true)));
                }
                obj(m)
            }
            "ImportDeclaration" => {
                if kids.len() != 1 || kids[0].name != "SimpleStringLiteral" {
                    return self.bad("import", e);
                }
                if e.attr("flags") != Some("") {
                    self.issues.push("shape:import with flags".to_string());
                }
                let file = match pstr::decode(kids[0].attr("src").unwrap_or("")) {
                    Ok(b) => String::from_utf8_lossy(&b).to_string(),
                    Err(err) => {
                        self.issues.push(format!("string:{err}"));
                        String::new()
                    }
                };
                obj(vec![("k", json!("import")), ("file", json!(file))])
            }
            _ => self.bad("declaration", e),
        }
    }

    fn one<'a>(&mut self, e: &'a Elem) -> Option<&'a Elem> {
        let k = e.elems();
        if k.len() == 1 { Some(k[0]) } else { None }
    }

    pub fn ty(&mut self, e: &Elem) -> Value {
        let inner = |s: &mut Self, e: &Elem, k: &str| -> Value {
            match s.one(e) {
                Some(c) if is_type(c) => {
                    let t = s.ty(c);
                    obj(vec![("k", json!(k)), ("t", t)])
                }
                _ => s.bad("element type", e),
            }
        };
        match e.name.as_str() {
            "SimpleValueType" => match e.attr("type").and_then(prim_name) {
                Some(t) => obj(vec![("k", json!("prim")), ("t", json!(t))]),
                None => self.bad("primitive type", e),
            },
            "UnresolvedStructOrWordVT" => obj(vec![("k", json!("named")), ("n", json!(e.attr("src").unwrap_or("?")))]),
            "CompositeValueType" => match self.one(e) {
                Some(c) if is_type(c) => self.ty(c),
                _ => self.bad("composite type", e),
            },
            "PointerVT" => inner(self, e, "ptr"),
            "ViewVT" => inner(self, e, "view"),
            "SliceVT" => inner(self, e, "slice"),
            "EndlessArrayVT" => inner(self, e, "endless"),
            "ArraylikeVT" => inner(self, e, "arraylike"),
            "ArrayVT" => {
                let mut v = inner(self, e, "array");
                v["n"] = json!(e.attr("length").unwrap_or("?"));
                v
            }
            "ArrayWithNamedLengthVT" => {
                let mut v = inner(self, e, "arrayc");
                v["c"] = json!(e.attr("identifier").unwrap_or("?"));
                v
            }
            _ => self.bad("type", e),
        }
    }

    fn reference(&mut self, e: &Elem) -> Value {
        if e.name != "Deref" {
            return self.bad("reference", e);
        }
        let kids = e.elems();
        if kids.len() != 1 {
            return self.bad("reference", e);
        }
        let mut steps = Vec::new();
        for s in self.list(kids[0], "steps") {
            match s.name.as_str() {
                "DerefStepMember" => steps.push(obj(vec![("k", json!("mem")), ("m", json!(s.attr("identifier").unwrap_or("?")))])),
                "DerefStepElement" => match self.one(s) {
                    Some(c) => {
                        let x = self.expr(c);
                        steps.push(obj(vec![("k", json!("idx")), ("e", x)]))
                    }
                    None => steps.push(self.bad("index step", s)),
                },
                _ => steps.push(self.bad("reference step", s)),
            }
        }
        let addr = e.attr("address_depth").and_then(|d| d.parse::<u64>().ok());
        if addr.is_none() {
            self.issues.push("shape:address depth".to_string());
        }
        obj(vec![("addr", json!(addr.unwrap_or(0))), ("base", json!(e.attr("identifier").unwrap_or("?"))), ("steps", Value::Array(steps))])
    }

    fn args(&mut self, e: &Elem, meta: &str) -> Value {
        let kids = e.elems();
        if kids.len() != 1 {
            self.issues.push(format!("shape:arguments:{}", e.name));
            return json!([]);
        }
        let items: Vec<Value> = self.list(kids[0], meta).iter().map(|a| self.expr(a)).collect();
        Value::Array(items)
    }

    fn call(&mut self, e: &Elem, kind: &str) -> Value {
        let mut name = e.attr("identifier").unwrap_or("?").to_string();
        let builtin = e.attr("is_builtin") == Some("true");
        if builtin && name.ends_with('!') {
            name.pop();
        }
        let mut m = vec![("k", json!(kind)), ("f", json!(name)), ("args", self.args(e, "arguments"))];
        if builtin {
            m.push(("builtin", json!(true)));
        }
        obj(m)
    }

    pub fn stmt(&mut self, e: &Elem) -> Value {
        let kids = e.elems();
        match e.name.as_str() {
            "VariableDeclaration" => {
                let mut m = vec![("k", json!("var")), ("x", json!(e.attr("src").unwrap_or("?")))];
                let tys: Vec<&&Elem> = kids.iter().filter(|k| is_type(k)).collect();
                let exs: Vec<&&Elem> = kids.iter().filter(|k| !is_type(k)).collect();
                if tys.len() > 1 || exs.len() > 1 {
                    return self.bad("variable declaration", e);
                }
                if let Some(t) = tys.first() {
                    m.push(("ty", self.ty(t)));
                }
                if let Some(x) = exs.first() {
                    m.push(("e", self.expr(x)));
                }
                obj(m)
            }
            "Assignment" => {
                if kids.len() != 2 {
                    return self.bad("assignment", e);
                }
                let r = self.reference(kids[0]);
                let x = self.expr(kids[1]);
                obj(vec![("k", json!("set")), ("ref", r), ("e", x)])
            }
            "Loop" => obj(vec![("k", json!("loop"))]),
            "Goto" => obj(vec![("k", json!("goto")), ("l", json!(e.attr("label").unwrap_or("?")))]),
            "Label" => obj(vec![("k", json!("label")), ("l", json!(e.attr("src").unwrap_or("?")))]),
            "Block" => {
                if kids.len() != 1 {
                    return self.bad("block", e);
                }
                let b: Vec<Value> = self.list(kids[0], "statements").iter().map(|s| self.stmt(s)).collect();
                obj(vec![("k", json!("block")), ("b", Value::Array(b))])
            }
            "MethodCall" => self.call(e, "call"),
            "If" => {
                if kids.len() < 2 || kids.len() > 3 || kids[0].name != "Comparison" || kids[1].name != "Then" {
                    return self.bad("if", e);
                }
                let c = kids[0];
                let ck = c.elems();
                let op = c.attr("op").and_then(cmpop_symbol);
                if ck.len() != 2 || op.is_none() {
                    return self.bad("comparison", c);
                }
                let l = self.expr(ck[0]);
                let r = self.expr(ck[1]);
                let cmp = obj(vec![("op", json!(op.unwrap())), ("l", l), ("r", r)]);
                let t = match self.one(kids[1]) {
                    Some(t) => self.stmt(t),
                    None => self.bad("then branch", kids[1]),
                };
                let mut m = vec![("k", json!("if")), ("c", cmp), ("t", t)];
                if kids.len() == 3 {
                    if kids[2].name != "Else" {
                        return self.bad("else", kids[2]);
                    }
                    let x = match self.one(kids[2]) {
                        Some(x) => self.stmt(x),
                        None => self.bad("else branch", kids[2]),
                    };
                    m.push(("e", x));
                }
                obj(m)
            }
            _ => self.bad("statement", e),
        }
    }

    pub fn expr(&mut self, e: &Elem) -> Value {
        let kids = e.elems();
        match e.name.as_str() {
            "Binary" => {
                let op = e.attr("op").and_then(binop_symbol);
                if kids.len() != 2 || op.is_none() {
                    return self.bad("binary", e);
                }
                let l = self.expr(kids[0]);
                let r = self.expr(kids[1]);
                obj(vec![("k", json!("bin")), ("op", json!(op.unwrap())), ("l", l), ("r", r)])
            }
            "Unary" => {
                let op = match e.attr("op") {
                    Some("Negative") => "-",
                    Some("BitwiseComplement") => "!",
                    _ => return self.bad("unary", e),
                };
                match self.one(e) {
                    Some(c) => {
                        let x = self.expr(c);
                        obj(vec![("k", json!("un")), ("op", json!(op)), ("e", x)])
                    }
                    None => self.bad("unary", e),
                }
            }
            "BooleanLiteral" => match e.attr("value") {
                Some("1") => obj(vec![("k", json!("bool")), ("v", json!(true))]),
                Some("0") => obj(vec![("k", json!("bool")), ("v", json!(false))]),
                _ => self.bad("boolean", e),
            },
            "CharLiteral" => match e.attr("value").and_then(|v| v.parse::<u64>().ok()) {
                Some(v) => obj(vec![("k", json!("char")), ("v", json!(v))]),
                None => self.bad("char", e),
            },
            "UntypedIntegerLiteral" | "TypedIntegerLiteral" => {
                let v = e.attr("value").unwrap_or("?");
                if v.parse::<u128>().is_err() {
                    return self.bad("integer", e);
                }
                let mut m = vec![("k", json!("int")), ("v", json!(v))];
                if let Some(t) = e.attr("type") {
                    match prim_name(t) {
                        Some(t) => m.push(("suffix", json!(t))),
                        None => return self.bad("integer suffix", e),
                    }
                }
                obj(m)
            }
            "SimpleStringLiteral" => match pstr::decode(e.attr("src").unwrap_or("")) {
                Ok(b) => obj(vec![("k", json!("str")), ("bytes", json!(b))]),
                Err(err) => {
                    self.issues.push(format!("string:{err}"));
                    obj(vec![("k", json!("str")), ("undecodable", json!(e.attr("src").unwrap_or("")))])
                }
            },
            "CompositeStringLiteral" => match pstr::decode_composite(e.text().unwrap_or("")) {
                Ok(b) => obj(vec![("k", json!("str")), ("bytes", json!(b))]),
                Err(err) => {
                    self.issues.push(format!("string:{err}"));
                    obj(vec![("k", json!("str")), ("undecodable", json!(e.text().unwrap_or("")))])
                }
            },
            "ArrayLiteral" => obj(vec![("k", json!("array")), ("es", self.args(e, "elements"))]),
            "Structural" => {
                if kids.len() != 1 {
                    return self.bad("structural", e);
                }
                let mut fields = Vec::new();
                for f in self.list(kids[0], "initializers") {
                    if f.name != "IdentifierAndExpression" {
                        fields.push(self.bad("initializer", f));
                        continue;
                    }
                    match self.one(f) {
                        Some(c) => {
                            let x = self.expr(c);
                            fields.push(obj(vec![("name", json!(f.attr("src").unwrap_or("?"))), ("e", x)]))
                        }
                        None => fields.push(self.bad("initializer", f)),
                    }
                }
                obj(vec![("k", json!("structural")), ("name", json!(e.attr("identifier").unwrap_or("?"))), ("fields", Value::Array(fields))])
            }
            "Parenthesized" => match self.one(e) {
                Some(c) => {
                    let x = self.expr(c);
                    obj(vec![("k", json!("paren")), ("e", x)])
                }
                None => self.bad("parenthesized", e),
            },
            "Deref" => {
                let r = self.reference(e);
                obj(vec![("k", json!("deref")), ("ref", r)])
            }
            // `TypeCast` is printed with the opening tag of `BitCast`: one child = cast, two = as
            "BitCast" | "TypeCast" => {
                if kids.len() == 1 && !is_type(kids[0]) && e.name == "BitCast" {
                    let x = self.expr(kids[0]);
                    obj(vec![("k", json!("cast")), ("e", x)])
                } else if kids.len() == 2 && !is_type(kids[0]) && is_type(kids[1]) {
                    let x = self.expr(kids[0]);
                    let t = self.ty(kids[1]);
                    obj(vec![("k", json!("as")), ("e", x), ("ty", t)])
                } else {
                    self.bad("cast", e)
                }
            }
            "LengthOf" => match self.one(e) {
                Some(c) => {
                    let r = self.reference(c);
                    obj(vec![("k", json!("len")), ("ref", r)])
                }
                None => self.bad("length", e),
            },
            "SizeOf" => match self.one(e) {
                Some(c) if is_type(c) => {
                    let t = self.ty(c);
                    obj(vec![("k", json!("sizeof")), ("ty", t)])
                }
                _ => self.bad("sizeof", e),
            },
            "FunctionCall" => self.call(e, "fcall"),
            _ => self.bad("expression", e),
        }
    }
}

//! Decoding of Penne string / character literal *source text* (the part between the quotes) into
//! bytes, following the escape sequences shown in docs/syntax.md and docs/errors.md
//! (`\n \r \t \\ \' \" \0 \xHH \u{H..}`); everything else stands for its own UTF-8 bytes.
//! Used to read the value of a string literal out of the second generation's XML dump, which only
//! shows the spelling.

pub fn decode(src: &str) -> Result<Vec<u8>, String> {
    let mut out = Vec::new();
    let mut it = src.chars().peekable();
    while let Some(c) = it.next() {
        if c != '\\' {
            let mut buf = [0u8; 4];
            out.extend_from_slice(c.encode_utf8(&mut buf).as_bytes());
            continue;
        }
        match it.next() {
            Some('n') => out.push(b'\n'),
            Some('r') => out.push(b'\r'),
            Some('t') => out.push(b'\t'),
            Some('\\') => out.push(b'\\'),
            Some('\'') => out.push(b'\''),
            Some('"') => out.push(b'"'),
            Some('0') => out.push(0),
            Some('x') => {
                let h: String = [it.next(), it.next()].iter().flatten().collect();
                match u8::from_str_radix(&h, 16) {
                    Ok(b) if h.len() == 2 => out.push(b),
                    _ => return Err(format!("bad \\x escape in {src:?}")),
                }
            }
            Some('u') => {
                if it.next() != Some('{') {
                    return Err(format!("bad \\u escape in {src:?}"));
                }
                let mut h = String::new();
                loop {
                    match it.next() {
                        Some('}') => break,
                        Some(d) if d.is_ascii_hexdigit() => h.push(d),
                        _ => return Err(format!("bad \\u escape in {src:?}")),
                    }
                }
                match u32::from_str_radix(&h, 16).ok().and_then(char::from_u32) {
                    Some(ch) => {
                        let mut buf = [0u8; 4];
                        out.extend_from_slice(ch.encode_utf8(&mut buf).as_bytes());
                    }
                    None => return Err(format!("bad \\u escape in {src:?}")),
                }
            }
            Some(o) => return Err(format!("unknown escape \\{o} in {src:?}")),
            None => return Err(format!("dangling backslash in {src:?}")),
        }
    }
    Ok(out)
}

/// The text of a composite string literal as the XML dump shows it: the source from the first to the
/// last piece, i.e. quoted pieces separated by white space and comments.
pub fn decode_composite(span: &str) -> Result<Vec<u8>, String> {
    let mut out = Vec::new();
    let b: Vec<char> = span.chars().collect();
    let mut i = 0;
    let mut pieces = 0;
    while i < b.len() {
        match b[i] {
            ' ' | '\t' | '\n' | '\r' => i += 1,
            '/' if i + 1 < b.len() && b[i + 1] == '/' => {
                while i < b.len() && b[i] != '\n' {
                    i += 1;
                }
            }
            '"' => {
                let mut j = i + 1;
                let mut piece = String::new();
                loop {
                    if j >= b.len() {
                        return Err(format!("unterminated piece in {span:?}"));
                    }
                    if b[j] == '\\' && j + 1 < b.len() {
                        piece.push(b[j]);
                        piece.push(b[j + 1]);
                        j += 2;
                    } else if b[j] == '"' {
                        break;
                    } else {
                        piece.push(b[j]);
                        j += 1;
                    }
                }
                out.extend(decode(&piece)?);
                pieces += 1;
                i = j + 1;
            }
            other => return Err(format!("unexpected {other:?} between string pieces in {span:?}")),
        }
    }
    if pieces == 0 {
        return Err(format!("no string piece in {span:?}"));
    }
    Ok(out)
}

//! A case line `{"id":..,"focus":..,"toks":[..],"tree":{..},"n":..,"cell":{..}}` may carry a tree that nests
//! deeper than serde_json's recursion limit (128; the deep cells of spec/MC_PenneGrammarCells.tla nest 270 .. 1100
//! levels).  The harness never needs the tree (the comparison is made in Python), so the value of the top-level
//! key "tree" is cut out of the text before the line is parsed.

/// index after the JSON value that starts at `i` (strings and nesting are honoured; the text is assumed well formed)
fn skip_value(b: &[u8], mut i: usize) -> usize {
    let mut depth = 0usize;
    while i < b.len() {
        match b[i] {
            b'"' => {
                i += 1;
                while i < b.len() && b[i] != b'"' {
                    if b[i] == b'\\' {
                        i += 1;
                    }
                    i += 1;
                }
                i += 1;
                if depth == 0 {
                    return i;
                }
            }
            b'{' | b'[' => {
                depth += 1;
                i += 1;
            }
            b'}' | b']' => {
                depth -= 1;
                i += 1;
                if depth == 0 {
                    return i;
                }
            }
            b',' if depth == 0 => return i,
            _ => {
                i += 1;
                if depth == 0 && i < b.len() && (b[i] == b',' || b[i] == b'}') {
                    return i;
                }
            }
        }
    }
    i
}

/// The line without the member `key` of its top-level object (unchanged if the member is absent).
pub fn without_key(line: &str, key: &str) -> String {
    let b = line.as_bytes();
    let mut i = 0;
    while i < b.len() && b[i] != b'{' {
        i += 1;
    }
    i += 1;
    loop {
        while i < b.len() && (b[i] == b' ' || b[i] == b',') {
            i += 1;
        }
        if i >= b.len() || b[i] != b'"' {
            return line.to_string();
        }
        let key_start = i;
        let key_end = skip_value(b, i);
        let name = &line[key_start + 1..key_end - 1];
        let mut j = key_end;
        while j < b.len() && (b[j] == b' ' || b[j] == b':') {
            j += 1;
        }
        let value_end = skip_value(b, j);
        if name == key {
            // cut `"key":value` and one adjacent comma
            let mut from = key_start;
            let mut to = value_end;
            if to < b.len() && b[to] == b',' {
                to += 1;
            } else {
                while from > 0 && b[from - 1] == b' ' {
                    from -= 1;
                }
                if from > 0 && b[from - 1] == b',' {
                    from -= 1;
                }
            }
            return format!("{}{}", &line[..from], &line[to..]);
        }
        i = value_end;
    }
}

#[cfg(test)]
mod tests {
    use super::without_key;
    #[test]
    fn cuts() {
        assert_eq!(without_key(r#"{"id":1,"toks":[{"k":"p","s":"}\""}],"tree":{"a":[{"b":"]"}]},"n":3}"#, "tree"), r#"{"id":1,"toks":[{"k":"p","s":"}\""}],"n":3}"#);
        assert_eq!(without_key(r#"{"id":1,"tree":{"a":1}}"#, "tree"), r#"{"id":1}"#);
        assert_eq!(without_key(r#"{"id":1,"n":2}"#, "tree"), r#"{"id":1,"n":2}"#);
    }
}

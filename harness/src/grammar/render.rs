//! Token list (as emitted by spec/PenneGrammar.tla) -> Penne source text with a seeded random layout.
//!
//! Between any two tokens the documented lexical grammar allows spaces, tabs, newlines and `//`
//! comments (a comment ends at the end of its line).  Nothing at all is put between two tokens only
//! where gluing them cannot change how either lexer cuts the text (see `must_separate`).
use pvh::rng::Rng;
use serde_json::Value;

fn hex_digits(it: &Value) -> Result<String, String> {
    let d = it.get("d").and_then(|d| d.as_array()).ok_or("escape without digits")?;
    let upper = it.get("up") == Some(&Value::Bool(true));
    let mut out = String::new();
    for x in d {
        let c = std::char::from_digit(x.as_u64().ok_or("digit")? as u32, 16).ok_or("digit out of range")?;
        out.push(if upper { c.to_ascii_uppercase() } else { c });
    }
    Ok(out)
}

/// One written item of a character / string literal: {c: byte} a plain printable character,
/// {raw: [bytes]} UTF-8 written as is, {e: "n"} a simple escape, {e: "x" | "u", d: [hex digits]}.
fn item_text(it: &Value, out: &mut String) -> Result<(), String> {
    if let Some(b) = it.get("c").and_then(|c| c.as_u64()) {
        if !(32..127).contains(&b) || b == b'\\' as u64 {
            return Err(format!("item {b} is not a plain printable character"));
        }
        out.push(b as u8 as char);
        return Ok(());
    }
    if let Some(raw) = it.get("raw").and_then(|r| r.as_array()) {
        let bytes: Vec<u8> = raw.iter().map(|b| b.as_u64().unwrap_or(0) as u8).collect();
        let s = String::from_utf8(bytes).map_err(|_| "raw item is not UTF-8".to_string())?;
        out.push_str(&s);
        return Ok(());
    }
    match it.get("e").and_then(|e| e.as_str()) {
        Some("x") => {
            out.push_str("\\x");
            out.push_str(&hex_digits(it)?);
        }
        Some("u") => {
            out.push_str("\\u{");
            out.push_str(&hex_digits(it)?);
            out.push('}');
        }
        Some(c) if ["n", "r", "t", "\\", "'", "\"", "0"].contains(&c) => {
            out.push('\\');
            out.push_str(c);
        }
        _ => return Err(format!("unknown string item {it}")),
    }
    Ok(())
}

fn escape_bytes(bytes: &[u8], quote: u8, out: &mut String) {
    for &b in bytes {
        match b {
            b'\n' => out.push_str("\\n"),
            b'\r' => out.push_str("\\r"),
            b'\t' => out.push_str("\\t"),
            b'\\' => out.push_str("\\\\"),
            0 => out.push_str("\\0"),
            b if b == quote => {
                out.push('\\');
                out.push(b as char)
            }
            32..=126 => out.push(b as char),
            b => out.push_str(&format!("\\x{b:02X}")),
        }
    }
}

fn digit_char(d: u64) -> char {
    std::char::from_digit(d as u32, 16).unwrap_or('?')
}

/// Decimal string of a value given either as a decimal string or as little-endian base-256 limbs.
pub fn value_string(v: &Value) -> Option<String> {
    if let Some(s) = v.as_str() {
        return Some(s.to_string());
    }
    if let Some(n) = v.as_u64() {
        return Some(n.to_string());
    }
    let limbs = v.as_array()?;
    let mut x: u128 = 0;
    for (i, l) in limbs.iter().enumerate() {
        let b = l.as_u64()? as u128;
        if b > 0 {
            if i >= 16 {
                return None;
            }
            x |= b << (8 * i);
        }
    }
    Some(x.to_string())
}

pub fn spelling(tok: &Value) -> Result<String, String> {
    let k = tok.get("k").and_then(|k| k.as_str()).ok_or("token without kind")?;
    let s = || tok.get("s").and_then(|s| s.as_str()).map(|s| s.to_string()).ok_or(format!("token {tok} without spelling"));
    match k {
        "kw" | "p" | "id" | "ty" => s(),
        "bi" => Ok(format!("{}!", s()?)),
        "bool" => Ok(if tok["v"] == Value::Bool(true) { "true".into() } else { "false".into() }),
        "int" => {
            let mut out = String::new();
            if let Some(h) = tok.get("h") {
                let base = h.get("base").and_then(|b| b.as_u64()).ok_or("int hint without base")?;
                match base {
                    10 => (),
                    16 => out.push_str("0x"),
                    2 => out.push_str("0b"),
                    _ => return Err(format!("base {base}")),
                }
                let digits = h.get("digits").and_then(|d| d.as_array()).ok_or("int hint without digits")?;
                let seps: Vec<u64> = h.get("seps").and_then(|d| d.as_array()).map(|a| a.iter().filter_map(|x| x.as_u64()).collect()).unwrap_or_default();
                for (i, d) in digits.iter().enumerate() {
                    out.push(digit_char(d.as_u64().ok_or("digit")?));
                    if seps.contains(&((i + 1) as u64)) {
                        out.push('_');
                    }
                }
            } else {
                out.push_str(&value_string(&tok["v"]).ok_or("int token without value")?);
            }
            if let Some(sfx) = tok.get("suffix").and_then(|s| s.as_str()) {
                out.push_str(sfx);
            }
            Ok(out)
        }
        "char" => {
            let mut out = String::from("'");
            if let Some(h) = tok.get("h") {
                item_text(h, &mut out)?;
            } else {
                escape_bytes(&[tok["v"].as_u64().ok_or("char value")? as u8], b'\'', &mut out);
            }
            out.push('\'');
            Ok(out)
        }
        "str" => {
            let mut out = String::from("\"");
            if let Some(h) = tok.get("h").and_then(|h| h.as_array()) {
                for it in h {
                    item_text(it, &mut out)?;
                }
            } else {
                let bytes: Vec<u8> = tok["bytes"].as_array().ok_or("string bytes")?.iter().map(|b| b.as_u64().unwrap_or(0) as u8).collect();
                escape_bytes(&bytes, b'"', &mut out);
            }
            out.push('"');
            Ok(out)
        }
        other => Err(format!("unknown token kind {other}")),
    }
}

fn ident_char(c: char) -> bool {
    c.is_ascii_alphanumeric() || c == '_'
}

/// Would writing `b` directly after `a` change the tokens either lexer sees?
pub fn must_separate(a: &str, b: &str) -> bool {
    let (x, y) = match (a.chars().last(), b.chars().next()) {
        (Some(x), Some(y)) => (x, y),
        _ => return false,
    };
    if ident_char(x) && ident_char(y) {
        return true;
    }
    // `name!` is a builtin token
    if ident_char(x) && y == '!' {
        return true;
    }
    matches!(
        (x, y),
        ('<', '<') | ('<', '=') | ('>', '>') | ('>', '=') | ('=', '=') | ('!', '=') | ('-', '>') | ('.', '.') | ('|', ':') | ('/', '/')
    )
}

const COMMENTS: [&str; 10] = [
    "",
    " plain",
    "/ doc comment",
    " fn x() { \"quote",
    " 'c' */ /* }",
    " caf\u{e9} \u{20ac}",
    " return: 0",
    "\t;",
    "!(",
    " 0x1_ |: &&",
];

/// Systematic layouts (dimension audit): SPECIAL + 0: nothing between two tokens unless they would glue, nothing before the
/// first token, NOTHING after the last one (the file ends with the last token of the last production, without an end of
/// line); SPECIAL + 1: a `//` comment in EVERY gap between two tokens, before the first token and after the last one, where
/// the file ends inside the comment; SPECIAL + 2: an end of line in every gap, trailing white space at the end of the file.
pub const SPECIAL: u64 = 100;
pub const N_SPECIAL: u64 = 3;

fn render_special(sp: &[String], which: u64) -> String {
    let mut out = String::new();
    let comment = |out: &mut String, i: usize, newline: bool| {
        // `/` directly followed by `//` would turn the division sign into the start of the comment
        if out.ends_with('/') || i % 3 == 1 {
            out.push(' ');
        }
        out.push_str("//");
        out.push_str(COMMENTS[i % COMMENTS.len()]);
        if newline {
            out.push('\n');
        }
    };
    if which == 1 {
        comment(&mut out, 0, true);
    }
    for (i, s) in sp.iter().enumerate() {
        if i > 0 {
            match which {
                0 => {
                    if must_separate(&sp[i - 1], s) {
                        out.push(' ');
                    }
                }
                1 => comment(&mut out, i, true),
                _ => {
                    out.push('\n');
                    for _ in 0..(i % 3) {
                        out.push('\t');
                    }
                }
            }
        }
        out.push_str(s);
    }
    match which {
        // (a module without declarations: a file of zero bytes is not Penne, docs/errors.md E101)
        0 => {
            if sp.is_empty() {
                out.push(' ');
            }
        }
        1 => comment(&mut out, sp.len() + 1, false),
        _ => out.push_str(" \n\n\t "),
    }
    out
}

/// layout 0 is the plain one (single spaces, one declaration-ish chunk per line is not attempted);
/// `density` in percent steers how often nothing / a newline / a comment is chosen.
pub fn render(tokens: &[Value], seed: u64, stream: u64, layout: u64) -> Result<String, String> {
    let mut rng = Rng::new(seed ^ 0x6772616d, stream.wrapping_mul(1315423911).wrapping_add(layout));
    let sp: Vec<String> = tokens.iter().map(spelling).collect::<Result<_, _>>()?;
    if layout >= SPECIAL {
        return Ok(render_special(&sp, (layout - SPECIAL) % N_SPECIAL));
    }
    let mut out = String::new();
    let style = if layout == 0 { 0 } else { 1 + rng.below(4) };
    let sep = |rng: &mut Rng, out: &mut String, must: bool, edge: bool| {
        if style == 0 {
            if !edge {
                out.push(' ');
            }
            return;
        }
        // style 1: tight; 2: airy; 3: many newlines; 4: many comments
        let w = match style {
            1 => [70, 20, 2, 5, 3],
            2 => [10, 50, 15, 20, 5],
            3 => [10, 20, 5, 60, 5],
            _ => [10, 20, 5, 25, 40],
        };
        let mut choice = rng.weighted(&w);
        if choice == 0 && must {
            choice = 1;
        }
        match choice {
            0 => (),
            1 => {
                for _ in 0..rng.range(1, 2) {
                    out.push(' ');
                }
            }
            2 => out.push('\t'),
            3 => {
                out.push('\n');
                for _ in 0..rng.below(3) {
                    out.push(*rng.pick(&['\t', ' ', '\n']));
                }
            }
            _ => {
                // `/` directly followed by `//` would turn the division sign into the start of the comment
                if rng.chance(50) || out.ends_with('/') {
                    out.push(' ');
                }
                out.push_str("//");
                out.push_str(COMMENTS[rng.below(COMMENTS.len())]);
                out.push('\n');
                for _ in 0..rng.below(2) {
                    out.push('\t');
                }
            }
        }
    };
    sep(&mut rng, &mut out, false, true);
    for (i, s) in sp.iter().enumerate() {
        if i > 0 {
            let must = must_separate(&sp[i - 1], s);
            sep(&mut rng, &mut out, must, false);
        }
        out.push_str(s);
    }
    sep(&mut rng, &mut out, false, true);
    if style == 0 || rng.chance(70) {
        out.push('\n');
    }
    Ok(out)
}

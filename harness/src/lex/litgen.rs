//! C09, impl -> spec: random integer literals ("random values in between") in random spellings are put
//! into programs that print them; what the real compiler and the executed program did is recorded per
//! literal for validation by TLC (spec/Trace_Literals.tla).  No oracle here.

use crate::obs;
use pvh::rng::Rng;
use serde_json::{Value, json};

const TYPES: &[(&str, u32, bool)] = &[
    ("i8", 8, true),
    ("i16", 16, true),
    ("i32", 32, true),
    ("i64", 64, true),
    ("i128", 128, true),
    ("u8", 8, false),
    ("u16", 16, false),
    ("u32", 32, false),
    ("u64", 64, false),
    ("u128", 128, false),
    ("usize", 64, false),
];

pub struct Lit {
    pub text: String,
    pub ty: &'static str,
    pub width: u32,
    pub signed: bool,
    pub sfx: bool,
    pub neg: bool,
}

fn underscores(r: &mut Rng, digits: &str) -> String {
    let mut out = String::new();
    for (i, c) in digits.chars().enumerate() {
        if i > 0 && r.chance(15) {
            out.push('_');
        }
        out.push(c);
    }
    if r.chance(10) {
        out.push('_');
    }
    out
}

pub fn random_literal(r: &mut Rng) -> Lit {
    let (ty, width, signed) = *r.pick(TYPES);
    // magnitude: mostly around the width of the type, sometimes anywhere up to 128 bits
    let bits = match r.below(10) {
        0..=5 => r.range(1, width as usize),
        6..=7 => (width as usize + r.below(3)).min(128).max(1),
        _ => r.range(1, 128),
    } as u32;
    let raw = ((r.next() as u128) << 64) | r.next() as u128;
    let mut m = if bits >= 128 { raw } else { raw & ((1u128 << bits) - 1) };
    if r.chance(70) && bits >= 1 {
        m |= 1u128 << (bits - 1).min(127);
    }
    if r.chance(10) {
        // exactly on a boundary of the type
        let top = if signed { 1u128 << (width - 1) } else if width == 128 { u128::MAX } else { 1u128 << width };
        m = match r.below(3) {
            0 => top.wrapping_sub(1),
            1 => top,
            _ => top.wrapping_add(if width == 128 && !signed { 0 } else { 1 }),
        };
    }
    let neg = signed && r.chance(40);
    let body = match r.below(7) {
        0..=2 => {
            let d = m.to_string();
            if r.chance(30) && d != "0" { underscores(r, &d) } else { d }
        }
        3 => format!("0x{m:x}"),
        4 => format!("0x{m:X}"),
        5 => {
            let zeros = "0".repeat(r.below(5));
            format!("0x{}", underscores(r, &format!("{zeros}{m:x}")))
        }
        _ => format!("0b{}", underscores(r, &format!("{m:b}"))),
    };
    let sfx = r.chance(40);
    let text = if sfx { format!("{body}{ty}") } else { body };
    Lit { text, ty, width, signed, sfx, neg }
}

/// One program with `n` random literals; returns the recordings (one JSON line per literal).
pub fn record_program(seed: u64, index: usize, n: usize) -> Vec<String> {
    let mut r = Rng::new(seed, 0xc09 + index as u64);
    let lits: Vec<Lit> = (0..n).map(|_| random_literal(&mut r)).collect();
    // dimension audit: the POSITION of the literal varies too (drawn after all literals, so that the literals of
    // a seed stay what they were): 0, 1 local variable; 2 constant; 3 array element; 4 argument; 5 return value
    let forms: Vec<usize> = (0..n).map(|_| r.below(6)).collect();
    let mut decls: Vec<String> = Vec::new();
    let mut stmts: Vec<String> = Vec::new();
    // (index of the line that holds the literal: Decl(i) / Stmt(i))
    let mut at: Vec<(bool, usize)> = Vec::new();
    for (k, l) in lits.iter().enumerate() {
        let minus = if l.neg { "-" } else { "" };
        let t = l.ty;
        let lit = format!("{minus}{}", l.text);
        match forms[k] {
            2 => {
                decls.push(format!("const K{k}: {t} = {lit};"));
                at.push((true, decls.len() - 1));
                stmts.push(format!("print!(K{k}, \"\\n\");"));
            }
            3 => {
                stmts.push(format!("var a{k}: [2]{t} = [0, {lit}]; print!(a{k}[1], \"\\n\");"));
                at.push((false, stmts.len() - 1));
            }
            4 => {
                decls.push(format!("fn f{k}(a: {t}) -> {t} {{ return: a }}"));
                stmts.push(format!("var v{k}: {t} = f{k}({lit}); print!(v{k}, \"\\n\");"));
                at.push((false, stmts.len() - 1));
            }
            5 => {
                decls.push(format!("fn g{k}() -> {t} {{ return: {lit} }}"));
                at.push((true, decls.len() - 1));
                stmts.push(format!("var v{k}: {t} = g{k}(); print!(v{k}, \"\\n\");"));
            }
            _ => {
                if l.sfx {
                    stmts.push(format!("var v{k} = {lit}; print!(v{k}, \"\\n\");"));
                } else {
                    stmts.push(format!("var v{k}: {t} = {lit}; print!(v{k}, \"\\n\");"));
                }
                at.push((false, stmts.len() - 1));
            }
        }
    }
    let mut src = String::new();
    for d in &decls {
        src.push_str(d);
        src.push('\n');
    }
    src.push_str("fn main() -> u8\n{\n");
    for st in &stmts {
        src.push('\t');
        src.push_str(st);
        src.push('\n');
    }
    src.push_str("\treturn: 0\n}\n");
    let line_of = |k: usize| -> usize {
        let (is_decl, i) = at[k];
        if is_decl { 1 + i } else { decls.len() + 3 + i }
    };
    let o = pvh::alpha::run_single(&src, "case.pn", pvh::alpha::Upto::Ir, false);
    let mut lines: Vec<String> = Vec::new();
    let mut status = if o.ok { "ok" } else { "rejected" }.to_string();
    if let Some(p) = &o.panic {
        status = format!("panic: {p}");
    }
    if let Some(ir) = &o.ir {
        match pvh::alpha::run_lli(ir, 30) {
            Ok((stdout, 0)) => lines = stdout.lines().map(|s| s.to_string()).collect(),
            Ok((_, code)) => status = format!("exit {code}"),
            Err(e) => status = format!("lli: {e}"),
        }
    }
    let mut out = Vec::new();
    for (k, l) in lits.iter().enumerate() {
        let line = line_of(k);
        let lint = o.lints.iter().any(|d| d.code == 1142 && d.line == line);
        let code = o.diags.iter().find(|d| d.line == line).map(|d| d.code).unwrap_or(0);
        // the printed decimal -> two's complement limbs of the type's width (Rust's integer parser: trusted conversion)
        let printed = lines.get(k).cloned().unwrap_or_default();
        let bits: Value = if l.signed {
            match printed.parse::<i128>() {
                Ok(v) => json!((v as u128).to_le_bytes()[..(l.width / 8) as usize].to_vec()),
                Err(_) => json!([]),
            }
        } else {
            match printed.parse::<u128>() {
                Ok(v) => json!(v.to_le_bytes()[..(l.width / 8) as usize].to_vec()),
                Err(_) => json!([]),
            }
        };
        // does the printed number fit the type at all?  (otherwise the limbs above would hide it)
        let fits = if l.signed {
            printed.parse::<i128>().map(|v| l.width == 128 || (v >= -(1i128 << (l.width - 1)) && v < (1i128 << (l.width - 1)))).unwrap_or(false)
        } else {
            printed.parse::<u128>().map(|v| l.width == 128 || v < (1u128 << l.width)).unwrap_or(false)
        };
        out.push(
            json!({"lit": l.text.as_bytes(), "t": l.ty, "sfx": l.sfx, "neg": l.neg, "status": status,
                   "accepted": o.ok && lines.len() == n, "lint": lint, "code": code, "bits": bits, "fits": fits,
                   "printed": printed, "prog": index, "k": k, "form": forms[k]})
            .to_string(),
        );
    }
    let _ = obs::limbs(0);
    out
}

//! C19: run the real token fuzzer through hook H6 (seeded entry point), lex its output with both real
//! lexers, and cut line-aligned windows out of the token streams for validation by Trace_Lex.

use crate::obs;
use pvh::rng::Rng;
use serde_json::{Value, json};
use std::collections::BTreeSet;

pub struct FuzzRun {
    pub summary: Value,
    pub recordings: Vec<String>,
}

fn errors_of(items: &[Value], text: &[u8], chars: Option<&Vec<usize>>) -> Vec<Value> {
    // [code, line, col, excerpt] of the first few lexical errors
    items
        .iter()
        .filter(|it| it[0].as_str().map(|k| k.starts_with("Error")).unwrap_or(false))
        .take(5)
        .map(|it| {
            let (mut s, mut e) = (it[1].as_u64().unwrap_or(0) as usize, it[2].as_u64().unwrap_or(0) as usize);
            if let Some(c) = chars {
                // alpha counts characters: map to bytes where possible
                s = *c.get(s).unwrap_or(&text.len());
                e = *c.get(e).unwrap_or(&text.len());
            }
            let lo = s.saturating_sub(12).min(text.len());
            let hi = (e + 12).min(text.len()).max(lo);
            json!([it[5], it[3], it[4], String::from_utf8_lossy(&text[lo..hi])])
        })
        .collect()
}

fn gap_class(gap: &[u8]) -> &'static str {
    if gap.is_empty() {
        "none"
    } else if gap.contains(&b'\n') {
        "line"
    } else {
        "blank"
    }
}

/// One run of the generator exactly as `penne fuzz tokens --kb <kb>` drives it (src/main.rs do_fuzzing).
pub fn run_one(seed: u64, kb: usize, windows: usize, window_len: usize) -> FuzzRun {
    run_one_with(seed, kb, windows, window_len, true)
}

/// `fixed`: also cut the windows at fixed places (the end of the output, around powers of two)
pub fn run_one_with(seed: u64, kb: usize, windows: usize, window_len: usize, fixed: bool) -> FuzzRun {
    let capacity = kb * 1096;
    let mut buffer = String::with_capacity(capacity);
    let result = std::panic::catch_unwind(move || {
        let r = penne::delta::fuzzer::fill_to_capacity_with_tokens_seeded(seed, 95, &mut buffer, 0);
        (r.map_err(|e| format!("{e:#}")), buffer)
    });
    let (status, buffer) = match result {
        Ok((Ok(()), b)) => ("ok".to_string(), b),
        Ok((Err(e), b)) => (format!("error: {e}"), b),
        Err(_) => ("panic".to_string(), String::new()),
    };
    analyze_with(buffer.as_bytes(), status, seed, kb, windows, window_len, fixed)
}

/// What is recorded about one output of the generator (`text`: the bytes it produced -- through the seeded entry
/// point, or the file that the real `penne fuzz tokens --kb <kb> --out-dir D` wrote).
pub fn analyze(text: &[u8], status: String, seed: u64, kb: usize, windows: usize, window_len: usize) -> FuzzRun {
    analyze_with(text, status, seed, kb, windows, window_len, true)
}

pub fn analyze_with(text: &[u8], status: String, seed: u64, kb: usize, windows: usize, window_len: usize, fixed: bool) -> FuzzRun {
    let capacity = kb * 1096;
    // UTF-8 validity is checked on the bytes
    let utf8 = std::str::from_utf8(text).is_ok();
    let buffer: String = String::from_utf8_lossy(text).to_string();
    let d = obs::observe_delta(text);
    let a = if utf8 { obs::observe_alpha(&buffer) } else { json!({"t": []}) };
    let empty = vec![];
    let dt = d["t"].as_array().unwrap_or(&empty);
    let at = a["t"].as_array().unwrap_or(&empty);
    // character offset -> byte offset (alpha's unit)
    let mut chars: Vec<usize> = buffer.char_indices().map(|(i, _)| i).collect();
    chars.push(text.len());
    let mut adj: BTreeSet<(String, &'static str, String)> = BTreeSet::new();
    let real: Vec<&Value> = dt.iter().filter(|it| it[0] != "EndOfSource").collect();
    for w in real.windows(2) {
        let (e0, s1) = (w[0][2].as_u64().unwrap() as usize, w[1][1].as_u64().unwrap() as usize);
        if e0 <= s1 && s1 <= text.len() {
            let g = gap_class(&text[e0..s1]);
            if g != "line" {
                adj.insert((w[0][0].as_str().unwrap().to_string(), g, w[1][0].as_str().unwrap().to_string()));
            }
        }
    }
    let mut summary = json!({
        "seed": seed, "kb": kb, "status": status, "len": text.len(), "capacity": capacity,
        "utf8": utf8, "enough": text.len() >= kb * 1024,
        "delta_tokens": dt.len(), "alpha_tokens": at.len(),
        "delta_errors": errors_of(dt, text, None), "alpha_errors": errors_of(at, text, Some(&chars)),
        "adj": adj.iter().map(|(a, g, b)| json!([a, g, b])).collect::<Vec<_>>(),
    });
    if let Some(p) = d.get("panic") {
        summary["delta_panic"] = p.clone();
    }
    if let Some(p) = a.get("panic") {
        summary["alpha_panic"] = p.clone();
    }
    // line-aligned windows of the two token streams
    let mut r = Rng::new(seed, 0xf22);
    let line_starts = line_starts_of(text);
    let mut spans: Vec<(usize, usize)> = Vec::new();
    if !(text.is_empty() || d.get("panic").is_some() || a.get("panic").is_some()) {
        for _ in 0..windows {
            let li = r.below(line_starts.len());
            let ws = line_starts[li];
            if ws >= text.len() {
                continue;
            }
            spans.push((ws, window_end(&line_starts, ws, window_len, text.len())));
        }
        if windows > 0 && fixed {
            // dimension audit: the END of the output and the neighbourhood of the offsets 2^12, 2^16, 2^17, 2^18, 2^20
            // are looked at in every run (drawn after the random windows: their seeds stay what they were)
            spans.extend(fixed_windows(&line_starts, window_len, text.len()));
        }
    }
    let meta = json!({"seed": seed, "kb": kb});
    let recordings = cut_windows(text, dt, at, &spans, true, &meta);
    FuzzRun { summary, recordings }
}

pub fn line_starts_of(text: &[u8]) -> Vec<usize> {
    std::iter::once(0).chain(text.iter().enumerate().filter(|(_, b)| **b == b'\n').map(|(i, _)| i + 1)).collect()
}

/// end of a window that starts at the line start `ws`: the first line start at least `window_len` bytes further
pub fn window_end(line_starts: &[usize], ws: usize, window_len: usize, len: usize) -> usize {
    line_starts.iter().position(|s| *s >= ws + window_len).map(|j| line_starts[j]).unwrap_or(len)
}

/// the last window_len bytes (from a line start to the very end) and one window around each power-of-two offset
pub fn fixed_windows(line_starts: &[usize], window_len: usize, len: usize) -> Vec<(usize, usize)> {
    let mut out = Vec::new();
    let before = |x: usize| -> usize { *line_starts.iter().rev().find(|s| **s <= x).unwrap_or(&0) };
    let ws = before(len.saturating_sub(window_len));
    if ws < len {
        out.push((ws, len));
    }
    for b in [1usize << 12, 1 << 16, 1 << 17, 1 << 18, 1 << 20] {
        if b < len {
            let ws = before(b.saturating_sub(window_len / 2));
            let we = window_end(line_starts, ws, window_len, len).max(before(b)).min(len);
            if ws < we {
                out.push((ws, we));
            }
        }
    }
    out
}

/// Recordings (for spec/Trace_Lex.tla) of the windows [ws, we) of a text: the items of both real lexers that start
/// inside the window, with offsets and lines rebased to the window.  Both lexers with full location data
/// (alpha: character offsets).  `noerr`: the recording claims that the text holds no lexical error.
pub fn cut_windows(text: &[u8], dt: &[Value], at: &[Value], spans: &[(usize, usize)], noerr: bool, meta: &Value) -> Vec<String> {
    let mut recordings = Vec::new();
    let line_starts = line_starts_of(text);
    // character index of every byte offset that starts a character (alpha's unit); only computed when needed
    let utf8 = std::str::from_utf8(text).is_ok();
    let mut chars_before: Vec<u32> = Vec::new();
    if utf8 {
        chars_before.reserve(text.len() + 1);
        let mut c = 0u32;
        for b in text {
            chars_before.push(c);
            if (*b & 0xC0) != 0x80 {
                c += 1;
            }
        }
        chars_before.push(c);
    }
    for &(ws, we) in spans {
        let first_line = 1 + line_starts.iter().take_while(|s| **s <= ws).count() - 1;
        let first_line = first_line.max(1);
        let slice = &text[ws..we];
        let mut t: Vec<Value> = dt
            .iter()
            .filter(|it| it[0] != "EndOfSource")
            .filter(|it| {
                let s = it[1].as_u64().unwrap() as usize;
                s >= ws && s < we
            })
            .map(|it| {
                let mut it = it.clone();
                it[1] = json!(it[1].as_u64().unwrap() as usize - ws);
                it[2] = json!(it[2].as_u64().unwrap() as usize - ws);
                it[3] = json!((it[3].as_u64().unwrap() as usize + 1).wrapping_sub(first_line));
                it
            })
            .collect();
        // the reference ends every delta list with two EndOfSource tokens: re-create them for the window
        let last_line = 1 + slice.iter().filter(|b| **b == b'\n').count();
        let last_start = slice.iter().rposition(|b| *b == b'\n').map(|i| i + 1).unwrap_or(0);
        for _ in 0..2 {
            t.push(json!(["EndOfSource", slice.len(), slice.len(), last_line, slice.len() - last_start, 0, [], "", []]));
        }
        let mut rec = json!({"g": "delta", "s": slice, "full": true, "at": ws, "t": t});
        if noerr {
            rec["noerr"] = json!(true);
        }
        for (k, v) in meta.as_object().unwrap() {
            rec[k] = v.clone();
        }
        recordings.push(rec.to_string());
        if !utf8 {
            continue;
        }
        let content_lines = if slice.ends_with(b"\n") { last_line - 1 } else { last_line };
        let c0 = chars_before[ws] as usize;
        let t: Vec<Value> = at
            .iter()
            .filter(|it| {
                let l = it[3].as_u64().unwrap() as usize;
                l >= first_line && l < first_line + content_lines
            })
            .map(|it| {
                let mut it = it.clone();
                it[1] = json!((it[1].as_u64().unwrap() as usize).wrapping_sub(c0));
                it[2] = json!((it[2].as_u64().unwrap() as usize).wrapping_sub(c0));
                it[3] = json!(it[3].as_u64().unwrap() as usize + 1 - first_line);
                it
            })
            .collect();
        let mut rec = json!({"g": "alpha", "s": slice, "full": true, "at": ws, "t": t});
        if noerr {
            rec["noerr"] = json!(true);
        }
        for (k, v) in meta.as_object().unwrap() {
            rec[k] = v.clone();
        }
        recordings.push(rec.to_string());
    }
    recordings
}

//! C19: run the real token fuzzer through hook H6 (seeded entry point), lex its output with both real
//! lexers, and cut line-aligned windows out of the token streams for validation by Trace_Lex.

use crate::obs;
use pvh::rng::Rng;
use serde_json::{Value, json};
use std::collections::BTreeSet;

pub struct FuzzRun {
    pub summary: Value,
    pub recordings: Vec<String>,
}

fn errors_of(items: &[Value], text: &[u8], chars: Option<&Vec<usize>>) -> Vec<Value> {
    // [code, line, col, excerpt] of the first few lexical errors
    items
        .iter()
        .filter(|it| it[0].as_str().map(|k| k.starts_with("Error")).unwrap_or(false))
        .take(5)
        .map(|it| {
            let (mut s, mut e) = (it[1].as_u64().unwrap_or(0) as usize, it[2].as_u64().unwrap_or(0) as usize);
            if let Some(c) = chars {
                // alpha counts characters: map to bytes where possible
                s = *c.get(s).unwrap_or(&text.len());
                e = *c.get(e).unwrap_or(&text.len());
            }
            let lo = s.saturating_sub(12).min(text.len());
            let hi = (e + 12).min(text.len()).max(lo);
            json!([it[5], it[3], it[4], String::from_utf8_lossy(&text[lo..hi])])
        })
        .collect()
}

fn gap_class(gap: &[u8]) -> &'static str {
    if gap.is_empty() {
        "none"
    } else if gap.contains(&b'\n') {
        "line"
    } else {
        "blank"
    }
}

/// One run of the generator exactly as `penne fuzz tokens --kb <kb>` drives it (src/main.rs do_fuzzing).
pub fn run_one(seed: u64, kb: usize, windows: usize, window_len: usize) -> FuzzRun {
    let capacity = kb * 1096;
    let mut buffer = String::with_capacity(capacity);
    let result = std::panic::catch_unwind(move || {
        let r = penne::delta::fuzzer::fill_to_capacity_with_tokens_seeded(seed, 95, &mut buffer, 0);
        (r.map_err(|e| format!("{e:#}")), buffer)
    });
    let (status, buffer) = match result {
        Ok((Ok(()), b)) => ("ok".to_string(), b),
        Ok((Err(e), b)) => (format!("error: {e}"), b),
        Err(_) => ("panic".to_string(), String::new()),
    };
    let text = buffer.as_bytes();
    // the API returns a String, so UTF-8 validity is re-checked on the bytes
    let utf8 = std::str::from_utf8(text).is_ok();
    let d = obs::observe_delta(text);
    let a = obs::observe_alpha(&buffer);
    let empty = vec![];
    let dt = d["t"].as_array().unwrap_or(&empty);
    let at = a["t"].as_array().unwrap_or(&empty);
    // character offset -> byte offset (alpha's unit)
    let mut chars: Vec<usize> = buffer.char_indices().map(|(i, _)| i).collect();
    chars.push(text.len());
    let mut adj: BTreeSet<(String, &'static str, String)> = BTreeSet::new();
    let real: Vec<&Value> = dt.iter().filter(|it| it[0] != "EndOfSource").collect();
    for w in real.windows(2) {
        let (e0, s1) = (w[0][2].as_u64().unwrap() as usize, w[1][1].as_u64().unwrap() as usize);
        if e0 <= s1 && s1 <= text.len() {
            let g = gap_class(&text[e0..s1]);
            if g != "line" {
                adj.insert((w[0][0].as_str().unwrap().to_string(), g, w[1][0].as_str().unwrap().to_string()));
            }
        }
    }
    let mut summary = json!({
        "seed": seed, "kb": kb, "status": status, "len": text.len(), "capacity": capacity,
        "utf8": utf8, "enough": text.len() >= kb * 1024,
        "delta_tokens": dt.len(), "alpha_tokens": at.len(),
        "delta_errors": errors_of(dt, text, None), "alpha_errors": errors_of(at, text, Some(&chars)),
        "adj": adj.iter().map(|(a, g, b)| json!([a, g, b])).collect::<Vec<_>>(),
    });
    if let Some(p) = d.get("panic") {
        summary["delta_panic"] = p.clone();
    }
    if let Some(p) = a.get("panic") {
        summary["alpha_panic"] = p.clone();
    }
    // line-aligned windows of the two token streams
    let mut recordings = Vec::new();
    let mut r = Rng::new(seed, 0xf22);
    let line_starts: Vec<usize> =
        std::iter::once(0).chain(text.iter().enumerate().filter(|(_, b)| **b == b'\n').map(|(i, _)| i + 1)).collect();
    for _ in 0..windows {
        if text.is_empty() || d.get("panic").is_some() || a.get("panic").is_some() {
            break;
        }
        let li = r.below(line_starts.len());
        let ws = line_starts[li];
        if ws >= text.len() {
            continue;
        }
        // end: the first line start at least window_len bytes further (or the end of the text)
        let lj = line_starts.iter().position(|s| *s >= ws + window_len);
        let we = lj.map(|j| line_starts[j]).unwrap_or(text.len());
        let first_line = li + 1;
        let slice = &text[ws..we];
        // delta: byte offsets, rebased
        let mut t: Vec<Value> = dt
            .iter()
            .filter(|it| it[0] != "EndOfSource")
            .filter(|it| {
                let s = it[1].as_u64().unwrap() as usize;
                s >= ws && s < we
            })
            .map(|it| {
                let mut it = it.clone();
                it[1] = json!(it[1].as_u64().unwrap() as usize - ws);
                it[2] = json!(it[2].as_u64().unwrap() as usize - ws);
                it[3] = json!(it[3].as_u64().unwrap() as usize + 1 - first_line);
                it
            })
            .collect();
        // the reference ends every delta list with two EndOfSource tokens: re-create them for the window
        let last_line = 1 + slice.iter().filter(|b| **b == b'\n').count();
        let last_start = slice.iter().rposition(|b| *b == b'\n').map(|i| i + 1).unwrap_or(0);
        for _ in 0..2 {
            t.push(json!(["EndOfSource", slice.len(), slice.len(), last_line, slice.len() - last_start, 0, [], "", []]));
        }
        recordings.push(
            json!({"g": "delta", "s": slice, "full": true, "noerr": true, "seed": seed, "kb": kb, "at": ws, "t": t}).to_string(),
        );
        let content_lines = if slice.ends_with(b"\n") { last_line - 1 } else { last_line };
        // alpha: kinds, payloads and lines only (its offsets drift after CRLF: property C14, not C19)
        let t: Vec<Value> = at
            .iter()
            .filter(|it| {
                let l = it[3].as_u64().unwrap() as usize;
                l >= first_line && l < first_line + content_lines
            })
            .map(|it| {
                let mut it = it.clone();
                it[3] = json!(it[3].as_u64().unwrap() as usize + 1 - first_line);
                it
            })
            .collect();
        recordings.push(
            json!({"g": "alpha", "s": slice, "full": false, "noerr": true, "seed": seed, "kb": kb, "at": ws, "t": t}).to_string(),
        );
    }
    FuzzRun { summary, recordings }
}

//! Running the two real lexers and projecting what they return onto the vocabulary of
//! spec/PenneLex.tla.  An observed item is the JSON array
//!   [kind, start, end, line, col, code, value-limbs, type, bytes]
//! with offsets in the lexer's own unit (alpha: characters, delta: bytes), `code` 0 for tokens,
//! the integer payload as 16 little-endian limbs (or []), the suffix / keyword type ("" if none) and
//! the identifier text / decoded string bytes ([] if the lexer does not provide them).

use penne::alpha::error::Error as PenneError;
use penne::alpha::lexer as alpha_lexer;
use penne::delta::lexer as delta_lexer;
use serde_json::{Value, json};

pub fn limbs(v: u128) -> Value {
    json!(v.to_le_bytes().to_vec())
}

fn code_of(error: alpha_lexer::Error, location: &alpha_lexer::Location) -> u16 {
    // penne's own mapping from lexical errors to codes
    PenneError::Lexical { error, location: location.clone(), expectation: String::new() }.code()
}

fn panic_message(e: Box<dyn std::any::Any + Send>) -> String {
    if let Some(s) = e.downcast_ref::<&str>() {
        s.to_string()
    } else if let Some(s) = e.downcast_ref::<String>() {
        s.clone()
    } else {
        "panic".to_string()
    }
}

fn item(kind: &str, l: &alpha_lexer::Location, code: u16, v: Value, ty: &str, by: &[u8]) -> Value {
    json!([kind, l.span.start, l.span.end, l.line_number, l.line_offset, code, v, ty, by])
}

pub fn alpha_items(source: &str) -> Vec<Value> {
    use alpha_lexer::Token;
    let tokens = alpha_lexer::lex(source, "case.pn");
    let none = json!([]);
    tokens
        .iter()
        .map(|t| {
            let l = &t.location;
            match &t.result {
                Err(e) => item("Error", l, code_of(*e, l), none.clone(), "", &[]),
                Ok(tok) => match tok {
                    Token::Identifier(s) => item("Identifier", l, 0, none.clone(), "", s.as_bytes()),
                    Token::Builtin(s) => item("Builtin", l, 0, none.clone(), "", s.as_bytes()),
                    Token::NakedDecimal(v) => item("NakedDecimal", l, 0, limbs(*v), "", &[]),
                    Token::BitInteger(v) => item("BitInteger", l, 0, limbs(*v), "", &[]),
                    Token::SuffixedInteger { value, suffix_type } => {
                        item("SuffixedInteger", l, 0, limbs(*value), &format!("{suffix_type:?}"), &[])
                    }
                    Token::CharLiteral(b) => item("CharLiteral", l, 0, limbs(u128::from(*b)), "", &[*b]),
                    Token::Bool(b) => item("BoolLiteral", l, 0, limbs(u128::from(*b)), "", &[]),
                    Token::StringLiteral { bytes } => item("StringLiteral", l, 0, none.clone(), "", bytes),
                    Token::Type(vt) => item("ValueTypeKeyword", l, 0, none.clone(), &format!("{vt:?}"), &[]),
                    other => item(&format!("{other:?}"), l, 0, none.clone(), "", &[]),
                },
            }
        })
        .collect()
}

pub fn delta_items(source: &[u8]) -> Vec<Value> {
    use delta_lexer::BaseToken;
    let tokens = delta_lexer::lex(source, "case.pn");
    let none = json!([]);
    let errors: Vec<PenneError> = tokens.errors().map(|e| e.errors).unwrap_or_default();
    let mut next_error = 0;
    let mut out = Vec::new();
    let n = tokens.base_tokens().len();
    let mut id = tokens.first_token_id();
    for i in 0..n {
        let base = tokens.base_tokens()[i];
        let l = tokens.get_location(id);
        let vap = tokens.get_value_type_and_payload(id);
        let payload = tokens.get_integer_payload(vap.payload_id());
        let v = payload.map(limbs).unwrap_or_else(|| none.clone());
        let ty = match vap.value_type() {
            delta_lexer::ValueTypeKeyword::NoKeyword => String::new(),
            other => format!("{other:?}"),
        };
        let text: &[u8] = if l.span.end <= source.len() && l.span.start <= l.span.end { &source[l.span.clone()] } else { &[] };
        let it = match base {
            BaseToken::Error => {
                let code = match errors.get(next_error) {
                    Some(e) => e.code(),
                    None => 0,
                };
                // the error list and the Error tokens are parallel; also check the locations agree
                let same = errors.get(next_error).map(|e| e.verif_location() == &l).unwrap_or(false);
                next_error += 1;
                item(if same { "Error" } else { "Error?" }, &l, code, none.clone(), "", &[])
            }
            BaseToken::Identifier => item("Identifier", &l, 0, v, &ty, text),
            BaseToken::Builtin => item("Builtin", &l, 0, v, &ty, &text[..text.len().saturating_sub(1)]),
            BaseToken::CharLiteral => {
                let b = payload.map(|p| vec![p as u8]).unwrap_or_default();
                item("CharLiteral", &l, 0, v, &ty, &b)
            }
            other => item(&format!("{other:?}"), &l, 0, v, &ty, &[]),
        };
        out.push(it);
        if i + 1 < n {
            tokens.advance(&mut id);
        }
    }
    if next_error != errors.len() {
        out.push(json!(["ErrorCount?", errors.len(), next_error, 0, 0, 0, [], "", []]));
    }
    out
}

/// {"t": items} or {"panic": message}
pub fn observe_alpha(source: &str) -> Value {
    match std::panic::catch_unwind(|| alpha_items(source)) {
        Ok(items) => json!({"t": items}),
        Err(e) => json!({"panic": panic_message(e)}),
    }
}

pub fn observe_delta(source: &[u8]) -> Value {
    match std::panic::catch_unwind(|| delta_items(source)) {
        Ok(items) => json!({"t": items}),
        Err(e) => json!({"panic": panic_message(e)}),
    }
}

/// Both lexers on one text: {"u": valid UTF-8, "d": …, "a": … (only if UTF-8)}
pub fn observe(source: &[u8]) -> Value {
    let mut v = json!({"d": observe_delta(source)});
    match std::str::from_utf8(source) {
        Ok(text) => {
            v["u"] = json!(true);
            v["a"] = observe_alpha(text);
        }
        Err(_) => {
            v["u"] = json!(false);
        }
    }
    v
}

pub fn bytes_of(v: &Value) -> Vec<u8> {
    v.as_array().map(|a| a.iter().map(|x| x.as_u64().unwrap_or(0) as u8).collect()).unwrap_or_default()
}

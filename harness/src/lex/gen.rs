//! Random texts for the impl -> spec direction of C14: token sequences in random legal spellings and
//! layouts (plus a sprinkling of illegal lexemes) and, for the byte-oriented second generation,
//! arbitrary bytes.  No oracle lives here: whatever text comes out is lexed by the real lexers, logged,
//! and judged by TLC with spec/PenneLex.tla.

use pvh::rng::Rng;

const KEYWORDS: &[&str] = &[
    "fn", "var", "const", "if", "goto", "loop", "else", "cast", "as", "import", "pub", "extern", "struct", "word8",
    "word16", "word32", "word64", "word128", "return", "true", "false", "void", "bool", "char8", "i8", "i16", "i32",
    "i64", "i128", "u8", "u16", "u32", "u64", "u128", "usize", "_",
];
const OPERATORS: &[&str] = &[
    "(", ")", "{", "}", "[", "]", "<", ">", "|", "&", "^", "!", "+", "-", "*", "/", "%", ":", ";", ".", ",", "=", "==",
    "!=", ">=", "<=", "<<", ">>", "->", "|:", "..",
];
const SUFFIXES: &[&str] = &["i8", "i16", "i32", "i64", "i128", "u8", "u16", "u32", "u64", "u128", "usize"];
const BAD_SUFFIXES: &[&str] = &["u7", "i", "u", "isize", "U8", "f32", "x", "b", "u8_", "_u8x", "e5", "char8", "bool"];

fn identifier(r: &mut Rng) -> String {
    const FIRST: &[u8] = b"abcdefghijklmnopqrstuvwxyzABCDEFGHIJKLMNOPQRSTUVWXYZ_";
    const REST: &[u8] = b"abcdefghijklmnopqrstuvwxyzABCDEFGHIJKLMNOPQRSTUVWXYZ_0123456789";
    if r.chance(15) {
        // near-keywords
        let k = *r.pick(KEYWORDS);
        return match r.below(4) {
            0 => format!("{k}_"),
            1 => format!("_{k}"),
            2 => k.to_uppercase(),
            _ => format!("{k}{}", r.below(10)),
        };
    }
    let n = if r.chance(10) { r.range(10, 40) } else { r.range(1, 8) };
    let mut s = String::new();
    s.push(*r.pick(FIRST) as char);
    for _ in 1..n {
        s.push(*r.pick(REST) as char);
    }
    s
}

fn value(r: &mut Rng) -> u128 {
    let boundaries: [u128; 14] = [
        0,
        1,
        127,
        128,
        255,
        256,
        65535,
        1 << 31,
        u32::MAX as u128,
        1 << 32,
        u64::MAX as u128,
        1 << 64,
        1 << 127,
        u128::MAX,
    ];
    match r.below(10) {
        0..=2 => r.below(1000) as u128,
        3..=4 => *r.pick(&boundaries),
        5 => r.pick(&boundaries).wrapping_sub(1),
        6 => ((r.next() as u128) << 64) | r.next() as u128,
        7 => r.next() as u128,
        8 => ((r.next() as u128) << 64 | r.next() as u128) >> r.below(128),
        _ => (r.next() as u32) as u128,
    }
}

/// digits of a number with random underscores (never leading)
fn with_underscores(r: &mut Rng, digits: &str) -> String {
    let mut out = String::new();
    for (i, c) in digits.chars().enumerate() {
        if i > 0 && r.chance(12) {
            out.push('_');
            if r.chance(10) {
                out.push('_');
            }
        }
        out.push(c);
    }
    if r.chance(5) {
        out.push('_');
    }
    out
}

fn integer(r: &mut Rng) -> String {
    let v = value(r);
    let mut s = match r.below(8) {
        0..=3 => {
            // decimal; sometimes beyond 128 bits
            let mut d = v.to_string();
            if r.chance(6) {
                d = match r.below(4) {
                    0 => "340282366920938463463374607431768211456".to_string(),
                    1 => "340282366920938463463374607431768211459".to_string(),
                    2 => format!("{}{}", u128::MAX, r.below(10)),
                    _ => format!("{d}{}", u128::MAX),
                };
            }
            if d == "0" { d } else { with_underscores(r, &d) }
        }
        4 => format!("0x{}", with_underscores(r, &format!("{v:x}"))),
        5 => format!("0x{}", with_underscores(r, &format!("{v:X}"))),
        6 => {
            // hexadecimal with leading zeros / beyond 128 bits
            let zeros = "0".repeat(r.below(40));
            let extra = if r.chance(30) { "1f" } else { "" };
            format!("0x{extra}{zeros}{v:x}")
        }
        _ => {
            let zeros = if r.chance(20) { "0".repeat(r.below(140)) } else { String::new() };
            let lead = if r.chance(10) { "_" } else { "" };
            format!("0b{lead}{zeros}{}", with_underscores(r, &format!("{v:b}")))
        }
    };
    if r.chance(40) {
        if r.chance(8) {
            s.push_str(*r.pick(BAD_SUFFIXES));
        } else {
            s.push_str(*r.pick(SUFFIXES));
        }
    }
    s
}

fn escape(r: &mut Rng, out: &mut String) {
    match r.below(14) {
        0 => out.push_str("\\n"),
        1 => out.push_str("\\r"),
        2 => out.push_str("\\t"),
        3 => out.push_str("\\\\"),
        4 => out.push_str("\\'"),
        5 => out.push_str("\\\""),
        6 => out.push_str("\\0"),
        7 | 8 => {
            let b = r.below(256);
            if r.chance(50) { out.push_str(&format!("\\x{b:02x}")) } else { out.push_str(&format!("\\x{b:02X}")) }
        }
        9..=11 => {
            let c = match r.below(5) {
                0 => r.below(0x80),
                1 => r.range(0x80, 0x7FF),
                2 => r.range(0x800, 0xFFFF),
                3 => r.range(0x10000, 0x10FFFF),
                _ => *r.pick(&[0, 0x41, 0x7F, 0x80, 0xD7FF, 0xE000, 0x20AC, 0x1F600, 0x10FFFF]),
            } as u32;
            let zeros = if r.chance(10) { "0".repeat(r.below(4)) } else { String::new() };
            if r.chance(50) {
                out.push_str(&format!("\\u{{{zeros}{c:x}}}"))
            } else {
                out.push_str(&format!("\\u{{{zeros}{c:X}}}"))
            }
        }
        _ => {
            // malformed escapes (rare)
            out.push_str(*r.pick(&[
                "\\q", "\\x4", "\\xg0", "\\x", "\\u", "\\u{}", "\\u{41", "\\u41", "\\u{D800}", "\\u{dfff}", "\\u{110000}",
                "\\u{0000041}", "\\u{00000041}", "\\ ", "\\a", "\\1", "\\N", "\\u{g}",
            ]));
        }
    }
}

fn raw_char(r: &mut Rng, out: &mut String, quote: char) {
    match r.below(20) {
        0 => out.push(' '),
        1 => out.push(*r.pick(&['é', 'ß', '€', '\u{1F600}', '\u{80}', '\u{7FF}', '\u{FFFF}', '\u{2028}', '\u{85}'])),
        2 => out.push(if quote == '"' { '\'' } else { '"' }),
        3 => out.push(*r.pick(&['/', '%', '{', '}', '#', '@', '~', '`', '$', '?'])),
        _ => out.push((b'!' + r.below(94) as u8) as char),
    }
    // never the closing quote or a backslash by accident
    if out.ends_with(quote) || out.ends_with('\\') {
        out.pop();
        out.push('x');
    }
}

fn string_literal(r: &mut Rng) -> String {
    let mut s = String::from("\"");
    let n = if r.chance(10) { r.range(10, 40) } else { r.below(8) };
    for _ in 0..n {
        if r.chance(25) { escape(r, &mut s) } else { raw_char(r, &mut s, '"') }
    }
    if r.chance(2) {
        s.push(*r.pick(&['\t', '\u{1}', '\u{7f}', '\u{0}']));
    }
    if !r.chance(2) {
        s.push('"');
    } else if r.chance(50) {
        s.push('\\');
    }
    s
}

fn char_literal(r: &mut Rng) -> String {
    let mut s = String::from("'");
    match r.below(10) {
        0..=4 => raw_char(r, &mut s, '\''),
        5..=7 => escape(r, &mut s),
        8 => {}
        _ => {
            raw_char(r, &mut s, '\'');
            raw_char(r, &mut s, '\'');
        }
    }
    if !r.chance(2) {
        s.push('\'');
    }
    s
}

fn token(r: &mut Rng) -> String {
    match r.weighted(&[30, 20, 12, 4, 14, 6, 6, 2]) {
        0 => r.pick(OPERATORS).to_string(),
        1 => r.pick(KEYWORDS).to_string(),
        2 => identifier(r),
        3 => format!("{}!", identifier(r)),
        4 => integer(r),
        5 => string_literal(r),
        6 => char_literal(r),
        _ => r.pick(&["@", "#", "$", "?", "\\", "`", "~", "\u{1}", "\u{7f}", "é", "€", "\u{1F600}", "\u{c}", "\u{b}"]).to_string(),
    }
}

fn comment(r: &mut Rng) -> String {
    let mut s = String::from("//");
    if r.chance(30) {
        s.push('/');
    }
    for _ in 0..r.below(12) {
        if r.chance(20) {
            s.push_str(&token(r).replace('\n', " "));
        } else {
            raw_char(r, &mut s, '\n');
        }
        if r.chance(30) {
            s.push(' ');
        }
    }
    if r.chance(3) {
        s.push('\r');
        s.push('x');
    }
    s
}

/// A token soup of about `n` tokens.  `eol`: 0 = "\n", 1 = "\r\n", 2 = mixed (with rare lone "\r").
pub fn token_soup(r: &mut Rng, n: usize, eol: usize) -> String {
    let mut s = String::new();
    let newline = |r: &mut Rng, s: &mut String| match eol {
        0 => s.push('\n'),
        1 => s.push_str("\r\n"),
        _ => match r.below(10) {
            0..=4 => s.push('\n'),
            5..=8 => s.push_str("\r\n"),
            _ => s.push('\r'),
        },
    };
    for _ in 0..n {
        s.push_str(&token(r));
        // separator
        match r.weighted(&[25, 45, 6, 14, 6, 4]) {
            0 => {}
            1 => s.push(' '),
            2 => s.push('\t'),
            3 => {
                newline(r, &mut s);
                for _ in 0..r.below(3) {
                    s.push(if r.chance(50) { '\t' } else { ' ' });
                }
            }
            4 => {
                if r.chance(50) {
                    s.push(' ');
                }
                s.push_str(&comment(r));
                newline(r, &mut s);
            }
            _ => {
                for _ in 0..r.range(2, 4) {
                    match r.below(4) {
                        0 => s.push(' '),
                        1 => s.push('\t'),
                        _ => newline(r, &mut s),
                    }
                }
            }
        }
    }
    s
}

/// Arbitrary bytes for the second generation: uniformly random, biased to lexically relevant bytes,
/// or a token soup with some bytes overwritten.
pub fn arbitrary_bytes(r: &mut Rng) -> Vec<u8> {
    const RELEVANT: &[u8] = b"\"'\\/\n\r\t 0123456789abxu_{}<>=!|:.-";
    match r.below(3) {
        0 => (0..r.range(1, 48)).map(|_| r.next() as u8).collect(),
        1 => (0..r.range(1, 64))
            .map(|_| if r.chance(70) { *r.pick(RELEVANT) } else { r.next() as u8 })
            .collect(),
        _ => {
            let (n, eol) = (r.range(3, 25), r.below(3));
            let mut b = token_soup(r, n, eol).into_bytes();
            for _ in 0..r.range(1, 4) {
                let i = r.below(b.len());
                b[i] = r.next() as u8;
            }
            if r.chance(20) {
                let cut = r.below(b.len());
                b.truncate(cut.max(1));
            }
            b
        }
    }
}

/// Dimension audit: a LONG token soup (tens of kilobytes, thousands of lines) for the window recordings, from a
/// generator of its own (the streams of `token_soup` stay what they were).  Besides the tokens of `token` it
/// writes lexemes whose LENGTH is the point: identifiers of 1 and of 255..300 characters, integers with hundreds of
/// leading zeros / separators (also directly behind the base prefix and before the suffix), string literals and
/// comments of several hundred bytes.
pub fn long_soup(r: &mut Rng, n: usize, eol: usize) -> String {
    let mut s = String::new();
    let newline = |r: &mut Rng, s: &mut String| match eol {
        0 => s.push('\n'),
        1 => s.push_str("\r\n"),
        _ => {
            if r.chance(50) {
                s.push('\n')
            } else {
                s.push_str("\r\n")
            }
        }
    };
    for _ in 0..n {
        if r.chance(4) {
            let t = match r.below(9) {
                0 => ((b'a' + r.below(26) as u8) as char).to_string(),
                1 => {
                    let len = r.range(254, 300);
                    let mut id = String::from("q");
                    for _ in 1..len {
                        id.push(*r.pick(&['a', 'Z', '_', '7']));
                    }
                    id
                }
                2 => format!("0x{}{:x}", "0".repeat(r.range(30, 400)), r.next()),
                3 => format!("0x_{:X}_u64", r.next()),
                4 => format!("0b_{}1{}", "0".repeat(r.range(120, 300)), if r.chance(50) { "_u8" } else { "" }),
                5 => format!("{}{}", r.range(1, 9), "_".repeat(r.range(1, 300))),
                6 => {
                    let mut t = String::from("\"");
                    for _ in 0..r.range(250, 600) {
                        if r.chance(10) { legal_escape(r, &mut t, true) } else { raw_char(r, &mut t, '"') }
                    }
                    t.push('"');
                    t
                }
                7 => format!("{}{}", r.next(), *r.pick(SUFFIXES)),
                _ => format!("{}!", "w".repeat(r.range(250, 260))),
            };
            s.push_str(&t);
        } else if r.chance(1) && r.chance(30) {
            // a few (possibly illegal) lexemes of the ordinary generator: the second generation reports at most 100
            // lexical errors per text, so a long text must stay well below that for its windows to be complete
            s.push_str(&token(r));
        } else {
            s.push_str(&legal_token(r));
        }
        // (tokens are glued rarely: gluing makes illegal lexemes, and the text must stay below 100 of them)
        match r.weighted(&[2, 50, 5, 28, 15]) {
            0 => {}
            1 => s.push(' '),
            2 => s.push('\t'),
            3 => {
                newline(r, &mut s);
                for _ in 0..r.below(3) {
                    s.push(if r.chance(50) { '\t' } else { ' ' });
                }
            }
            _ => {
                s.push_str(" //");
                for _ in 0..(if r.chance(10) { r.range(200, 700) } else { r.below(30) }) {
                    raw_char(r, &mut s, '\n');
                }
                newline(r, &mut s);
            }
        }
    }
    s
}

fn legal_escape(r: &mut Rng, out: &mut String, in_string: bool) {
    match r.below(if in_string { 10 } else { 8 }) {
        0 => out.push_str("\\n"),
        1 => out.push_str("\\r"),
        2 => out.push_str("\\t"),
        3 => out.push_str("\\\\"),
        4 => out.push_str("\\'"),
        5 => out.push_str("\\\""),
        6 => out.push_str("\\0"),
        7 => {
            let b = r.below(256);
            if r.chance(50) { out.push_str(&format!("\\x{b:02x}")) } else { out.push_str(&format!("\\x{b:02X}")) }
        }
        _ => {
            let c = *r.pick(&[0u32, 0x41, 0x7F, 0x80, 0x7FF, 0x800, 0xD7FF, 0xE000, 0x20AC, 0xFFFF, 0x10000, 0x1F600, 0x10FFFF]);
            let zeros = "0".repeat(r.below(3).min(6 - format!("{c:x}").len()));
            out.push_str(&format!("\\u{{{zeros}{c:x}}}"));
        }
    }
}

/// a token in a legal spelling (the generator chooses legal forms; whether they ARE legal is still TLC's verdict)
fn legal_token(r: &mut Rng) -> String {
    match r.weighted(&[30, 20, 14, 4, 16, 8, 8]) {
        0 => r.pick(OPERATORS).to_string(),
        1 => r.pick(KEYWORDS).to_string(),
        2 => identifier(r),
        3 => {
            let id = identifier(r);
            if KEYWORDS.contains(&id.as_str()) { format!("{id}_!") } else { format!("{id}!") }
        }
        4 => {
            let v = value(r);
            let mut t = match r.below(4) {
                0 | 1 => {
                    let d = v.to_string();
                    if d == "0" { d } else { with_underscores(r, &d) }
                }
                2 => format!("0x{}", with_underscores(r, &format!("{v:x}"))),
                _ => format!("0b{}", with_underscores(r, &format!("{v:b}"))),
            };
            if r.chance(40) {
                t.push_str(*r.pick(SUFFIXES));
            }
            t
        }
        5 => {
            let mut t = String::from("\"");
            for _ in 0..(if r.chance(10) { r.range(10, 60) } else { r.below(8) }) {
                if r.chance(25) { legal_escape(r, &mut t, true) } else { raw_char(r, &mut t, '"') }
            }
            t.push('"');
            t
        }
        _ => {
            let mut t = String::from("'");
            if r.chance(40) {
                legal_escape(r, &mut t, false)
            } else {
                t.push((b'!' + r.below(94) as u8) as char);
                if t.ends_with('\'') || t.ends_with('\\') {
                    t.pop();
                    t.push('x');
                }
            }
            t.push('\'');
            t
        }
    }
}

//! C09 (dimension audit): two additions to the literal runner that the shared driver (harness/src/alpha.rs,
//! read-only for this group) does not offer:
//!   * programs that consist of several modules (the SAME literal in two modules, in both file orders):
//!     the sequence of `compile_to_ir_using_alpha` -- parse all, expand, surface check, then per module
//!     scoper / add_module / analyze_and_resolve / compile, finally link_modules and generate_ir;
//!   * the RAW bytes a program writes to its standard output (string literals in `print!` position hold
//!     bytes that are not UTF-8; a lossy conversion would hide exactly what is compared).
//! No oracle here: outcomes are recorded, TLC's verdicts are compared in checks/c09.py.

use penne::alpha::{Compiler, expander, lexer, parser, resolver, scoper};
use pvh::alpha::Diag;
use serde_json::{Value, json};

fn panic_message(e: Box<dyn std::any::Any + Send>) -> String {
    if let Some(s) = e.downcast_ref::<&str>() {
        s.to_string()
    } else if let Some(s) = e.downcast_ref::<String>() {
        s.clone()
    } else {
        "panic".to_string()
    }
}

#[derive(Default)]
pub struct Multi {
    pub ok: bool,
    /// (code, line, file)
    pub diags: Vec<Diag>,
    pub lints: Vec<Diag>,
    pub panic: Option<String>,
    pub ir: Option<String>,
}

impl Multi {
    pub fn to_json(&self) -> Value {
        let mut v = json!({
            "ok": self.ok,
            "diags": self.diags.iter().map(|d| json!([d.code, d.line, d.file])).collect::<Vec<_>>(),
            "lints": self.lints.iter().map(|d| json!([d.code, d.line, d.file])).collect::<Vec<_>>(),
        });
        if let Some(p) = &self.panic {
            v["panic"] = json!(p);
        }
        v
    }
}

pub fn run_multi(files: &[(String, String)]) -> Multi {
    let files2: Vec<(String, String)> = files.to_vec();
    match std::panic::catch_unwind(move || run_multi_inner(&files2)) {
        Ok(o) => o,
        Err(e) => Multi { panic: Some(panic_message(e)), ..Default::default() },
    }
}

fn run_multi_inner(files: &[(String, String)]) -> Multi {
    let mut out = Multi::default();
    let mut modules = Vec::new();
    for (path, source) in files {
        let tokens = lexer::lex(source, path);
        let declarations = parser::parse(tokens);
        let filepath: std::path::PathBuf = path.parse().unwrap();
        modules.push((filepath, declarations));
    }
    expander::expand(&mut modules);
    for (_, declarations) in &modules {
        if let Err(errors) = resolver::check_surface_level_errors(declarations) {
            out.diags.extend(errors.errors.iter().map(Diag::from_error));
        }
    }
    if !out.diags.is_empty() {
        return out;
    }
    let mut compiler = Compiler::default();
    for (filepath, declarations) in modules.into_iter() {
        let filename = filepath.to_string_lossy().to_string();
        let declarations = scoper::analyze(declarations);
        compiler.add_module(&filename).expect("add_module");
        let resolved = match compiler.analyze_and_resolve(declarations) {
            Ok(Ok(resolved)) => resolved,
            Ok(Err(errors)) => {
                out.diags.extend(errors.errors.iter().map(Diag::from_error));
                return out;
            }
            Err(e) => {
                out.panic = Some(format!("generator error: {e:#}"));
                return out;
            }
        };
        out.lints.extend(compiler.take_lints().iter().map(Diag::from_error));
        if let Err(e) = compiler.compile(&resolved) {
            out.panic = Some(format!("generator error: {e:#}"));
            return out;
        }
    }
    match compiler.link_modules() {
        Ok(()) => match compiler.generate_ir() {
            Ok(ir) => {
                out.ok = true;
                out.ir = Some(ir);
            }
            Err(e) => out.panic = Some(format!("generate_ir error: {e:#}")),
        },
        Err(e) => out.panic = Some(format!("link error: {e:#}")),
    }
    out
}

/// Textual IR through lli; returns (raw standard output, exit status).  Same protocol as
/// pvh::alpha::run_lli (time limit enforced here), but the output is not converted.
pub fn run_lli_raw(ir: &str, timeout_s: u64, limit: u64) -> Result<(Vec<u8>, i32), String> {
    use std::io::{Read, Write};
    use std::process::{Command, Stdio};
    let mut child = Command::new("lli")
        .stdin(Stdio::piped())
        .stdout(Stdio::piped())
        .stderr(Stdio::piped())
        .spawn()
        .map_err(|e| format!("spawn lli: {e}"))?;
    let ir_owned = ir.as_bytes().to_vec();
    let mut stdin = child.stdin.take().unwrap();
    // feed the IR from a thread of its own: a big module does not fit the pipe buffer
    let in_thread = std::thread::spawn(move || {
        let _ = stdin.write_all(&ir_owned);
    });
    let mut stdout_pipe = child.stdout.take().unwrap();
    let mut stderr_pipe = child.stderr.take().unwrap();
    let out_thread = std::thread::spawn(move || {
        let mut buf = Vec::new();
        let mut limited = (&mut stdout_pipe).take(limit);
        let _ = limited.read_to_end(&mut buf);
        let _ = std::io::copy(&mut stdout_pipe, &mut std::io::sink());
        buf
    });
    let err_thread = std::thread::spawn(move || {
        let mut buf = Vec::new();
        let mut limited = (&mut stderr_pipe).take(1 << 16);
        let _ = limited.read_to_end(&mut buf);
        let _ = std::io::copy(&mut stderr_pipe, &mut std::io::sink());
        buf
    });
    let deadline = std::time::Instant::now() + std::time::Duration::from_secs(timeout_s);
    let status = loop {
        match child.try_wait() {
            Ok(Some(st)) => break Some(st),
            Ok(None) => {
                if std::time::Instant::now() > deadline {
                    let _ = child.kill();
                    let _ = child.wait();
                    break None;
                }
                std::thread::sleep(std::time::Duration::from_millis(2));
            }
            Err(e) => return Err(format!("wait lli: {e}")),
        }
    };
    let _ = in_thread.join();
    let stdout = out_thread.join().unwrap_or_default();
    let stderr = String::from_utf8_lossy(&err_thread.join().unwrap_or_default()).to_string();
    match status {
        None => Err("timeout".to_string()),
        Some(st) => match st.code() {
            Some(c) => Ok((stdout, c)),
            None => Err(format!("signal; stderr={}", stderr.chars().take(300).collect::<String>())),
        },
    }
}

pub fn hex(bytes: &[u8]) -> String {
    let mut s = String::with_capacity(bytes.len() * 2);
    for b in bytes {
        s.push_str(&format!("{b:02x}"));
    }
    s
}

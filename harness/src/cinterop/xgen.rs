//! Seeded generator of random programs mixing Penne and foreign calls (impl -> spec of the cinterop family).
//! The bodies of library functions come from the table that TLC printed from spec/CInterop.tla (`LIB` lines of
//! MC_CInterop); only the `mix` kind is built here.  Trace_CInterop checks every instance against `Lib` again, so a
//! divergence of this file from the specification is a tool error, never a finding.
//! A program is `main` made of independent cells; every scalar argument is computed at run time from a 64-bit
//! value with random upper bits (`c_opaque`).  `labs` names, per printed line, the function called from Penne code
//! through which the value crossed the boundary (only used to name the shape of a discrepancy).

use pvh::rng::Rng;
use serde_json::{Value, json};
use std::collections::BTreeMap;

const ABI: [&str; 9] = ["i8", "i16", "i32", "i64", "u8", "u16", "u32", "u64", "usize"];

fn width(t: &str) -> usize {
    match t {
        "i8" | "u8" => 8,
        "i16" | "u16" => 16,
        "i32" | "u32" => 32,
        _ => 64,
    }
}

fn wide_of(t: &str) -> &'static str {
    if t.starts_with('i') { "i64" } else { "u64" }
}

fn prim(t: &str) -> Value {
    json!({"k": "prim", "t": t})
}
fn ptr(e: Value) -> Value {
    json!({"k": "ptr", "e": e})
}
fn view(e: Value) -> Value {
    json!({"k": "view", "e": e})
}
fn arr(n: usize, e: Value) -> Value {
    json!({"k": "array", "n": n, "e": e})
}
fn lit(t: &str, v: &[u8]) -> Value {
    json!({"k": "lit", "t": t, "v": v})
}
fn lit_n(t: &str, n: u64) -> Value {
    let v: Vec<u8> = (0..width(t) / 8).map(|i| ((n >> (8 * i)) & 255) as u8).collect();
    lit(t, &v)
}
fn rf(x: &str, addr: usize, steps: Vec<Value>) -> Value {
    json!({"k": "ref", "x": x, "addr": addr, "steps": steps})
}
fn v0(x: &str) -> Value {
    rf(x, 0, vec![])
}
fn ix(e: Value) -> Value {
    json!({"k": "i", "e": e})
}
fn mb(m: &str) -> Value {
    json!({"k": "m", "m": m})
}
fn cast(t: &str, from: &str, e: Value) -> Value {
    if t == from { e } else { json!({"k": "as", "t": t, "e": e}) }
}
fn call_e(f: &str, args: Vec<Value>) -> Value {
    json!({"k": "call", "f": f, "args": args})
}
fn call_s(f: &str, args: Vec<Value>) -> Value {
    json!({"k": "CALL", "f": f, "args": args, "d": ""})
}
fn decl(x: &str, ty: Value, e: Value) -> Value {
    json!({"k": "V", "x": x, "ty": ty, "e": e})
}
fn set(x: &str, e: Value) -> Value {
    json!({"k": "A", "r": {"x": x, "addr": 0, "steps": []}, "e": e})
}
fn pr(e: Value) -> Value {
    json!({"k": "P", "e": e})
}
fn arr_lit(t: &str, vs: &[Vec<u8>]) -> Value {
    json!({"k": "arr", "es": vs.iter().map(|v| lit(t, v)).collect::<Vec<_>>()})
}

struct Gen<'a> {
    rng: Rng,
    table: &'a BTreeMap<(String, String), Value>,
    fns: Vec<Value>,
    foreign: Vec<Value>,
    have: BTreeMap<String, ()>,
    body: Vec<Value>,
    labs: Vec<String>,
    counter: usize,
    need_struct: Option<String>,
}

impl<'a> Gen<'a> {
    fn fresh(&mut self, p: &str) -> String {
        self.counter += 1;
        format!("{p}{}", self.counter)
    }

    /// a value of type t: half of the time a boundary value, otherwise random bits
    fn value(&mut self, t: &str) -> Vec<u8> {
        let n = width(t) / 8;
        if self.rng.chance(50) {
            let mut v = vec![0u8; n];
            match self.rng.below(6) {
                0 => v[n - 1] = 128,
                1 => v = vec![255u8; n],
                2 => {
                    v = vec![255u8; n];
                    v[n - 1] = 127;
                }
                3 => v[0] = 1,
                4 => {}
                _ => {
                    v = vec![90u8; n];
                    v[n - 1] = 195;
                }
            }
            v
        } else {
            (0..n).map(|_| self.rng.below(256) as u8).collect()
        }
    }

    /// `var k: u64 = c_opaque(<v in the low bits, random bits above>);` -> the name k
    fn launder(&mut self, v: &[u8]) -> String {
        let k = self.fresh("k");
        let mut limbs: Vec<u8> = v.to_vec();
        while limbs.len() < 8 {
            limbs.push(self.rng.below(256) as u8);
        }
        self.body.push(decl(&k, prim("u64"), call_e("c_opaque", vec![lit("u64", &limbs)])));
        k
    }

    fn lib_fn(&self, name: &str, d: &Value) -> Value {
        let kind = d["lib"].as_str().unwrap();
        if kind == "mix" {
            return mix_fn(name, d["ts"].as_array().unwrap());
        }
        let t = d["t"].as_str().unwrap();
        let mut f = self.table.get(&(kind.to_string(), t.to_string())).unwrap_or_else(|| panic!("no library entry {kind} {t}")).clone();
        f["name"] = json!(name);
        f
    }

    fn add_foreign(&mut self, name: &str, d: Value) {
        if self.have.contains_key(name) {
            return;
        }
        self.have.insert(name.to_string(), ());
        let mut rec = d.clone();
        rec["name"] = json!(name);
        let kind = d["lib"].as_str().unwrap();
        let (params, ret) = match kind {
            "tramp" => (d["sig"]["params"].clone(), d["sig"]["ret"].clone()),
            "trampw" => {
                let ps: Vec<Value> = d["sig"]["params"].as_array().unwrap().iter().map(|p| json!({"x": p["x"], "ty": prim("u64")})).collect();
                (json!(ps), prim(wide_of(d["sig"]["ret"]["t"].as_str().unwrap())))
            }
            "foreach" => (json!([{"x": "x", "ty": view(prim(d["t"].as_str().unwrap()))}, {"x": "n", "ty": prim("usize")}]), json!({"k": "void"})),
            _ => {
                let f = self.lib_fn(name, &d);
                (f["params"].clone(), f["ret"].clone())
            }
        };
        rec["params"] = params;
        rec["ret"] = ret;
        self.foreign.push(rec);
    }

    fn add_penne(&mut self, name: &str, d: &Value, public: bool) -> Value {
        let mut f = self.lib_fn(name, d);
        if !self.have.contains_key(name) {
            self.have.insert(name.to_string(), ());
            f["ext"] = json!(true);
            f["pub"] = json!(public);
            f["lib"] = d.clone();
            self.fns.push(f.clone());
        }
        f
    }

    /// the function to call for a library descriptor, in a random direction; `scalar` allows the wide trampoline
    fn target(&mut self, nm: &str, d: Value, scalar: bool) -> String {
        match self.rng.below(if scalar { 5 } else { 4 }) {
            0 => {
                let n = format!("c_{nm}");
                self.add_foreign(&n, d);
                n
            }
            1 => {
                let callee = format!("p_{nm}");
                let f = self.add_penne(&callee, &d, true);
                let n = format!("c_tr_{callee}");
                self.add_foreign(&n, json!({"lib": "tramp", "cb": callee, "sig": {"params": f["params"], "ret": f["ret"]}}));
                n
            }
            2 => {
                let n = format!("q_{nm}");
                self.add_penne(&n, &d, false);
                n
            }
            3 => {
                let n = format!("p_{nm}");
                self.add_penne(&n, &d, true);
                n
            }
            _ => {
                let callee = format!("p_{nm}");
                let f = self.add_penne(&callee, &d, true);
                let n = format!("c_tw_{callee}");
                self.add_foreign(&n, json!({"lib": "trampw", "cb": callee, "sig": {"params": f["params"], "ret": f["ret"]}}));
                n
            }
        }
    }

    fn ty(&mut self) -> &'static str {
        // narrow types more often: they are where the boundary can go wrong
        if self.rng.chance(45) { *self.rng.pick(&["i8", "i16", "u8", "u16"]) } else { *self.rng.pick(&ABI) }
    }

    fn print_lab(&mut self, e: Value, lab: &str) {
        self.body.push(pr(e));
        self.labs.push(lab.to_string());
    }

    fn cell_scalar(&mut self) {
        let t = self.ty();
        let kind = *self.rng.pick(&["id", "widen", "narrow"]);
        let f = self.target(&format!("{kind}_{t}"), json!({"lib": kind, "t": t}), true);
        for _ in 0..self.rng.range(1, 3) {
            let v = self.value(t);
            let k = self.launder(&v);
            // the wide trampoline and `narrow` take the 64-bit value itself
            let arg = if kind == "narrow" || f.starts_with("c_tw_") { v0(&k) } else { cast(t, "u64", v0(&k)) };
            if self.rng.chance(30) {
                let r = self.fresh("r");
                let rt = if f.starts_with("c_tw_") || kind == "widen" { wide_of(t) } else { t };
                self.body.push(decl(&r, prim(rt), call_e(&f, vec![arg])));
                self.print_lab(v0(&r), &f);
            } else {
                self.print_lab(call_e(&f, vec![arg]), &f);
            }
        }
    }

    /// declare an array of `len` values and return an argument form that denotes it (by name, member, pointer, row)
    fn array_arg(&mut self, t: &str, len: usize) -> Value {
        let vals: Vec<Vec<u8>> = (0..len).map(|_| self.value(t)).collect();
        let a = self.fresh("a");
        match if len == 3 { self.rng.below(4) } else if len >= 1 { *self.rng.pick(&[0usize, 2, 3]) } else { 0 } {
            1 if self.need_struct.is_none() || self.need_struct.as_deref() == Some(t) => {
                self.need_struct = Some(t.to_string());
                let m = self.value(t);
                self.body.push(decl(&a, json!({"k": "named", "n": "S"}), json!({"k": "st", "n": "S", "fs": [{"m": "m", "e": lit(t, &m)}, {"m": "a", "e": arr_lit(t, &vals)}]})));
                rf(&a, 0, vec![mb("a")])
            }
            2 => {
                self.body.push(decl(&a, arr(len, prim(t)), arr_lit(t, &vals)));
                let p = self.fresh("pa");
                self.body.push(decl(&p, ptr(arr(len, prim(t))), rf(&a, 1, vec![])));
                v0(&p)
            }
            3 => {
                let other: Vec<Vec<u8>> = (0..len).map(|_| self.value(t)).collect();
                let row = self.rng.below(2);
                let rows = if row == 0 { vec![arr_lit(t, &vals), arr_lit(t, &other)] } else { vec![arr_lit(t, &other), arr_lit(t, &vals)] };
                self.body.push(decl(&a, arr(2, arr(len, prim(t))), json!({"k": "arr", "es": rows})));
                rf(&a, 0, vec![ix(lit_n("usize", row as u64))])
            }
            _ => {
                self.body.push(decl(&a, arr(len, prim(t)), arr_lit(t, &vals)));
                v0(&a)
            }
        }
    }

    fn cell_view(&mut self) {
        let t = self.ty();
        let kind = *self.rng.pick(&["sum", "max", "at"]);
        let len = if kind == "at" { self.rng.range(1, 6) } else { self.rng.range(0, 6) };
        let f = self.target(&format!("{kind}_{t}"), json!({"lib": kind, "t": t}), false);
        let arg = self.array_arg(t, len);
        for _ in 0..self.rng.range(1, 2) {
            let n = if kind == "at" { self.rng.below(len) } else { self.rng.range(0, len) };
            self.print_lab(call_e(&f, vec![arg.clone(), lit_n("usize", n as u64)]), &f);
        }
    }

    fn cell_buffer(&mut self) {
        let t = self.ty();
        let len = self.rng.range(1, 6);
        let vals: Vec<Vec<u8>> = (0..len).map(|_| self.value(t)).collect();
        let buf = self.fresh("buf");
        self.body.push(decl(&buf, arr(len, prim(t)), arr_lit(t, &vals)));
        let lab;
        if self.rng.chance(50) {
            let f = self.target(&format!("fill_{t}"), json!({"lib": "fill", "t": t}), false);
            let v = self.value(t);
            let k = self.launder(&v);
            let n = self.rng.range(0, len);
            self.body.push(call_s(&f, vec![rf(&buf, 1, vec![]), lit_n("usize", n as u64), cast(t, "u64", v0(&k))]));
            lab = f;
        } else {
            let f = self.target(&format!("copy_{t}"), json!({"lib": "copy", "t": t}), false);
            let slen = self.rng.range(1, 6);
            let src = self.array_arg(t, slen);
            let n = self.rng.range(0, len.min(slen));
            self.body.push(call_s(&f, vec![rf(&buf, 1, vec![]), src, lit_n("usize", n as u64)]));
            lab = f;
        }
        if self.rng.chance(40) {
            let f = self.target(&format!("incr_{t}"), json!({"lib": "incr", "t": t}), false);
            let j = self.rng.below(len);
            self.body.push(call_s(&f, vec![rf(&buf, 1, vec![ix(lit_n("usize", j as u64))])]));
        }
        for j in 0..len {
            self.print_lab(rf(&buf, 0, vec![ix(lit_n("usize", j as u64))]), &lab);
        }
    }

    fn cell_pointer(&mut self) {
        let t = self.ty();
        let (vx, vy) = (self.value(t), self.value(t));
        let (kx, ky) = (self.launder(&vx), self.launder(&vy));
        let (x, y, p) = (self.fresh("x"), self.fresh("y"), self.fresh("p"));
        self.body.push(decl(&x, prim(t), cast(t, "u64", v0(&kx))));
        self.body.push(decl(&y, prim(t), cast(t, "u64", v0(&ky))));
        self.body.push(decl(&p, ptr(prim(t)), rf(&x, 1, vec![])));
        let mut lab = String::new();
        for _ in 0..self.rng.range(1, 4) {
            match self.rng.below(4) {
                0 => {
                    let f = self.target(&format!("incr_{t}"), json!({"lib": "incr", "t": t}), false);
                    let who = if self.rng.chance(50) { &x } else { &y };
                    self.body.push(call_s(&f, vec![rf(who, 1, vec![])]));
                    lab = f;
                }
                1 => {
                    let f = self.target(&format!("addto_{t}"), json!({"lib": "addto", "t": t}), false);
                    let v = self.value(t);
                    let k = self.launder(&v);
                    // through the local pointer or directly
                    let a = if self.rng.chance(50) { rf(&p, 1, vec![]) } else { rf(&y, 1, vec![]) };
                    self.body.push(call_s(&f, vec![a, cast(t, "u64", v0(&k))]));
                    lab = f;
                }
                2 => {
                    let f = self.target(&format!("setpp_{t}"), json!({"lib": "setpp", "t": t}), false);
                    let v = self.value(t);
                    let k = self.launder(&v);
                    self.body.push(call_s(&f, vec![rf(&p, 2, vec![]), cast(t, "u64", v0(&k))]));
                    lab = f;
                }
                _ => {
                    let f = self.target(&format!("repoint_{t}"), json!({"lib": "repoint", "t": t}), false);
                    let who = if self.rng.chance(50) { &x } else { &y };
                    self.body.push(call_s(&f, vec![rf(&p, 2, vec![]), rf(who, 1, vec![])]));
                    let v = self.value(t);
                    self.body.push(set(&p, lit(t, &v)));
                    lab = f;
                }
            }
            self.print_lab(v0(&x), &lab);
            self.print_lab(v0(&y), &lab);
            self.print_lab(v0(&p), &lab);
        }
    }

    fn cell_mix(&mut self) {
        let n = self.rng.range(1, 10);
        let mut ts = Vec::new();
        let mut args = Vec::new();
        for _ in 0..n {
            let t = self.ty();
            let v = self.value(t);
            match self.rng.weighted(&[6, 2, 2]) {
                0 => {
                    let k = self.launder(&v);
                    ts.push(json!({"k": "s", "t": t}));
                    args.push(cast(t, "u64", v0(&k)));
                }
                1 => {
                    let a = self.fresh("va");
                    let first = self.value(t);
                    self.body.push(decl(&a, arr(2, prim(t)), arr_lit(t, &[first, v])));
                    ts.push(json!({"k": "v", "t": t}));
                    args.push(v0(&a));
                }
                _ => {
                    let k = self.launder(&v);
                    let pv = self.fresh("pv");
                    self.body.push(decl(&pv, prim(t), cast(t, "u64", v0(&k))));
                    ts.push(json!({"k": "p", "t": t}));
                    args.push(rf(&pv, 1, vec![]));
                }
            }
        }
        let id = self.fresh("mix");
        let f = self.target(&id, json!({"lib": "mix", "ts": ts}), false);
        let r = self.fresh("r");
        self.body.push(decl(&r, prim("u64"), call_e(&f, args)));
        self.print_lab(v0(&r), &f);
    }

    fn cell_foreach(&mut self) {
        let t = self.ty();
        let visit = format!("p_visit_{t}");
        let widen = format!("c_widen_{t}");
        self.add_foreign(&widen, json!({"lib": "widen", "t": t}));
        if !self.have.contains_key(&visit) {
            self.have.insert(visit.clone(), ());
            self.fns.push(json!({"name": visit, "params": [{"x": "v", "ty": prim(t)}], "ret": {"k": "void"},
                                 "body": [pr(v0("v")), pr(call_e(&widen, vec![v0("v")]))], "ext": true, "pub": true}));
        }
        let fe = format!("c_foreach_{t}");
        self.add_foreign(&fe, json!({"lib": "foreach", "t": t, "cb": visit}));
        let len = self.rng.range(0, 5);
        let arg = self.array_arg(t, len);
        let n = self.rng.range(0, len);
        self.body.push(call_s(&fe, vec![arg, lit_n("usize", n as u64)]));
        for _ in 0..n {
            self.labs.push(visit.clone());
            self.labs.push(widen.clone());
        }
    }
}

/// the `mix` kind: acc = acc * 31 + (term as u64) for every parameter, exactly as Lib in CInterop.tla
fn mix_fn(name: &str, ts: &[Value]) -> Value {
    let mut params = Vec::new();
    let mut body = vec![decl("acc", prim("u64"), lit_n("u64", 0))];
    for (i, en) in ts.iter().enumerate() {
        let a = format!("a{}", i + 1);
        let t = en["t"].as_str().unwrap();
        let (ty, inner) = match en["k"].as_str().unwrap() {
            "s" => (prim(t), v0(&a)),
            "v" => (view(prim(t)), rf(&a, 0, vec![ix(lit_n("usize", 1))])),
            _ => (ptr(prim(t)), v0(&a)),
        };
        params.push(json!({"x": a, "ty": ty}));
        body.push(set("acc", json!({"k": "bin", "op": "+", "l": {"k": "bin", "op": "*", "l": v0("acc"), "r": lit_n("u64", 31)}, "r": cast("u64", t, inner)})));
    }
    json!({"name": name, "params": params, "ret": prim("u64"), "body": body, "res": v0("acc")})
}

pub fn load_table(path: &str) -> BTreeMap<(String, String), Value> {
    let text = std::fs::read_to_string(path).expect("library table");
    let v: Value = serde_json::from_str(&text).expect("library table json");
    let mut m = BTreeMap::new();
    for e in v.as_array().expect("library table: array") {
        m.insert((e["lib"].as_str().unwrap().to_string(), e["t"].as_str().unwrap().to_string()), e["fn"].clone());
    }
    m
}

pub fn program(seed: u64, index: u64, table: &BTreeMap<(String, String), Value>) -> Value {
    let mut g = Gen {
        rng: Rng::new(seed, index.wrapping_mul(7919).wrapping_add(17)),
        table,
        fns: Vec::new(),
        foreign: Vec::new(),
        have: BTreeMap::new(),
        body: Vec::new(),
        labs: Vec::new(),
        counter: 0,
        need_struct: None,
    };
    g.add_foreign("c_opaque", json!({"lib": "id", "t": "u64"}));
    for _ in 0..g.rng.range(3, 7) {
        match g.rng.weighted(&[4, 3, 2, 2, 2, 1]) {
            0 => g.cell_scalar(),
            1 => g.cell_view(),
            2 => g.cell_buffer(),
            3 => g.cell_pointer(),
            4 => g.cell_mix(),
            _ => g.cell_foreach(),
        }
    }
    let structs = match &g.need_struct {
        Some(t) => json!([{"name": "S", "kind": "struct", "ms": [{"x": "m", "ty": prim(t)}, {"x": "a", "ty": arr(3, prim(t))}]}]),
        None => json!([]),
    };
    let exit = g.rng.below(4) as u8;
    let mut fns = vec![json!({"name": "main", "params": [], "ret": prim("u8"), "body": g.body, "res": lit("u8", &[exit])})];
    fns.extend(g.fns);
    json!({"structs": structs, "consts": [], "fns": fns, "foreign": g.foreign, "labs": g.labs})
}

//! Programs of spec/CInterop.tla -> Penne source text: the renderer of the Machine group (items, expressions,
//! types) plus what interoperability adds: `extern` / `pub` on functions, and one declaration
//! `extern fn name(params) -> ret;` per foreign instance.

use crate::render;
use serde_json::Value;

fn is_void(t: &Value) -> bool {
    t["k"] == "void" || t.is_null()
}

fn signature(name: &str, params: &Value, ret: &Value) -> String {
    let ps: Vec<String> = params
        .as_array()
        .map(|a| a.iter().map(|x| format!("{}: {}", x["x"].as_str().unwrap(), render::ty(&x["ty"]))).collect())
        .unwrap_or_default();
    let mut s = format!("fn {name}({})", ps.join(", "));
    if !is_void(ret) {
        s.push_str(&format!(" -> {}", render::ty(ret)));
    }
    s
}

pub fn program(p: &Value, lay: &mut render::Layout) -> String {
    let mut s = String::new();
    if let Some(ss) = p["structs"].as_array() {
        for d in ss {
            let head = if d["kind"] == "word" { format!("word{}", d["bits"].as_u64().unwrap_or(0)) } else { "struct".to_string() };
            s.push_str(&format!("{head} {}\n{{\n", d["name"].as_str().unwrap()));
            for m in d["ms"].as_array().unwrap() {
                s.push_str(&format!("\t{}: {},\n", m["x"].as_str().unwrap(), render::ty(&m["ty"])));
            }
            s.push_str("}\n");
        }
    }
    if let Some(cs) = p["consts"].as_array() {
        for c in cs {
            s.push_str(&format!("const {}: {} = {};\n", c["x"].as_str().unwrap(), render::ty(&c["ty"]), render::expr(&c["e"], lay)));
        }
    }
    if let Some(fs) = p["foreign"].as_array() {
        for f in fs {
            s.push_str(&format!("extern {};\n", signature(f["name"].as_str().unwrap(), &f["params"], &f["ret"])));
        }
    }
    for f in p["fns"].as_array().unwrap() {
        if f["pub"] == true {
            s.push_str("pub ");
        }
        if f["ext"] == true {
            s.push_str("extern ");
        }
        s.push_str(&signature(f["name"].as_str().unwrap(), &f["params"], &f["ret"]));
        if f["head"] == true {
            // a declaration without a body
            s.push_str(";\n");
            continue;
        }
        s.push_str("\n{\n");
        let body = f["body"].as_array().unwrap();
        let has_return_label = body.last().map(|x| x["k"] == "L" && x["n"] == "return").unwrap_or(false);
        for it in body {
            s.push('\t');
            s.push_str(&render::item(it, lay, f.get("res")));
            s.push('\n');
        }
        if !is_void(&f["ret"]) && !has_return_label {
            s.push_str(&format!("\treturn: {}\n", render::expr(&f["res"], lay)));
        }
        s.push_str("}\n");
    }
    s
}

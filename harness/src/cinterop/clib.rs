//! The C side of the foreign library of spec/CInterop.tla: one FIXED template per library kind.
//! The meaning of each template is the Machine function `Lib(name, d)` of CInterop.tla with the same `lib`.
//! Widths are explicit (<stdint.h>); arithmetic that may wrap is done in the unsigned type of the same
//! width and converted back (C's integer promotions and signed overflow never decide a result).

use serde_json::Value;

pub fn ctype(t: &str) -> &'static str {
    match t {
        "i8" => "int8_t",
        "i16" => "int16_t",
        "i32" => "int32_t",
        "i64" => "int64_t",
        "u8" => "uint8_t",
        "u16" => "uint16_t",
        "u32" => "uint32_t",
        "u64" => "uint64_t",
        "usize" => "size_t",
        other => panic!("not an ABI integer type: {other}"),
    }
}

fn utype(t: &str) -> &'static str {
    match t {
        "i8" | "u8" => "uint8_t",
        "i16" | "u16" => "uint16_t",
        "i32" | "u32" => "uint32_t",
        "i64" | "u64" => "uint64_t",
        "usize" => "size_t",
        other => panic!("not an ABI integer type: {other}"),
    }
}

fn wide(t: &str) -> &'static str {
    if t.starts_with('i') { "int64_t" } else { "uint64_t" }
}

fn min_of(t: &str) -> &'static str {
    match t {
        "i8" => "INT8_MIN",
        "i16" => "INT16_MIN",
        "i32" => "INT32_MIN",
        "i64" => "INT64_MIN",
        _ => "0",
    }
}

/// a type of an `extern` signature as C writes it: a view is a const pointer, `&[]T` and `&T` are `T*`
pub fn cty(ty: &Value) -> String {
    match ty["k"].as_str().unwrap_or("") {
        "prim" => ctype(ty["t"].as_str().unwrap()).to_string(),
        "view" => format!("const {}*", cty(&ty["e"])),
        "ptr" => {
            if ty["e"]["k"] == "view" {
                format!("{}*", cty(&ty["e"]["e"]))
            } else {
                format!("{}*", cty(&ty["e"]))
            }
        }
        "void" => "void".to_string(),
        other => panic!("type kind {other} has no C counterpart"),
    }
}

fn params(ps: &Value) -> String {
    let v: Vec<String> = ps.as_array().unwrap().iter().map(|p| format!("{} {}", cty(&p["ty"]), p["x"].as_str().unwrap())).collect();
    if v.is_empty() { "void".to_string() } else { v.join(", ") }
}

fn names(ps: &Value) -> Vec<String> {
    ps.as_array().unwrap().iter().map(|p| p["x"].as_str().unwrap().to_string()).collect()
}

/// the C definition of one foreign instance
pub fn function(f: &Value) -> String {
    let n = f["name"].as_str().unwrap();
    let lib = f["lib"].as_str().unwrap();
    let t = f["t"].as_str().unwrap_or("");
    let (ct, ut, wt) = if t.is_empty() { ("", "", "") } else { (ctype(t), utype(t), wide(t)) };
    match lib {
        "id" => format!("{ct} {n}({ct} x) {{ return x; }}"),
        "widen" => format!("{wt} {n}({ct} x) {{ return ({wt})x; }}"),
        "narrow" => format!("{ct} {n}(uint64_t w) {{ return ({ct})w; }}"),
        "sum" => format!("{ct} {n}(const {ct}* x, size_t n) {{ {ut} s = 0; for (size_t i = 0; i < n; i++) s = ({ut})(s + ({ut})x[i]); return ({ct})s; }}"),
        "max" => format!("{ct} {n}(const {ct}* x, size_t n) {{ {ct} m = {}; for (size_t i = 0; i < n; i++) {{ if (x[i] > m) m = x[i]; }} return m; }}", min_of(t)),
        "at" => format!("{ct} {n}(const {ct}* x, size_t j) {{ return x[j]; }}"),
        "fill" => format!("void {n}({ct}* x, size_t n, {ct} v) {{ for (size_t i = 0; i < n; i++) x[i] = v; }}"),
        "incr" => format!("void {n}({ct}* p) {{ *p = ({ct})({ut})(({ut})*p + ({ut})1); }}"),
        "addto" => format!("void {n}({ct}* p, {ct} v) {{ *p = ({ct})({ut})(({ut})*p + ({ut})v); }}"),
        "setpp" => format!("void {n}({ct}** pp, {ct} v) {{ **pp = v; }}"),
        "repoint" => format!("void {n}({ct}** pp, {ct}* q) {{ *pp = q; }}"),
        "copy" => format!("void {n}({ct}* dst, const {ct}* src, size_t n) {{ for (size_t i = 0; i < n; i++) dst[i] = src[i]; }}"),
        "mix" => {
            let ts = f["ts"].as_array().unwrap();
            let mut ps = Vec::new();
            let mut body = String::from("uint64_t acc = 0;");
            for (i, en) in ts.iter().enumerate() {
                let a = format!("a{}", i + 1);
                let c = ctype(en["t"].as_str().unwrap());
                match en["k"].as_str().unwrap() {
                    "s" => {
                        ps.push(format!("{c} {a}"));
                        body.push_str(&format!(" acc = acc * 31u + (uint64_t){a};"));
                    }
                    "v" => {
                        ps.push(format!("const {c}* {a}"));
                        body.push_str(&format!(" acc = acc * 31u + (uint64_t){a}[1];"));
                    }
                    "p" => {
                        ps.push(format!("{c}* {a}"));
                        body.push_str(&format!(" acc = acc * 31u + (uint64_t)*{a};"));
                    }
                    other => panic!("mix entry kind {other}"),
                }
            }
            format!("uint64_t {n}({}) {{ {body} return acc; }}", ps.join(", "))
        }
        "tramp" => {
            let cb = f["cb"].as_str().unwrap();
            let ret = cty(&f["sig"]["ret"]);
            let ps = params(&f["sig"]["params"]);
            let call = format!("{cb}({})", names(&f["sig"]["params"]).join(", "));
            let body = if ret == "void" { format!("{call};") } else { format!("return {call};") };
            format!("{ret} {cb}({ps});\n{ret} {n}({ps}) {{ {body} }}")
        }
        "trampw" => {
            let cb = f["cb"].as_str().unwrap();
            let rt = f["sig"]["ret"]["t"].as_str().unwrap();
            let ret = ctype(rt);
            let w = wide(rt);
            let ps = params(&f["sig"]["params"]);
            let wps: Vec<String> = names(&f["sig"]["params"]).iter().map(|x| format!("uint64_t {x}")).collect();
            let args: Vec<String> = f["sig"]["params"].as_array().unwrap().iter().map(|p| format!("({}){}", cty(&p["ty"]), p["x"].as_str().unwrap())).collect();
            format!("{ret} {cb}({ps});\n{w} {n}({}) {{ return ({w}){cb}({}); }}", wps.join(", "), args.join(", "))
        }
        "foreach" => {
            let cb = f["cb"].as_str().unwrap();
            format!("void {cb}({ct} v);\nvoid {n}(const {ct}* x, size_t n) {{ for (size_t i = 0; i < n; i++) {cb}(x[i]); }}")
        }
        other => panic!("unknown library kind {other}"),
    }
}

/// the C translation unit of a program: its foreign instances
pub fn source(foreign: &Value) -> String {
    let mut s = String::from("#include <stdint.h>\n#include <stddef.h>\n");
    if let Some(fs) = foreign.as_array() {
        for f in fs {
            s.push_str(&function(f));
            s.push('\n');
        }
    }
    s
}

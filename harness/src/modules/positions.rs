//! C11b: one minimal program per cell of spec/Positions.tla.
//!
//! A case is {fam, ty:[tags...], pos, aux:[x]}; see the module comment of Positions.tla.

use serde_json::Value;

fn strs(v: &Value) -> Vec<String> {
    v.as_array().map(|a| a.iter().map(|x| x.as_str().unwrap_or("").to_string()).collect()).unwrap_or_default()
}

/// The type as source text.
pub fn type_text(t: &[String]) -> String {
    match t[0].as_str() {
        "ptr" => format!("&{}", type_text(&t[1..])),
        "view" => format!("({})", type_text(&t[1..])),
        "arr" => format!("[3]{}", type_text(&t[1..])),
        "narr" => format!("[N]{}", type_text(&t[1..])),
        "slice" => format!("[:]{}", type_text(&t[1..])),
        "endless" => format!("[..]{}", type_text(&t[1..])),
        "like" => format!("[]{}", type_text(&t[1..])),
        leaf => leaf.to_string(),
    }
}

/// An initialiser of that type where one exists.
fn init_text(t: &[String]) -> String {
    match t[0].as_str() {
        "arr" | "narr" => {
            let e = init_text(&t[1..]);
            format!("[{e}, {e}, {e}]")
        }
        // the documented use of an explicit view constant: `const GAMEPAD: (u8) = 0x16;`
        "view" if t.len() == 2 && bits_of(&t[1]).is_some() && t[1] != "bool" && t[1] != "char8" && t[1] != "W" => "0x16".to_string(),
        "view" => init_text(&t[1..]),
        "bool" => "true".to_string(),
        "char8" => "'a'".to_string(),
        "S" => "S { x: 1 }".to_string(),
        "W" => "W { a: 1, b: 2 }".to_string(),
        "T" => "T { kind: 1 }".to_string(),
        "ptr" | "slice" | "endless" | "like" | "void" => "0".to_string(),
        _ => "1".to_string(),
    }
}

fn bits_of(leaf: &str) -> Option<usize> {
    Some(match leaf {
        "i8" | "u8" | "bool" | "char8" => 8,
        "i16" | "u16" | "T" => 16,
        "i32" | "u32" | "W" => 32,
        "i64" | "u64" => 64,
        "i128" | "u128" => 128,
        _ => return None,
    })
}

fn prelude(t: &[String]) -> String {
    let mut s = String::new();
    if t.iter().any(|x| x == "S") {
        s.push_str("struct S { x: i32, }\n");
    }
    if t.iter().any(|x| x == "W") {
        s.push_str("word32 W { a: i16, b: i16, }\n");
    }
    if t.iter().any(|x| x == "T") {
        s.push_str("word16 T { kind: u8, }\n");
    }
    if t.iter().any(|x| x == "narr") {
        s.push_str("const N: usize = 3;\n");
    }
    s
}

/// One declaration holding type `ty` in position `pos`; `fl` = "" | "pub" | "extern" | "pubextern" (flags x kinds),
/// `sfx` distinguishes the names of the two declarations of a pair.
fn cell_body(ty: &[String], pos: &str, fl: &str, sfx: &str) -> String {
    let t = type_text(ty);
    let f = match fl {
        "pub" => "pub ",
        "extern" => "extern ",
        "pubextern" => "pub extern ",
        _ => "",
    };
    match pos {
        "var" => format!("{f}fn f{sfx}()\n{{\n\tvar x: {t};\n}}\n"),
        "const" => format!("{f}const X{sfx}: {t} = {};\n", init_text(ty)),
        "param" => format!("{f}fn f{sfx}(x: {t});\n"),
        "ret" => format!("{f}fn f{sfx}() -> {t};\n"),
        "smember" => format!("{f}struct Q{sfx} {{ m: {t}, }}\n"),
        "wmember" => {
            let bits = if ty.len() == 1 { bits_of(&ty[0]).unwrap_or(64) } else { 64 };
            format!("{f}word{bits} Q{sfx} {{ m: {t}, }}\n")
        }
        "xparam" => format!("{}extern fn f{sfx}(x: {t});\n", if fl == "pub" { "pub " } else { "" }),
        "xret" => format!("{}extern fn f{sfx}() -> {t};\n", if fl == "pub" { "pub " } else { "" }),
        "sizeof" => format!("{f}const X{sfx}: usize = |:{t}|;\n"),
        other => panic!("unknown position {other}"),
    }
}

/// The files of a cell (one file, or two for the `import:*` variants of the duplicate family) and, for the pair
/// family, the 1-based line ranges [from, to] of the first and of the second declaration.
pub struct Rendered {
    pub files: Vec<(String, String)>,
    pub first: (usize, usize),
    pub second: (usize, usize),
}

pub fn render_all(case: &Value) -> Rendered {
    let fam = case["fam"].as_str().unwrap_or("");
    let variant = case["aux"].get(1).and_then(|v| v.as_str()).unwrap_or("");
    if fam == "pair" {
        let ty = strs(&case["ty"]);
        let pos = case["pos"].as_str().unwrap_or("");
        let fty = strs(&case["first"]["ty"]);
        let fpos = case["first"]["pos"].as_str().unwrap_or("");
        let mut both = fty.clone();
        both.extend(ty.iter().cloned());
        let pre = prelude(&both);
        let a = cell_body(&fty, fpos, "", "1");
        let b = cell_body(&ty, pos, "", "2");
        let p = pre.lines().count();
        let la = a.lines().count();
        let lb = b.lines().count();
        return Rendered { files: vec![("case.pn".to_string(), pre + &a + &b)], first: (p + 1, p + la), second: (p + la + 1, p + la + lb) };
    }
    if fam == "dup" && variant.starts_with("import:") {
        let pos = case["pos"].as_str().unwrap_or("");
        let dup = case["aux"][0].as_bool().unwrap_or(false);
        let second = if dup { "foo" } else { "bar" };
        let (pubflag, imported) = match variant {
            "import:private+local" => ("", true),
            "import:pub+local" => ("pub ", true),
            _ => ("pub ", false),
        };
        let lib = match pos {
            "fn" => format!("{pubflag}fn foo(x: i32) -> i32\n{{\n\treturn: x\n}}\n// lib\n"),
            "const" => format!("{pubflag}const foo: i32 = 200;\n// lib\n"),
            _ => format!("{pubflag}struct foo {{ x: i32, }}\n// lib\n"),
        };
        let imp = if imported { "import \"lib.pn\";\n" } else { "" };
        let main = match pos {
            "fn" => format!("{imp}fn {second}(x: i64) -> i64\n{{\n\treturn: x\n}}\n// main\n"),
            "const" => format!("{imp}const {second}: i32 = 300;\n// main\n"),
            _ => format!("{imp}struct {second} {{ y: i32, }}\n// main\n"),
        };
        // the importing file is given first for functions, last otherwise (both file orders occur)
        let files = if pos == "fn" {
            vec![("main.pn".to_string(), main), ("lib.pn".to_string(), lib)]
        } else {
            vec![("lib.pn".to_string(), lib), ("main.pn".to_string(), main)]
        };
        return Rendered { files, first: (0, 0), second: (0, 0) };
    }
    Rendered { files: vec![("case.pn".to_string(), render(case))], first: (0, 0), second: (0, 0) }
}

pub fn render(case: &Value) -> String {
    let fam = case["fam"].as_str().unwrap_or("");
    let ty = strs(&case["ty"]);
    let pos = case["pos"].as_str().unwrap_or("");
    let aux = &case["aux"][0];
    match fam {
        "type" => {
            let fl = aux.as_str().unwrap_or("");
            prelude(&ty) + &cell_body(&ty, pos, fl, "")
        }
        "pair" => render_all(case).files.remove(0).1,
        "word" => {
            let bits = aux.as_u64().unwrap_or(0);
            let mut s = prelude(&ty);
            s.push_str(&format!("word{bits} Q {{"));
            for (i, m) in ty.iter().enumerate() {
                s.push_str(&format!(" m{i}: {m},"));
            }
            s.push_str(" }\n");
            s
        }
        "len" => {
            let what = aux.as_str().unwrap_or("");
            let after = case["aux"].get(1).and_then(|v| v.as_str()) == Some("after");
            let decl = match what {
                "const" => "const n: usize = 3;\n",
                "consti32" => "const n: i32 = 3;\n",
                "constexpr" => "const n: usize = 1 + 2;\n",
                "constchain" => "const n: usize = k;\nconst k: usize = 3;\n",
                _ => "",
            };
            let body = match (pos, what) {
                ("var", "var") => "fn f()\n{\n\tvar n: usize = 3;\n\tvar x: [n]u8;\n}\n".to_string(),
                ("var", "param") => "fn f(n: usize)\n{\n\tvar x: [n]u8;\n}\n".to_string(),
                ("var", _) => "fn f()\n{\n\tvar x: [n]u8;\n}\n".to_string(),
                ("nested", "var") => "fn f()\n{\n\tvar n: usize = 3;\n\tvar x: [2][n]u8;\n}\n".to_string(),
                ("nested", "param") => "fn f(n: usize)\n{\n\tvar x: [2][n]u8;\n}\n".to_string(),
                ("nested", _) => "fn f()\n{\n\tvar x: [2][n]u8;\n}\n".to_string(),
                ("smember", _) => "struct Q { m: [n]u8, }\n".to_string(),
                ("const", _) => "const X: [n]u8 = [1, 2, 3];\n".to_string(),
                ("sizeof", _) => "const X: usize = |:[n]u8|;\n".to_string(),
                ("param", "param") => "fn f(n: usize, x: &[n]u8);\n".to_string(),
                ("param", _) => "fn f(x: &[n]u8);\n".to_string(),
                other => panic!("unknown length cell {other:?}"),
            };
            if after { body + decl } else { decl.to_string() + &body }
        }
        "dup" => {
            let dup = aux.as_bool().unwrap_or(false);
            let variant = case["aux"].get(1).and_then(|v| v.as_str()).unwrap_or("");
            let second = if dup { "foo" } else { "bar" };
            if variant == "triple" && !dup {
                // three different names
                return match pos {
                    "fn" => "fn foo(x: i32);\nfn bar(x: i64);\nfn baz(x: i8);\n".to_string(),
                    "const" => "const foo: i32 = 200;\nconst bar: i32 = 300;\nconst baz: i32 = 400;\n".to_string(),
                    "struct" => "struct foo { x: i32, }\nword16 bar { row: i8, col: i8, }\nstruct baz { z: i32, }\n".to_string(),
                    _ => "struct Q { foo: [4]u64, bar: usize, baz: bool, }\n".to_string(),
                };
            }
            match (pos, variant) {
                ("fn", "head+head") | ("fn", "") => format!("fn foo(x: i32);\nfn {second}(x: i64);\n"),
                ("fn", "body+head") => format!("fn foo(x: i32)\n{{\n}}\nfn {second}(x: i64);\n"),
                ("fn", "head+body") => format!("fn foo(x: i32);\nfn {second}(x: i64)\n{{\n}}\n"),
                ("fn", "body+body") => format!("fn foo(x: i32)\n{{\n}}\nfn {second}(x: i64)\n{{\n}}\n"),
                ("fn", "extern+head") => format!("extern fn foo(x: i32);\nfn {second}(x: i64);\n"),
                ("fn", "pub+head") => format!("pub fn foo(x: i32)\n{{\n}}\nfn {second}(x: i64);\n"),
                ("fn", "triple") => format!("fn foo(x: i32);\nfn {second}(x: i64);\nfn {second}(x: i8);\n"),
                ("fn", "last") => format!("const A: i32 = 1;\nstruct B {{ x: i32, }}\nfn g(x: i32);\nfn foo(x: i32);\nfn {second}(x: i64);"),
                ("fn", "first-last") => format!("fn foo(x: i32);\nconst A: i32 = 1;\nstruct B {{ x: i32, }}\nfn g(x: i32);\nfn {second}(x: i64)\n{{\n}}"),
                ("fn", "extern+extern") => format!("extern fn foo(x: i32);\nextern fn {second}(x: i64);\n"),
                ("const", "triple") => format!("const foo: i32 = 200;\nconst {second}: i32 = 300;\nconst {second}: i32 = 400;\n"),
                ("const", "last") => format!("fn g(x: i32);\nstruct B {{ x: i32, }}\nconst A: i32 = 1;\nconst foo: i32 = 200;\nconst {second}: i32 = 300;"),
                ("const", "first-last") => format!("const foo: i32 = 200;\nfn g(x: i32);\nstruct B {{ x: i32, }}\nconst A: i32 = 1;\nconst {second}: i32 = 300;"),
                ("const", "extern") => format!("extern const foo: i32 = 200;\npub extern const {second}: i32 = 300;\n"),
                ("struct", "triple") => format!("struct foo {{ x: i32, }}\nword16 {second} {{ row: i8, col: i8, }}\nstruct {second} {{ z: i32, }}\n"),
                ("struct", "last") => format!("const A: i32 = 1;\nfn g(x: i32);\nstruct B {{ x: i32, }}\nstruct foo {{ x: i32, }}\nstruct {second} {{ y: i32, }}"),
                ("struct", "pub+extern") => format!("pub struct foo {{ x: i32, }}\nextern struct {second} {{ y: i32, }}\n"),
                ("struct", "opaque+struct") => format!("struct foo;\nstruct {second} {{ y: i32, }}\n"),
                ("member", "triple") => format!("struct Q {{ foo: [4]u64, {second}: usize, {second}: bool, }}\n"),
                ("member", "last-two-of-four") => format!("struct Q {{ a: i8, b: i8, foo: [4]u64, {second}: usize, }}\n"),
                // different namespaces (what = "ns"): the first name is `foo`, the second `foo` (dup) or `bar`
                ("ns", "const+struct") => format!("const foo: i32 = 200;\nstruct {second} {{ y: i32, }}\n"),
                ("ns", "struct+const") => format!("struct foo {{ y: i32, }}\nconst {second}: i32 = 200;\n"),
                ("ns", "const+fn") => format!("const foo: i32 = 200;\nfn {second}(x: i64);\n"),
                ("ns", "fn+const") => format!("fn foo(x: i64);\nconst {second}: i32 = 200;\n"),
                ("ns", "struct+fn") => format!("struct foo {{ y: i32, }}\nfn {second}(x: i64);\n"),
                ("ns", "fn+struct") => format!("fn foo(x: i64);\nstruct {second} {{ y: i32, }}\n"),
                ("ns", "word+const") => format!("word16 foo {{ row: i8, col: i8, }}\nconst {second}: i32 = 200;\n"),
                ("ns", "const+word") => format!("const foo: i32 = 200;\nword16 {second} {{ row: i8, col: i8, }}\n"),
                ("ns", "word+fn") => format!("word16 foo {{ row: i8, col: i8, }}\nfn {second}(x: i64)\n{{\n}}\n"),
                ("ns", "member+const") => format!("struct Q {{ a: i8, {second}: usize, }}\nconst foo: i32 = 200;\n"),
                ("ns", "const+member") => format!("const foo: i32 = 200;\nstruct Q {{ a: i8, {second}: usize, }}\n"),
                ("ns", "param+const") => format!("fn f(x: i32, {second}: i32);\nconst foo: i32 = 200;\n"),
                ("ns", "param+fn") => format!("fn foo(x: i32);\nfn f(x: i32, {second}: i32);\n"),
                ("ns", "param+struct") => format!("struct foo {{ y: i32, }}\nfn f(x: i32, {second}: i32);\n"),
                ("ns", "member+fn") => format!("fn foo(x: i32);\nstruct Q {{ a: i8, {second}: usize, }}\n"),
                ("ns", "member+struct") => format!("struct foo {{ y: i32, }}\nstruct Q {{ a: i8, {second}: usize, }}\n"),
                ("ns", "member+param") => format!("fn f(x: i32, foo: i32);\nstruct Q {{ a: i8, {second}: usize, }}\n"),
                ("const", "adjacent") => format!("const foo: i32 = 200;\nconst {second}: i32 = 300;\n"),
                ("const", "apart") | ("const", "") => format!("const foo: i32 = 200;\nconst other: i32 = 250;\nconst {second}: i32 = 300;\n"),
                ("const", "pub") => format!("const foo: i32 = 200;\nfn g();\npub const {second}: i32 = 300;\n"),
                ("param", "param@head") | ("param", "") => format!("fn f(x: i32, foo: i32, {second}: i32);\n"),
                ("param", "param@head-first") => format!("fn f(foo: i32, {second}: i32, x: i32);\n"),
                ("param", "param@body") => format!("fn f(x: i32, foo: i32, {second}: i32)\n{{\n}}\n"),
                ("param", "param@extern") => format!("extern fn f(x: i32, foo: i32, {second}: i32);\n"),
                ("param", "param@pub") => format!("pub fn f(foo: i32, {second}: i32) -> i32\n{{\n\treturn: foo\n}}\n"),
                ("param", "const-before@head") => format!("const foo: i32 = 200;\nfn f(x: i32, {second}: i32);\n"),
                ("param", "const-after@head") => format!("fn f(x: i32, {second}: i32);\nconst foo: i32 = 200;\n"),
                ("param", "const-before@body") => format!("const foo: i32 = 200;\nfn f(x: i32, {second}: i32)\n{{\n}}\n"),
                ("param", "const-after@body") => format!("fn f(x: i32, {second}: i32)\n{{\n}}\nconst foo: i32 = 200;\n"),
                ("param", "const-before@extern") => format!("const foo: i32 = 200;\nextern fn f({second}: i32);\n"),
                ("param", "const-after@extern") => format!("extern fn f({second}: i32, x: i32);\nconst foo: i32 = 200;\n"),
                ("param", "const-after@pub") => format!("pub fn f({second}: i32) -> i32\n{{\n\treturn: {second}\n}}\npub const foo: i32 = 200;\n"),
                ("struct", "struct+struct") | ("struct", "") => format!("struct foo {{ x: i32, }}\nstruct {second} {{ y: i32, }}\n"),
                ("struct", "word+struct") => format!("word16 foo {{ row: i8, col: i8, }}\nstruct {second} {{ y: i32, }}\n"),
                ("struct", "word+word") => format!("word16 foo {{ row: i8, col: i8, }}\nword32 {second} {{ y: i32, }}\n"),
                ("structword", _) => format!("struct foo {{ x: i32, }}\nword16 {second} {{ row: i8, col: i8, }}\n"),
                ("member", "struct") | ("member", "") => format!("struct Q {{ foo: [4]u64, {second}: usize, }}\n"),
                ("member", "word") => format!("word16 Q {{ foo: i8, {second}: i8, }}\n"),
                ("member", "first-last") => format!("struct Q {{ foo: [4]u64, mid: bool, {second}: usize, }}\n"),
                other => panic!("unknown duplicate cell {other:?}"),
            }
        }
        other => panic!("unknown family {other}"),
    }
}

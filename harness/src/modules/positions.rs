//! C11b: one minimal program per cell of spec/Positions.tla.
//!
//! A case is {fam, ty:[tags...], pos, aux:[x]}; see the module comment of Positions.tla.

use serde_json::Value;

fn strs(v: &Value) -> Vec<String> {
    v.as_array().map(|a| a.iter().map(|x| x.as_str().unwrap_or("").to_string()).collect()).unwrap_or_default()
}

/// The type as source text.
pub fn type_text(t: &[String]) -> String {
    match t[0].as_str() {
        "ptr" => format!("&{}", type_text(&t[1..])),
        "view" => format!("({})", type_text(&t[1..])),
        "arr" => format!("[3]{}", type_text(&t[1..])),
        "narr" => format!("[N]{}", type_text(&t[1..])),
        "slice" => format!("[:]{}", type_text(&t[1..])),
        "endless" => format!("[..]{}", type_text(&t[1..])),
        "like" => format!("[]{}", type_text(&t[1..])),
        leaf => leaf.to_string(),
    }
}

/// An initialiser of that type where one exists.
fn init_text(t: &[String]) -> String {
    match t[0].as_str() {
        "arr" | "narr" => {
            let e = init_text(&t[1..]);
            format!("[{e}, {e}, {e}]")
        }
        // the documented use of an explicit view constant: `const GAMEPAD: (u8) = 0x16;`
        "view" if t.len() == 2 && bits_of(&t[1]).is_some() && t[1] != "bool" && t[1] != "char8" && t[1] != "W" => "0x16".to_string(),
        "view" => init_text(&t[1..]),
        "bool" => "true".to_string(),
        "char8" => "'a'".to_string(),
        "S" => "S { x: 1 }".to_string(),
        "W" => "W { a: 1, b: 2 }".to_string(),
        "ptr" | "slice" | "endless" | "like" | "void" => "0".to_string(),
        _ => "1".to_string(),
    }
}

fn bits_of(leaf: &str) -> Option<usize> {
    Some(match leaf {
        "i8" | "u8" | "bool" | "char8" => 8,
        "i16" | "u16" => 16,
        "i32" | "u32" | "W" => 32,
        "i64" | "u64" => 64,
        "i128" | "u128" => 128,
        _ => return None,
    })
}

fn prelude(t: &[String]) -> String {
    let mut s = String::new();
    if t.iter().any(|x| x == "S") {
        s.push_str("struct S { x: i32, }\n");
    }
    if t.iter().any(|x| x == "W") {
        s.push_str("word32 W { a: i16, b: i16, }\n");
    }
    if t.iter().any(|x| x == "narr") {
        s.push_str("const N: usize = 3;\n");
    }
    s
}

pub fn render(case: &Value) -> String {
    let fam = case["fam"].as_str().unwrap_or("");
    let ty = strs(&case["ty"]);
    let pos = case["pos"].as_str().unwrap_or("");
    let aux = &case["aux"][0];
    match fam {
        "type" => {
            let t = type_text(&ty);
            let body = match pos {
                "var" => format!("fn f()\n{{\n\tvar x: {t};\n}}\n"),
                "const" => format!("const X: {t} = {};\n", init_text(&ty)),
                "param" => format!("fn f(x: {t});\n"),
                "ret" => format!("fn f() -> {t};\n"),
                "smember" => format!("struct Q {{ m: {t}, }}\n"),
                "wmember" => {
                    let bits = if ty.len() == 1 { bits_of(&ty[0]).unwrap_or(64) } else { 64 };
                    format!("word{bits} Q {{ m: {t}, }}\n")
                }
                "xparam" => format!("extern fn f(x: {t});\n"),
                "xret" => format!("extern fn f() -> {t};\n"),
                "sizeof" => format!("const X: usize = |:{t}|;\n"),
                other => panic!("unknown position {other}"),
            };
            prelude(&ty) + &body
        }
        "word" => {
            let bits = aux.as_u64().unwrap_or(0);
            let mut s = prelude(&ty);
            s.push_str(&format!("word{bits} Q {{"));
            for (i, m) in ty.iter().enumerate() {
                s.push_str(&format!(" m{i}: {m},"));
            }
            s.push_str(" }\n");
            s
        }
        "len" => {
            let what = aux.as_str().unwrap_or("");
            let decl = match what {
                "const" => "const n: usize = 3;\n",
                "consti32" => "const n: i32 = 3;\n",
                _ => "",
            };
            let body = match (pos, what) {
                ("var", "var") => "fn f()\n{\n\tvar n: usize = 3;\n\tvar x: [n]u8;\n}\n".to_string(),
                ("var", "param") => "fn f(n: usize)\n{\n\tvar x: [n]u8;\n}\n".to_string(),
                ("var", _) => "fn f()\n{\n\tvar x: [n]u8;\n}\n".to_string(),
                ("smember", _) => "struct Q { m: [n]u8, }\n".to_string(),
                ("param", "param") => "fn f(n: usize, x: &[n]u8);\n".to_string(),
                ("param", _) => "fn f(x: &[n]u8);\n".to_string(),
                other => panic!("unknown length cell {other:?}"),
            };
            decl.to_string() + &body
        }
        "dup" => {
            let dup = aux.as_bool().unwrap_or(false);
            let variant = case["aux"].get(1).and_then(|v| v.as_str()).unwrap_or("");
            let second = if dup { "foo" } else { "bar" };
            match (pos, variant) {
                ("fn", "head+head") | ("fn", "") => format!("fn foo(x: i32);\nfn {second}(x: i64);\n"),
                ("fn", "body+head") => format!("fn foo(x: i32)\n{{\n}}\nfn {second}(x: i64);\n"),
                ("fn", "head+body") => format!("fn foo(x: i32);\nfn {second}(x: i64)\n{{\n}}\n"),
                ("fn", "body+body") => format!("fn foo(x: i32)\n{{\n}}\nfn {second}(x: i64)\n{{\n}}\n"),
                ("fn", "extern+head") => format!("extern fn foo(x: i32);\nfn {second}(x: i64);\n"),
                ("fn", "pub+head") => format!("pub fn foo(x: i32)\n{{\n}}\nfn {second}(x: i64);\n"),
                ("const", "adjacent") => format!("const foo: i32 = 200;\nconst {second}: i32 = 300;\n"),
                ("const", "apart") | ("const", "") => format!("const foo: i32 = 200;\nconst other: i32 = 250;\nconst {second}: i32 = 300;\n"),
                ("const", "pub") => format!("const foo: i32 = 200;\nfn g();\npub const {second}: i32 = 300;\n"),
                ("param", "param@head") | ("param", "") => format!("fn f(x: i32, foo: i32, {second}: i32);\n"),
                ("param", "param@head-first") => format!("fn f(foo: i32, {second}: i32, x: i32);\n"),
                ("param", "param@body") => format!("fn f(x: i32, foo: i32, {second}: i32)\n{{\n}}\n"),
                ("param", "param@extern") => format!("extern fn f(x: i32, foo: i32, {second}: i32);\n"),
                ("param", "param@pub") => format!("pub fn f(foo: i32, {second}: i32) -> i32\n{{\n\treturn: foo\n}}\n"),
                ("param", "const-before@head") => format!("const foo: i32 = 200;\nfn f(x: i32, {second}: i32);\n"),
                ("param", "const-after@head") => format!("fn f(x: i32, {second}: i32);\nconst foo: i32 = 200;\n"),
                ("param", "const-before@body") => format!("const foo: i32 = 200;\nfn f(x: i32, {second}: i32)\n{{\n}}\n"),
                ("param", "const-after@body") => format!("fn f(x: i32, {second}: i32)\n{{\n}}\nconst foo: i32 = 200;\n"),
                ("param", "const-before@extern") => format!("const foo: i32 = 200;\nextern fn f({second}: i32);\n"),
                ("param", "const-after@extern") => format!("extern fn f({second}: i32, x: i32);\nconst foo: i32 = 200;\n"),
                ("param", "const-after@pub") => format!("pub fn f({second}: i32) -> i32\n{{\n\treturn: {second}\n}}\npub const foo: i32 = 200;\n"),
                ("struct", "struct+struct") | ("struct", "") => format!("struct foo {{ x: i32, }}\nstruct {second} {{ y: i32, }}\n"),
                ("struct", "word+struct") => format!("word16 foo {{ row: i8, col: i8, }}\nstruct {second} {{ y: i32, }}\n"),
                ("struct", "word+word") => format!("word16 foo {{ row: i8, col: i8, }}\nword32 {second} {{ y: i32, }}\n"),
                ("structword", _) => format!("struct foo {{ x: i32, }}\nword16 {second} {{ row: i8, col: i8, }}\n"),
                ("member", "struct") | ("member", "") => format!("struct Q {{ foo: [4]u64, {second}: usize, }}\n"),
                ("member", "word") => format!("word16 Q {{ foo: i8, {second}: i8, }}\n"),
                ("member", "first-last") => format!("struct Q {{ foo: [4]u64, mid: bool, {second}: usize, }}\n"),
                other => panic!("unknown duplicate cell {other:?}"),
            }
        }
        other => panic!("unknown family {other}"),
    }
}

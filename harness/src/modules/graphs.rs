//! C11a: containment graphs of constants and structures (spec/Containers.tla vocabulary).
//!
//! A case is {n, kind:[c|s|f], val:[[a,b]..], ptr:[[a,b]..], perm:[..]}.  Declaration `a` is
//! `C<a>` (constant), `S<a>` (structure) or `f<a>` (function); each declaration is ONE source line,
//! written in the order `perm`, so that line x <-> declaration perm[x].
//!
//!   c -> c  by value : `C<b>` in the initialiser         c -> s  by value : `|:S<b>|`
//!   s -> c  by value : member `v<b>: [C<b>]i32`          s -> s  by value : member `v<b>: S<b>`
//!   s -> c  pointer  : member `p<b>: &[C<b>]i32`         s -> s  pointer  : member `p<b>: &S<b>`
//!   c -> s  pointer  : `|:&S<b>|` in the initialiser
//! References of one declaration are written in ascending order of the target.

use penne::alpha::common::{Declaration, Expression};
use penne::alpha::value_type::ValueType as VT;
use pvh::rng::Rng;
use serde_json::{Value, json};

type ValueType = penne::alpha::common::ValueType;

#[derive(Debug, Clone)]
pub struct Graph {
    pub n: usize,
    pub kind: Vec<char>,
    pub val: Vec<(usize, usize)>,
    pub ptr: Vec<(usize, usize)>,
    pub perm: Vec<usize>,
}

fn pairs(v: &Value) -> Vec<(usize, usize)> {
    v.as_array()
        .map(|a| a.iter().map(|p| (p[0].as_u64().unwrap() as usize, p[1].as_u64().unwrap() as usize)).collect())
        .unwrap_or_default()
}

impl Graph {
    pub fn from_json(v: &Value) -> Graph {
        let kind: Vec<char> =
            v["kind"].as_array().unwrap().iter().map(|x| x.as_str().unwrap().chars().next().unwrap()).collect();
        let n = kind.len();
        let perm: Vec<usize> = match v["perm"].as_array() {
            Some(p) => p.iter().map(|x| x.as_u64().unwrap() as usize).collect(),
            None => (1..=n).collect(),
        };
        Graph { n, kind, val: pairs(&v["val"]), ptr: pairs(&v["ptr"]), perm }
    }
    pub fn to_json(&self) -> Value {
        json!({
            "n": self.n,
            "kind": self.kind.iter().map(|c| c.to_string()).collect::<Vec<_>>(),
            "val": self.val.iter().map(|(a, b)| json!([a, b])).collect::<Vec<_>>(),
            "ptr": self.ptr.iter().map(|(a, b)| json!([a, b])).collect::<Vec<_>>(),
            "perm": self.perm,
        })
    }
    pub fn name(&self, a: usize) -> String {
        match self.kind[a - 1] {
            'c' => format!("C{a}"),
            's' => format!("S{a}"),
            _ => format!("f{a}"),
        }
    }
    /// (target, by_value) of declaration a in ascending order of the target
    fn refs(&self, a: usize) -> Vec<(usize, bool)> {
        let mut r: Vec<(usize, bool)> = self.val.iter().filter(|p| p.0 == a).map(|p| (p.1, true)).collect();
        r.extend(self.ptr.iter().filter(|p| p.0 == a).map(|p| (p.1, false)));
        r.sort();
        r
    }
    pub fn line(&self, a: usize) -> String {
        match self.kind[a - 1] {
            'c' => {
                let mut s = format!("const C{a}: usize = 1");
                // Every other constant starts with the size of a pointer to a NON-structure type: it is no
                // containment and must not disturb the recording of the references that follow it.
                if (a + self.n) % 2 == 1 && !self.refs(a).is_empty() {
                    s.push_str(" + |:&i32| - 8");
                }
                for (b, by_value) in self.refs(a) {
                    match (self.kind[b - 1], by_value) {
                        ('c', _) => s.push_str(&format!(" + C{b}")),
                        ('s', true) => s.push_str(&format!(" + |:S{b}|")),
                        ('s', false) => s.push_str(&format!(" + |:&S{b}|")),
                        _ => panic!("edge to a function"),
                    }
                }
                s.push(';');
                s
            }
            's' => {
                let mut s = format!("struct S{a} {{ m0: i32,");
                for (b, by_value) in self.refs(a) {
                    match (self.kind[b - 1], by_value) {
                        ('c', true) => s.push_str(&format!(" v{b}: [C{b}]i32,")),
                        ('c', false) => s.push_str(&format!(" p{b}: &[C{b}]i32,")),
                        ('s', true) => s.push_str(&format!(" v{b}: S{b},")),
                        ('s', false) => s.push_str(&format!(" p{b}: &S{b},")),
                        _ => panic!("edge to a function"),
                    }
                }
                s.push_str(" }");
                s
            }
            _ => format!("fn f{a}() -> i32 {{ return: {a} }}"),
        }
    }
    pub fn render(&self) -> String {
        let mut src = String::new();
        for a in &self.perm {
            src.push_str(&self.line(*a));
            src.push('\n');
        }
        src
    }
}

pub fn node_of_name_in(name: &str, n: usize) -> Option<usize> {
    if name == "main" { Some(n) } else { node_of_name(name) }
}

pub fn node_of_name(name: &str) -> Option<usize> {
    let digits: String = name.chars().skip_while(|c| !c.is_ascii_digit()).collect();
    digits.parse().ok()
}

// ---------------------------------------------------------------------------------------------
// projection: what the real parser saw, in the vocabulary of the specification
// ---------------------------------------------------------------------------------------------
fn type_refs(t: &ValueType, under_pointer: bool, out: &mut Vec<(String, bool)>) -> Result<(), String> {
    match t {
        VT::UnresolvedStructOrWord { identifier: Some(id) } => out.push((id.name.clone(), !under_pointer)),
        VT::Struct { identifier } | VT::Word { identifier, .. } => out.push((identifier.name.clone(), !under_pointer)),
        VT::Array { element_type, .. } => type_refs(element_type, under_pointer, out)?,
        VT::ArrayWithNamedLength { element_type, named_length } => {
            type_refs(element_type, under_pointer, out)?;
            out.push((named_length.name.clone(), !under_pointer));
        }
        VT::Slice { element_type }
        | VT::SlicePointer { element_type }
        | VT::EndlessArray { element_type }
        | VT::Arraylike { element_type } => type_refs(element_type, under_pointer, out)?,
        VT::Pointer { deref_type } | VT::View { deref_type } => type_refs(deref_type, true, out)?,
        _ => (),
    }
    Ok(())
}

fn expr_refs(e: &Expression, out: &mut Vec<(String, bool)>) -> Result<(), String> {
    match e {
        Expression::Binary { left, right, .. } => {
            expr_refs(left, out)?;
            expr_refs(right, out)?;
        }
        Expression::Parenthesized { inner, .. } => expr_refs(inner, out)?,
        Expression::SignedIntegerLiteral { .. } | Expression::BitIntegerLiteral { .. } => (),
        Expression::Deref { reference, .. } => match &reference.base {
            Ok(id) => out.push((id.name.clone(), true)),
            Err(_) => return Err("poisoned reference".to_string()),
        },
        Expression::SizeOf { queried_type, .. } => type_refs(queried_type, false, out)?,
        Expression::ArrayLiteral { array, .. } => {
            for x in &array.elements {
                expr_refs(x, out)?;
            }
        }
        other => return Err(format!("projection does not cover {other:?}")),
    }
    Ok(())
}

/// Parse `source` with the real lexer and parser and project the declarations onto a case.
pub fn project(source: &str) -> Result<Graph, String> {
    let decls = pvh::alpha::parse(source, "case.pn");
    let mut names: Vec<(String, char, Vec<(String, bool)>)> = Vec::new();
    for d in &decls {
        match d {
            Declaration::Constant { name, value, value_type, .. } => {
                let mut refs = Vec::new();
                expr_refs(value, &mut refs)?;
                if let Ok(t) = value_type {
                    type_refs(t, false, &mut refs)?;
                }
                names.push((name.name.clone(), 'c', refs));
            }
            Declaration::Structure { name, members, .. } => {
                let mut refs = Vec::new();
                for m in members {
                    match &m.value_type {
                        Ok(t) => type_refs(t, false, &mut refs)?,
                        Err(_) => return Err("poisoned member type".to_string()),
                    }
                }
                names.push((name.name.clone(), 's', refs));
            }
            Declaration::Function { name, .. } | Declaration::FunctionHead { name, .. } => {
                names.push((name.name.clone(), 'f', Vec::new()));
            }
            other => return Err(format!("unexpected declaration {other:?}")),
        }
    }
    let n = names.len();
    let mut kind = vec!['f'; n];
    let mut perm = Vec::new();
    for (name, k, _) in &names {
        let a = node_of_name_in(name, n).ok_or_else(|| format!("name {name}"))?;
        if a == 0 || a > n {
            return Err(format!("node {a} out of range"));
        }
        kind[a - 1] = *k;
        perm.push(a);
    }
    let mut val = Vec::new();
    let mut ptr = Vec::new();
    for (name, _, refs) in &names {
        let a = node_of_name_in(name, n).unwrap();
        for (target, by_value) in refs {
            let b = node_of_name_in(target, n).ok_or_else(|| format!("name {target}"))?;
            if *by_value {
                if !val.contains(&(a, b)) {
                    val.push((a, b));
                }
            } else if !ptr.contains(&(a, b)) {
                ptr.push((a, b));
            }
        }
    }
    val.sort();
    ptr.sort();
    Ok(Graph { n, kind, val, ptr, perm })
}

// ---------------------------------------------------------------------------------------------
// random larger graphs for trace validation
// ---------------------------------------------------------------------------------------------
pub fn random(rng: &mut Rng, max_n: usize) -> Graph {
    let n = rng.range(2, max_n);
    let kind: Vec<char> = (0..n).map(|_| *rng.pick(&['c', 'c', 's', 's', 's', 'f'])).collect();
    // a hidden layering makes most graphs acyclic; "back" edges are rare
    let mut rank: Vec<usize> = (1..=n).collect();
    for i in (1..n).rev() {
        rank.swap(i, rng.below(i + 1));
    }
    let back = [0usize, 0, 0, 3, 8, 25][rng.below(6)];
    let density = rng.range(15, 50);
    let mut val = Vec::new();
    let mut ptr = Vec::new();
    for a in 1..=n {
        for b in 1..=n {
            if kind[a - 1] == 'f' || kind[b - 1] == 'f' {
                continue;
            }
            let forward = rank[a - 1] > rank[b - 1];
            let p = if forward { density } else { back };
            if rng.chance(p) {
                val.push((a, b));
            } else if kind[a - 1] == 's' && rng.chance(20) {
                ptr.push((a, b));
            }
        }
    }
    let mut perm: Vec<usize> = (1..=n).collect();
    for i in (1..n).rev() {
        perm.swap(i, rng.below(i + 1));
    }
    Graph { n, kind, val, ptr, perm }
}

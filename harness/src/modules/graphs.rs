//! C11a: containment graphs of constants and structures (spec/Containers.tla vocabulary).
//!
//! A case is {n, kind:[c|s|f], val:[[a,b]..], ptr:[[a,b]..], perm:[..]}.  Declaration `a` is
//! `C<a>` (constant), `S<a>` (structure) or `f<a>` (function); each declaration is ONE source line,
//! written in the order `perm`, so that line x <-> declaration perm[x].
//!
//!   c -> c  by value : `C<b>` in the initialiser         c -> s  by value : `|:S<b>|`
//!   s -> c  by value : member `v<b>: [C<b>]i32`          s -> s  by value : member `v<b>: S<b>`
//!   s -> c  pointer  : member `p<b>: &[C<b>]i32`         s -> s  pointer  : member `p<b>: &S<b>`
//!   c -> s  pointer  : `|:&S<b>|` in the initialiser
//! References of one declaration are written in ascending order of the target.
//! Kind `w` is a word (`W<a>`): its members are an `i8` (if it holds no word) and the words it contains.
//! HOW a reference is written (Containers.tla: Flavour, a function of the pair) varies: arrays of structures, nested
//! arrays with a named length, a named length inside a size-of, arrays of pointers, pointers to pointers.

use penne::alpha::common::{Declaration, Expression};
use penne::alpha::value_type::ValueType as VT;
use pvh::rng::Rng;
use serde_json::{Value, json};

type ValueType = penne::alpha::common::ValueType;

#[derive(Debug, Clone)]
pub struct Graph {
    pub n: usize,
    pub kind: Vec<char>,
    pub val: Vec<(usize, usize)>,
    pub ptr: Vec<(usize, usize)>,
    pub perm: Vec<usize>,
}

fn pairs(v: &Value) -> Vec<(usize, usize)> {
    v.as_array()
        .map(|a| a.iter().map(|p| (p[0].as_u64().unwrap() as usize, p[1].as_u64().unwrap() as usize)).collect())
        .unwrap_or_default()
}

impl Graph {
    pub fn from_json(v: &Value) -> Graph {
        let kind: Vec<char> =
            v["kind"].as_array().unwrap().iter().map(|x| x.as_str().unwrap().chars().next().unwrap()).collect();
        let n = kind.len();
        let perm: Vec<usize> = match v["perm"].as_array() {
            Some(p) => p.iter().map(|x| x.as_u64().unwrap() as usize).collect(),
            None => (1..=n).collect(),
        };
        Graph { n, kind, val: pairs(&v["val"]), ptr: pairs(&v["ptr"]), perm }
    }
    pub fn to_json(&self) -> Value {
        json!({
            "n": self.n,
            "kind": self.kind.iter().map(|c| c.to_string()).collect::<Vec<_>>(),
            "val": self.val.iter().map(|(a, b)| json!([a, b])).collect::<Vec<_>>(),
            "ptr": self.ptr.iter().map(|(a, b)| json!([a, b])).collect::<Vec<_>>(),
            "perm": self.perm,
        })
    }
    pub fn name(&self, a: usize) -> String {
        match self.kind[a - 1] {
            'c' => format!("C{a}"),
            's' => format!("S{a}"),
            'w' => format!("W{a}"),
            _ => format!("f{a}"),
        }
    }
    /// Containers.tla: Flavour(nn, a, b)
    fn flavour(&self, a: usize, b: usize) -> usize {
        // modules with a member `&[C]T` (input class of an open finding) are written in flavour 0 throughout
        if self.ptr.iter().any(|(x, y)| self.kind[x - 1] == 's' && self.kind[y - 1] == 'c') {
            return 0;
        }
        (a + 2 * b + self.n) % 3
    }
    /// name of the structure or word b
    fn sname(&self, b: usize) -> String {
        if self.kind[b - 1] == 'w' { format!("W{b}") } else { format!("S{b}") }
    }
    /// Declared size in bits of word a: the smallest word size that holds the natural layout of its members
    /// (alignment = size, at most 64 bits); 128 for a word on or above a cycle (the module is rejected anyway).
    fn word_bits(&self, a: usize, visiting: &mut Vec<usize>) -> Option<usize> {
        if visiting.contains(&a) {
            return None;
        }
        visiting.push(a);
        let members: Vec<usize> = self.refs(a).iter().filter(|(_, v)| *v).map(|(b, _)| *b).collect();
        let mut sizes = Vec::new();
        if members.is_empty() {
            sizes.push(8);
        }
        let mut ok = true;
        for b in members {
            match self.word_bits(b, visiting) {
                Some(x) => sizes.push(x),
                None => ok = false,
            }
        }
        visiting.pop();
        if !ok {
            return None;
        }
        let (mut off, mut maxal) = (0usize, 8usize);
        for sz in sizes {
            let al = sz.min(64);
            off = off.div_ceil(al) * al + sz;
            maxal = maxal.max(al);
        }
        let total = off.div_ceil(maxal) * maxal;
        [8usize, 16, 32, 64, 128].into_iter().find(|w| *w >= total)
    }
    /// does the natural layout of every word that is on no cycle fit into 128 bits?
    pub fn words_fit(&self) -> bool {
        let cyclic = |g: &Graph, a: usize| {
            // a word reaches itself through words
            let mut seen = vec![a];
            let mut stack: Vec<usize> = g.refs(a).iter().map(|(b, _)| *b).collect();
            while let Some(b) = stack.pop() {
                if b == a {
                    return true;
                }
                if !seen.contains(&b) {
                    seen.push(b);
                    stack.extend(g.refs(b).iter().map(|(c, _)| *c));
                }
            }
            false
        };
        (1..=self.n).all(|a| self.kind[a - 1] != 'w' || self.word_bits(a, &mut Vec::new()).is_some() || cyclic(self, a)
            || self.refs(a).iter().any(|(b, _)| self.word_bits(*b, &mut Vec::new()).is_none()))
    }
    /// (target, by_value) of declaration a in ascending order of the target
    fn refs(&self, a: usize) -> Vec<(usize, bool)> {
        let mut r: Vec<(usize, bool)> = self.val.iter().filter(|p| p.0 == a).map(|p| (p.1, true)).collect();
        r.extend(self.ptr.iter().filter(|p| p.0 == a).map(|p| (p.1, false)));
        r.sort();
        r
    }
    pub fn line(&self, a: usize) -> String {
        match self.kind[a - 1] {
            'c' => {
                let mut s = format!("const C{a}: usize = 1");
                // Every other constant starts with the size of a pointer to a NON-structure type: it is no
                // containment and must not disturb the recording of the references that follow it.
                if (a + self.n) % 2 == 1 && !self.refs(a).is_empty() {
                    s.push_str(" + |:&i32| - 8");
                }
                for (b, by_value) in self.refs(a) {
                    let sb = self.sname(b);
                    match (self.kind[b - 1], by_value, self.flavour(a, b)) {
                        ('c', _, 0) => s.push_str(&format!(" + C{b}")),
                        ('c', _, 1) => s.push_str(&format!(" + |:[C{b}]u8|")),
                        ('c', _, _) => s.push_str(&format!(" + (C{b} * 1)")),
                        ('s' | 'w', true, 0) => s.push_str(&format!(" + |:{sb}|")),
                        ('s' | 'w', true, 1) => s.push_str(&format!(" + |:[2]{sb}|")),
                        ('s' | 'w', true, _) => s.push_str(&format!(" + |:[2][2]{sb}|")),
                        ('s' | 'w', false, 0) => s.push_str(&format!(" + |:&{sb}|")),
                        ('s' | 'w', false, 1) => s.push_str(&format!(" + |:[2]&{sb}|")),
                        ('s' | 'w', false, _) => s.push_str(&format!(" + |:&[2]{sb}|")),
                        _ => panic!("edge to a function"),
                    }
                }
                s.push(';');
                s
            }
            's' => {
                let mut s = format!("struct S{a} {{ m0: i32,");
                for (b, by_value) in self.refs(a) {
                    let sb = self.sname(b);
                    match (self.kind[b - 1], by_value, self.flavour(a, b)) {
                        ('c', true, 0) => s.push_str(&format!(" v{b}: [C{b}]i32,")),
                        ('c', true, 1) => s.push_str(&format!(" v{b}: [2][C{b}]i32,")),
                        ('c', true, _) => s.push_str(&format!(" v{b}: [C{b}][2]u8,")),
                        ('c', false, _) => s.push_str(&format!(" p{b}: &[C{b}]i32,")),
                        ('s' | 'w', true, 0) => s.push_str(&format!(" v{b}: {sb},")),
                        ('s' | 'w', true, 1) => s.push_str(&format!(" v{b}: [2]{sb},")),
                        ('s' | 'w', true, _) => s.push_str(&format!(" v{b}: [1][2]{sb},")),
                        ('s' | 'w', false, 0) => s.push_str(&format!(" p{b}: &{sb},")),
                        ('s' | 'w', false, 1) => s.push_str(&format!(" p{b}: [2]&{sb},")),
                        ('s' | 'w', false, _) => s.push_str(&format!(" p{b}: &&{sb},")),
                        _ => panic!("edge to a function"),
                    }
                }
                s.push_str(" }");
                s
            }
            'w' => {
                let bits = self.word_bits(a, &mut Vec::new()).unwrap_or(128);
                let mut s = format!("word{bits} W{a} {{");
                let members: Vec<usize> = self.refs(a).iter().filter(|(_, v)| *v).map(|(b, _)| *b).collect();
                if members.is_empty() {
                    s.push_str(" m0: i8,");
                }
                for b in members {
                    s.push_str(&format!(" v{b}: W{b},"));
                }
                s.push_str(" }");
                s
            }
            _ => format!("fn f{a}() -> i32 {{ return: {a} }}"),
        }
    }
    pub fn render(&self) -> String {
        let mut src = String::new();
        for a in &self.perm {
            src.push_str(&self.line(*a));
            src.push('\n');
        }
        src
    }
}

pub fn node_of_name_in(name: &str, n: usize) -> Option<usize> {
    if name == "main" { Some(n) } else { node_of_name(name) }
}

pub fn node_of_name(name: &str) -> Option<usize> {
    let digits: String = name.chars().skip_while(|c| !c.is_ascii_digit()).collect();
    digits.parse().ok()
}

// ---------------------------------------------------------------------------------------------
// projection: what the real parser saw, in the vocabulary of the specification
// ---------------------------------------------------------------------------------------------
fn type_refs(t: &ValueType, under_pointer: bool, out: &mut Vec<(String, bool)>) -> Result<(), String> {
    match t {
        VT::UnresolvedStructOrWord { identifier: Some(id) } => out.push((id.name.clone(), !under_pointer)),
        VT::Struct { identifier } | VT::Word { identifier, .. } => out.push((identifier.name.clone(), !under_pointer)),
        VT::Array { element_type, .. } => type_refs(element_type, under_pointer, out)?,
        VT::ArrayWithNamedLength { element_type, named_length } => {
            type_refs(element_type, under_pointer, out)?;
            out.push((named_length.name.clone(), !under_pointer));
        }
        VT::Slice { element_type }
        | VT::SlicePointer { element_type }
        | VT::EndlessArray { element_type }
        | VT::Arraylike { element_type } => type_refs(element_type, under_pointer, out)?,
        VT::Pointer { deref_type } | VT::View { deref_type } => type_refs(deref_type, true, out)?,
        _ => (),
    }
    Ok(())
}

fn expr_refs(e: &Expression, out: &mut Vec<(String, bool)>) -> Result<(), String> {
    match e {
        Expression::Binary { left, right, .. } => {
            expr_refs(left, out)?;
            expr_refs(right, out)?;
        }
        Expression::Parenthesized { inner, .. } => expr_refs(inner, out)?,
        Expression::SignedIntegerLiteral { .. } | Expression::BitIntegerLiteral { .. } => (),
        Expression::Deref { reference, .. } => match &reference.base {
            Ok(id) => out.push((id.name.clone(), true)),
            Err(_) => return Err("poisoned reference".to_string()),
        },
        Expression::SizeOf { queried_type, .. } => type_refs(queried_type, false, out)?,
        Expression::ArrayLiteral { array, .. } => {
            for x in &array.elements {
                expr_refs(x, out)?;
            }
        }
        // a structure literal in the value of a constant: its type and the values of its members
        Expression::Structural { members, structural_type, .. } => {
            if let Ok(t) = structural_type {
                type_refs(t, false, out)?;
            }
            for m in members {
                expr_refs(&m.expression, out)?;
            }
        }
        other => return Err(format!("projection does not cover {other:?}")),
    }
    Ok(())
}

/// Parse `source` with the real lexer and parser and project the declarations onto a case.
pub fn project(source: &str) -> Result<Graph, String> {
    let decls = pvh::alpha::parse(source, "case.pn");
    let mut names: Vec<(String, char, Vec<(String, bool)>)> = Vec::new();
    for d in &decls {
        match d {
            Declaration::Constant { name, value, value_type, .. } => {
                let mut refs = Vec::new();
                expr_refs(value, &mut refs)?;
                if let Ok(t) = value_type {
                    type_refs(t, false, &mut refs)?;
                }
                names.push((name.name.clone(), 'c', refs));
            }
            Declaration::Structure { name, members, structural_type, .. } => {
                let is_word = matches!(structural_type, Ok(VT::Word { .. }));
                let mut refs = Vec::new();
                for m in members {
                    match &m.value_type {
                        Ok(t) => type_refs(t, false, &mut refs)?,
                        Err(_) => return Err("poisoned member type".to_string()),
                    }
                }
                names.push((name.name.clone(), if is_word { 'w' } else { 's' }, refs));
            }
            Declaration::Function { name, .. } | Declaration::FunctionHead { name, .. } => {
                names.push((name.name.clone(), 'f', Vec::new()));
            }
            other => return Err(format!("unexpected declaration {other:?}")),
        }
    }
    let n = names.len();
    let mut kind = vec!['f'; n];
    let mut perm = Vec::new();
    for (name, k, _) in &names {
        let a = node_of_name_in(name, n).ok_or_else(|| format!("name {name}"))?;
        if a == 0 || a > n {
            return Err(format!("node {a} out of range"));
        }
        kind[a - 1] = *k;
        perm.push(a);
    }
    let mut val = Vec::new();
    let mut ptr = Vec::new();
    for (name, _, refs) in &names {
        let a = node_of_name_in(name, n).unwrap();
        for (target, by_value) in refs {
            let b = node_of_name_in(target, n).ok_or_else(|| format!("name {target}"))?;
            if *by_value {
                if !val.contains(&(a, b)) {
                    val.push((a, b));
                }
            } else if !ptr.contains(&(a, b)) {
                ptr.push((a, b));
            }
        }
    }
    val.sort();
    ptr.sort();
    Ok(Graph { n, kind, val, ptr, perm })
}

// ---------------------------------------------------------------------------------------------
// random larger graphs for trace validation
// ---------------------------------------------------------------------------------------------
pub fn random(rng: &mut Rng, max_n: usize) -> Graph {
    let n = rng.range(2, max_n);
    let kind: Vec<char> = (0..n).map(|_| *rng.pick(&['c', 'c', 's', 's', 's', 'f'])).collect();
    let g = random_with(rng, n, kind);
    // Every fourth graph (decided by a generator of its own, after the draws of the graph) is drawn again with words
    // among the kinds, or as a long chain with a few extra references (dependency chains of up to max_n + 2).
    let mut extra = Rng::new(rng.next(), 0xC11A_5EED);
    match extra.below(8) {
        0 => {
            let kind: Vec<char> = (0..n).map(|_| *extra.pick(&['c', 's', 's', 'w', 'w', 'w', 'f'])).collect();
            for _ in 0..20 {
                let g2 = random_with(&mut extra, n, kind.clone());
                if g2.words_fit() {
                    return g2;
                }
            }
            g
        }
        1 => {
            let n = max_n + 2;
            let kind: Vec<char> = (0..n).map(|_| *extra.pick(&['c', 's'])).collect();
            let mut order: Vec<usize> = (1..=n).collect();
            for i in (1..n).rev() {
                order.swap(i, extra.below(i + 1));
            }
            let mut val: Vec<(usize, usize)> = order.windows(2).map(|w| (w[0], w[1])).collect();
            let mut ptr = Vec::new();
            for _ in 0..extra.below(4) {
                let (x, y) = (extra.below(n), extra.below(n));
                // forward along the chain (diamonds), rarely backward (a cycle)
                if x < y || extra.chance(15) {
                    let p = (order[x], order[y]);
                    if !val.contains(&p) {
                        if kind[p.0 - 1] == 's' && kind[p.1 - 1] == 's' && extra.chance(30) { ptr.push(p) } else { val.push(p) }
                    }
                }
            }
            val.sort();
            ptr.sort();
            let mut perm: Vec<usize> = (1..=n).collect();
            for i in (1..n).rev() {
                perm.swap(i, extra.below(i + 1));
            }
            Graph { n, kind, val, ptr, perm }
        }
        _ => g,
    }
}

fn random_with(rng: &mut Rng, n: usize, kind: Vec<char>) -> Graph {
    // a hidden layering makes most graphs acyclic; "back" edges are rare
    let mut rank: Vec<usize> = (1..=n).collect();
    for i in (1..n).rev() {
        rank.swap(i, rng.below(i + 1));
    }
    let back = [0usize, 0, 0, 3, 8, 25][rng.below(6)];
    let density = rng.range(15, 50);
    let mut val = Vec::new();
    let mut ptr = Vec::new();
    for a in 1..=n {
        for b in 1..=n {
            if kind[a - 1] == 'f' || kind[b - 1] == 'f' || (kind[a - 1] == 'w' && kind[b - 1] != 'w') {
                continue;
            }
            let forward = rank[a - 1] > rank[b - 1];
            let p = if forward { density } else { back };
            if rng.chance(p) {
                val.push((a, b));
            } else if kind[a - 1] == 's' && rng.chance(20) {
                ptr.push((a, b));
            }
        }
    }
    let mut perm: Vec<usize> = (1..=n).collect();
    for i in (1..n).rev() {
        perm.swap(i, rng.below(i + 1));
    }
    Graph { n, kind, val, ptr, perm }
}

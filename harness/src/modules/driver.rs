//! Multi-module driver: the exact sequence of `compile_to_ir_using_alpha` (src/main.rs) and
//! `execute_with_imports` (src/alpha.rs): parse all, expand, check_surface_level_errors per module,
//! then per module scoper::analyze, add_module, analyze_and_resolve, compile; finally link_modules
//! and generate_ir.

use penne::alpha::common::{Declaration, DeclarationFlag};
use penne::alpha::{Compiler, expander, lexer, parser, resolver, scoper};
use pvh::alpha::Diag;
use serde_json::{Value, json};

#[derive(Clone, Copy, PartialEq, Eq, Debug)]
pub enum Upto {
    Expand,
    Resolve,
    Ir,
}

#[derive(Default, Debug)]
pub struct ModOutcome {
    pub path: String,
    /// declarations after expansion: (kind, name, public, has_body)
    pub decls: Vec<(String, String, bool, bool)>,
    /// parallel to `decls`: is the declaration marked `extern`?
    pub ext: Vec<bool>,
    pub diags: Vec<Diag>,
    pub lints: Vec<Diag>,
    pub ok: bool,
    pub reached: bool,
    /// textual IR of this module alone, taken right after `compile` (before linking)
    pub ir: Option<String>,
}

#[derive(Default, Debug)]
pub struct MultiOutcome {
    pub stage: &'static str,
    pub ok: bool,
    pub modules: Vec<ModOutcome>,
    pub events: Vec<String>,
    pub panic: Option<String>,
    pub ir: Option<String>,
}

pub fn project_decl(d: &Declaration) -> (String, String, bool, bool) {
    match d {
        Declaration::Constant { name, flags, .. } => {
            ("const".into(), name.name.clone(), flags.contains(DeclarationFlag::Public), true)
        }
        Declaration::Function { name, flags, .. } => {
            ("fn".into(), name.name.clone(), flags.contains(DeclarationFlag::Public), true)
        }
        Declaration::FunctionHead { name, flags, .. } => {
            ("fn".into(), name.name.clone(), flags.contains(DeclarationFlag::Public), false)
        }
        Declaration::Structure { name, flags, .. } => {
            ("struct".into(), name.name.clone(), flags.contains(DeclarationFlag::Public), true)
        }
        Declaration::Import { filename, .. } => ("import".into(), filename.clone(), false, false),
        Declaration::Poison(_) => ("poison".into(), String::new(), false, false),
    }
}

pub fn is_extern(d: &Declaration) -> bool {
    match d {
        Declaration::Constant { flags, .. }
        | Declaration::Function { flags, .. }
        | Declaration::FunctionHead { flags, .. }
        | Declaration::Structure { flags, .. } => flags.contains(DeclarationFlag::External),
        _ => false,
    }
}

fn panic_message(e: Box<dyn std::any::Any + Send>) -> String {
    if let Some(s) = e.downcast_ref::<&str>() {
        s.to_string()
    } else if let Some(s) = e.downcast_ref::<String>() {
        s.clone()
    } else {
        "panic".to_string()
    }
}

impl ModOutcome {
    pub fn to_json(&self, with_ir: bool) -> Value {
        let mut v = json!({
            "path": self.path,
            "decls": self.decls.iter().map(|(k, n, p, b)| json!({"k": k, "n": n, "pub": p, "body": b})).collect::<Vec<_>>(),
            "diags": self.diags.iter().map(|d| json!([d.code, d.line, d.file])).collect::<Vec<_>>(),
            "ok": self.ok,
            "reached": self.reached,
        });
        if with_ir {
            if let Some(ir) = &self.ir {
                v["ir"] = json!(ir);
            }
        }
        v
    }
}

impl MultiOutcome {
    pub fn to_json(&self, with_ir: bool) -> Value {
        let mut v = json!({
            "stage": self.stage,
            "ok": self.ok,
            "modules": self.modules.iter().map(|m| m.to_json(with_ir)).collect::<Vec<_>>(),
        });
        if let Some(p) = &self.panic {
            v["panic"] = json!(p);
        }
        if with_ir {
            if let Some(ir) = &self.ir {
                v["ir"] = json!(ir);
            }
        }
        v
    }
}

/// Compile a set of files the way `penne` does. `keep_going`: after a module fails, continue with
/// the remaining modules (the real driver stops at the first failing module; for visibility checks
/// every module's own diagnostics are wanted, and the scoper/typer state is per module anyway).
pub fn run_multi(files: &[(String, String)], upto: Upto, record: bool, keep_going: bool) -> MultiOutcome {
    let files2: Vec<(String, String)> = files.to_vec();
    let r = std::panic::catch_unwind(move || run_multi_inner(&files2, upto, record, keep_going));
    match r {
        Ok(o) => o,
        Err(e) => {
            let events = penne::verif_trace::take();
            MultiOutcome { stage: "panic", panic: Some(panic_message(e)), events, ..Default::default() }
        }
    }
}

fn run_multi_inner(files: &[(String, String)], upto: Upto, record: bool, keep_going: bool) -> MultiOutcome {
    let mut out = MultiOutcome::default();
    if record {
        penne::verif_trace::start();
    }
    let mut modules = Vec::new();
    for (path, source) in files {
        let tokens = lexer::lex(source, path);
        let declarations = parser::parse(tokens);
        let filepath: std::path::PathBuf = path.parse().unwrap();
        modules.push((filepath, declarations));
    }
    expander::expand(&mut modules);
    out.stage = "expand";
    let mut surface_ok = true;
    for (filepath, declarations) in &modules {
        let mut m = ModOutcome { path: filepath.to_string_lossy().to_string(), ..Default::default() };
        m.decls = declarations.iter().map(project_decl).collect();
        m.ext = declarations.iter().map(is_extern).collect();
        if let Err(errors) = resolver::check_surface_level_errors(declarations) {
            m.diags = errors.errors.iter().map(Diag::from_error).collect();
            surface_ok = false;
        }
        out.modules.push(m);
    }
    if !surface_ok || upto == Upto::Expand {
        out.ok = surface_ok;
        out.events = penne::verif_trace::take();
        return out;
    }
    out.stage = "resolve";
    let mut compiler = Compiler::default();
    let mut all_ok = true;
    for (i, (filepath, declarations)) in modules.into_iter().enumerate() {
        let filename = filepath.to_string_lossy().to_string();
        let declarations = scoper::analyze(declarations);
        compiler.add_module(&filename).expect("add_module");
        out.modules[i].reached = true;
        let resolved = match compiler.analyze_and_resolve(declarations) {
            Ok(Ok(resolved)) => resolved,
            Ok(Err(errors)) => {
                out.modules[i].diags = errors.errors.iter().map(Diag::from_error).collect();
                all_ok = false;
                if keep_going {
                    continue;
                } else {
                    break;
                }
            }
            Err(e) => {
                out.panic = Some(format!("generator error: {e:#}"));
                all_ok = false;
                break;
            }
        };
        out.modules[i].lints = compiler.take_lints().iter().map(Diag::from_error).collect();
        out.modules[i].ok = true;
        if upto == Upto::Ir {
            if let Err(e) = compiler.compile(&resolved) {
                out.panic = Some(format!("generator error: {e:#}"));
                all_ok = false;
                break;
            }
            out.modules[i].ir = compiler.generate_ir().ok();
        }
    }
    out.ok = all_ok;
    if all_ok && upto == Upto::Ir {
        out.stage = "link";
        match compiler.link_modules() {
            Ok(()) => match compiler.generate_ir() {
                Ok(ir) => {
                    out.stage = "ir";
                    out.ir = Some(ir);
                }
                Err(e) => {
                    out.ok = false;
                    out.panic = Some(format!("generate_ir error: {e:#}"));
                }
            },
            Err(e) => {
                out.ok = false;
                out.panic = Some(format!("link error: {e:#}"));
            }
        }
    }
    out.events = penne::verif_trace::take();
    out
}
